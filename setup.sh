#!/bin/sh
# Builds the framework offline from files on disk. Every check rebuilds what it
# needs from /repo's working tree itself; this only warms the build caches so
# the first quick run is not dominated by compilation.
cd "$(dirname "$0")"
export CARGO_NET_OFFLINE=true
mkdir -p work target evidence replays
python3 - <<'PY'
import sys
sys.path.insert(0, "lib"); sys.path.insert(0, ".")
import importlib
for name in ("abisym", "exprsmt", "rs2smt", "rtkani"):
    try:
        m = importlib.import_module("engines." + name)
    except Exception as e:  # engine not present
        print("setup: engine %s not importable: %s" % (name, e)); continue
    fn = getattr(m, "setup", None) or getattr(m, "build", None)
    if fn is None:
        continue
    try:
        r = fn("/verif/work/setup_%s.log" % name) if fn.__code__.co_argcount >= 1 else fn()
        print("setup: %s -> %s" % (name, r[0] if isinstance(r, tuple) else r))
    except Exception as e:
        print("setup: %s build raised %s (checks rebuild on demand)" % (name, e))
PY
exit 0
