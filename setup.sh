#!/bin/sh
# Builds the framework offline from files on disk. Checks rebuild what they need
# from /repo's working tree themselves; this only warms the caches.
set -e
cd "$(dirname "$0")"
export CARGO_NET_OFFLINE=true
mkdir -p work target evidence replays
exit 0
