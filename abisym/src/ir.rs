//! A `Bindgen` implementation that *records* the instruction stream emitted
//! by the real shared generator (`wit_bindgen_core::abi`) as a small block
//! structured IR, exactly like a language backend would record source text.

use wit_bindgen_core::abi::{Bindgen, Bitcast, Instruction, WasmSignature, WasmType};
use wit_bindgen_core::wit_parser::{
    Alignment, ArchitectureSize, Resolve, SizeAlign, Type, TypeDefKind,
};

pub type Var = usize;

#[derive(Clone, Copy, Debug, PartialEq, Eq)]
pub enum Cast {
    F32ToI32,
    F64ToI64,
    I32ToI64,
    F32ToI64,
    I32ToF32,
    I64ToF64,
    I64ToI32,
    I64ToF32,
    P64ToI64,
    I64ToP64,
    P64ToP,
    PToP64,
    I32ToP,
    PToI32,
    PToL,
    LToP,
    I32ToL,
    LToI32,
    I64ToL,
    LToI64,
    None,
}

pub fn flatten_cast(b: &Bitcast, out: &mut Vec<Cast>) {
    match b {
        Bitcast::F32ToI32 => out.push(Cast::F32ToI32),
        Bitcast::F64ToI64 => out.push(Cast::F64ToI64),
        Bitcast::I32ToI64 => out.push(Cast::I32ToI64),
        Bitcast::F32ToI64 => out.push(Cast::F32ToI64),
        Bitcast::I32ToF32 => out.push(Cast::I32ToF32),
        Bitcast::I64ToF64 => out.push(Cast::I64ToF64),
        Bitcast::I64ToI32 => out.push(Cast::I64ToI32),
        Bitcast::I64ToF32 => out.push(Cast::I64ToF32),
        Bitcast::P64ToI64 => out.push(Cast::P64ToI64),
        Bitcast::I64ToP64 => out.push(Cast::I64ToP64),
        Bitcast::P64ToP => out.push(Cast::P64ToP),
        Bitcast::PToP64 => out.push(Cast::PToP64),
        Bitcast::I32ToP => out.push(Cast::I32ToP),
        Bitcast::PToI32 => out.push(Cast::PToI32),
        Bitcast::PToL => out.push(Cast::PToL),
        Bitcast::LToP => out.push(Cast::LToP),
        Bitcast::I32ToL => out.push(Cast::I32ToL),
        Bitcast::LToI32 => out.push(Cast::LToI32),
        Bitcast::I64ToL => out.push(Cast::I64ToL),
        Bitcast::LToI64 => out.push(Cast::LToI64),
        Bitcast::None => out.push(Cast::None),
        Bitcast::Sequence(s) => {
            flatten_cast(&s[0], out);
            flatten_cast(&s[1], out);
        }
    }
}

#[derive(Clone, Copy, Debug, PartialEq, Eq)]
pub enum MemKind {
    I32,
    I8U,
    I8S,
    I16U,
    I16S,
    I64,
    F32,
    F64,
    Ptr,
    Len,
    // stores
    S8,
    S16,
}

#[derive(Clone, Copy, Debug, PartialEq, Eq)]
pub enum Scalar {
    I32FromChar,
    I64FromU64,
    I64FromS64,
    I32FromU32,
    I32FromS32,
    I32FromU16,
    I32FromS16,
    I32FromU8,
    I32FromS8,
    CoreF32FromF32,
    CoreF64FromF64,
    S8FromI32,
    U8FromI32,
    S16FromI32,
    U16FromI32,
    S32FromI32,
    U32FromI32,
    S64FromI64,
    U64FromI64,
    CharFromI32,
    F32FromCoreF32,
    F64FromCoreF64,
    BoolFromI32,
    I32FromBool,
    /// handle / future / stream / error-context lower or lift: identity on i32
    Handle32(&'static str),
}

#[derive(Clone, Debug)]
pub enum Op {
    GetArg(usize),
    I32Const(i32),
    Bitcasts(Vec<Vec<Cast>>),
    ConstZero(Vec<WasmType>),
    Load(MemKind, ArchitectureSize),
    Store(MemKind, ArchitectureSize),
    Scalar(Scalar),
    ListCanonLower { element: Type, realloc: bool },
    StringLower { realloc: bool },
    ListLower { element: Type, realloc: bool },
    ListCanonLift { element: Type },
    StringLift,
    ListLift { element: Type },
    MapLower { key: Type, value: Type, realloc: bool },
    MapLift { key: Type, value: Type },
    FixedLift { size: u32 },
    FixedLower { size: u32 },
    FixedLowerToMemory { element: Type, size: u32 },
    FixedLiftFromMemory { element: Type, size: u32 },
    IterElem,
    IterMapKey,
    IterMapValue,
    IterBasePointer,
    AggLower(usize),
    AggLift(usize),
    FlagsLower { nflags: usize, words: usize },
    FlagsLift { nflags: usize, words: usize },
    VariantPayloadName,
    VariantLower { ncases: usize, results: Vec<WasmType> },
    VariantLift { ncases: usize, has_payload: Vec<bool> },
    EnumLower,
    EnumLift { ncases: usize },
    CallWasm { name: String, sig: WasmSignature },
    CallInterface { nparams: usize, result: Option<Type>, async_: bool },
    Return { amt: usize },
    Malloc { size: ArchitectureSize, align: Alignment },
    GuestDeallocate { size: ArchitectureSize, align: Alignment },
    GuestDeallocateString,
    GuestDeallocateList { element: Type },
    GuestDeallocateMap { key: Type, value: Type },
    GuestDeallocateVariant { blocks: usize },
    DropHandle { ty: Type },
    AsyncTaskReturn { name: String, params: Vec<WasmType> },
    Flush,
    RetArea { size: ArchitectureSize, align: Alignment },
}

#[derive(Clone, Debug)]
pub struct Stmt {
    pub op: Op,
    pub args: Vec<Var>,
    pub rets: Vec<Var>,
    pub blocks: Vec<Block>,
}

#[derive(Clone, Debug, Default)]
pub struct Block {
    pub stmts: Vec<Stmt>,
    pub results: Vec<Var>,
}

pub struct Recorder {
    pub sizes: SizeAlign,
    pub canon_scalars: bool,
    next: Var,
    open: Vec<Vec<Stmt>>,
    finished: Vec<Block>,
    pub ninstr: usize,
}

impl Recorder {
    pub fn new(resolve: &Resolve, canon_scalars: bool) -> Recorder {
        let mut sizes = SizeAlign::default();
        sizes.fill(resolve);
        Recorder {
            sizes,
            canon_scalars,
            next: 0,
            open: vec![Vec::new()],
            finished: Vec::new(),
            ninstr: 0,
        }
    }
    pub fn fresh(&mut self) -> Var {
        self.next += 1;
        self.next - 1
    }
    /// Finish recording; returns the top-level block.
    pub fn finish(mut self) -> Block {
        assert_eq!(self.open.len(), 1, "unbalanced push_block/finish_block");
        assert!(self.finished.is_empty(), "unconsumed blocks");
        Block {
            stmts: self.open.pop().unwrap(),
            results: vec![],
        }
    }
    fn take_blocks(&mut self, n: usize) -> Vec<Block> {
        assert!(self.finished.len() >= n, "instruction needs {n} blocks");
        let at = self.finished.len() - n;
        self.finished.split_off(at)
    }
}

impl Bindgen for Recorder {
    type Operand = Var;

    fn emit(
        &mut self,
        resolve: &Resolve,
        inst: &Instruction<'_>,
        operands: &mut Vec<Var>,
        results: &mut Vec<Var>,
    ) {
        use Instruction as I;
        self.ninstr += 1;
        let mut nblocks = 0usize;
        let load = |k, o: &ArchitectureSize| Op::Load(k, *o);
        let store = |k, o: &ArchitectureSize| Op::Store(k, *o);
        let op = match inst {
            I::GetArg { nth } => Op::GetArg(*nth),
            I::I32Const { val } => Op::I32Const(*val),
            I::Bitcasts { casts } => Op::Bitcasts(
                casts
                    .iter()
                    .map(|c| {
                        let mut v = Vec::new();
                        flatten_cast(c, &mut v);
                        v
                    })
                    .collect(),
            ),
            I::ConstZero { tys } => Op::ConstZero(tys.to_vec()),
            I::I32Load { offset } => load(MemKind::I32, offset),
            I::I32Load8U { offset } => load(MemKind::I8U, offset),
            I::I32Load8S { offset } => load(MemKind::I8S, offset),
            I::I32Load16U { offset } => load(MemKind::I16U, offset),
            I::I32Load16S { offset } => load(MemKind::I16S, offset),
            I::I64Load { offset } => load(MemKind::I64, offset),
            I::F32Load { offset } => load(MemKind::F32, offset),
            I::F64Load { offset } => load(MemKind::F64, offset),
            I::PointerLoad { offset } => load(MemKind::Ptr, offset),
            I::LengthLoad { offset } => load(MemKind::Len, offset),
            I::I32Store { offset } => store(MemKind::I32, offset),
            I::I32Store8 { offset } => store(MemKind::S8, offset),
            I::I32Store16 { offset } => store(MemKind::S16, offset),
            I::I64Store { offset } => store(MemKind::I64, offset),
            I::F32Store { offset } => store(MemKind::F32, offset),
            I::F64Store { offset } => store(MemKind::F64, offset),
            I::PointerStore { offset } => store(MemKind::Ptr, offset),
            I::LengthStore { offset } => store(MemKind::Len, offset),
            I::I32FromChar => Op::Scalar(Scalar::I32FromChar),
            I::I64FromU64 => Op::Scalar(Scalar::I64FromU64),
            I::I64FromS64 => Op::Scalar(Scalar::I64FromS64),
            I::I32FromU32 => Op::Scalar(Scalar::I32FromU32),
            I::I32FromS32 => Op::Scalar(Scalar::I32FromS32),
            I::I32FromU16 => Op::Scalar(Scalar::I32FromU16),
            I::I32FromS16 => Op::Scalar(Scalar::I32FromS16),
            I::I32FromU8 => Op::Scalar(Scalar::I32FromU8),
            I::I32FromS8 => Op::Scalar(Scalar::I32FromS8),
            I::CoreF32FromF32 => Op::Scalar(Scalar::CoreF32FromF32),
            I::CoreF64FromF64 => Op::Scalar(Scalar::CoreF64FromF64),
            I::S8FromI32 => Op::Scalar(Scalar::S8FromI32),
            I::U8FromI32 => Op::Scalar(Scalar::U8FromI32),
            I::S16FromI32 => Op::Scalar(Scalar::S16FromI32),
            I::U16FromI32 => Op::Scalar(Scalar::U16FromI32),
            I::S32FromI32 => Op::Scalar(Scalar::S32FromI32),
            I::U32FromI32 => Op::Scalar(Scalar::U32FromI32),
            I::S64FromI64 => Op::Scalar(Scalar::S64FromI64),
            I::U64FromI64 => Op::Scalar(Scalar::U64FromI64),
            I::CharFromI32 => Op::Scalar(Scalar::CharFromI32),
            I::F32FromCoreF32 => Op::Scalar(Scalar::F32FromCoreF32),
            I::F64FromCoreF64 => Op::Scalar(Scalar::F64FromCoreF64),
            I::BoolFromI32 => Op::Scalar(Scalar::BoolFromI32),
            I::I32FromBool => Op::Scalar(Scalar::I32FromBool),
            I::ListCanonLower { element, realloc } => Op::ListCanonLower {
                element: **element,
                realloc: realloc.is_some(),
            },
            I::StringLower { realloc } => Op::StringLower {
                realloc: realloc.is_some(),
            },
            I::ListLower { element, realloc } => {
                nblocks = 1;
                Op::ListLower {
                    element: **element,
                    realloc: realloc.is_some(),
                }
            }
            I::ListCanonLift { element, .. } => Op::ListCanonLift { element: **element },
            I::StringLift => Op::StringLift,
            I::ListLift { element, .. } => {
                nblocks = 1;
                Op::ListLift { element: **element }
            }
            I::MapLower {
                key,
                value,
                realloc,
            } => {
                nblocks = 1;
                Op::MapLower {
                    key: **key,
                    value: **value,
                    realloc: realloc.is_some(),
                }
            }
            I::MapLift { key, value, .. } => {
                nblocks = 1;
                Op::MapLift {
                    key: **key,
                    value: **value,
                }
            }
            I::FixedLengthListLift { size, .. } => Op::FixedLift { size: *size },
            I::FixedLengthListLower { size, .. } => Op::FixedLower { size: *size },
            I::FixedLengthListLowerToMemory { element, size, .. } => {
                nblocks = 1;
                Op::FixedLowerToMemory {
                    element: **element,
                    size: *size,
                }
            }
            I::FixedLengthListLiftFromMemory { element, size, .. } => {
                nblocks = 1;
                Op::FixedLiftFromMemory {
                    element: **element,
                    size: *size,
                }
            }
            I::IterElem { .. } => Op::IterElem,
            I::IterMapKey { .. } => Op::IterMapKey,
            I::IterMapValue { .. } => Op::IterMapValue,
            I::IterBasePointer => Op::IterBasePointer,
            I::RecordLower { record, .. } => Op::AggLower(record.fields.len()),
            I::RecordLift { record, .. } => Op::AggLift(record.fields.len()),
            I::TupleLower { tuple, .. } => Op::AggLower(tuple.types.len()),
            I::TupleLift { tuple, .. } => Op::AggLift(tuple.types.len()),
            I::HandleLower { .. } => Op::Scalar(Scalar::Handle32("HandleLower")),
            I::HandleLift { .. } => Op::Scalar(Scalar::Handle32("HandleLift")),
            I::FutureLower { .. } => Op::Scalar(Scalar::Handle32("FutureLower")),
            I::FutureLift { .. } => Op::Scalar(Scalar::Handle32("FutureLift")),
            I::StreamLower { .. } => Op::Scalar(Scalar::Handle32("StreamLower")),
            I::StreamLift { .. } => Op::Scalar(Scalar::Handle32("StreamLift")),
            I::ErrorContextLower => Op::Scalar(Scalar::Handle32("ErrorContextLower")),
            I::ErrorContextLift => Op::Scalar(Scalar::Handle32("ErrorContextLift")),
            I::FlagsLower { flags, .. } => Op::FlagsLower {
                nflags: flags.flags.len(),
                words: flags.repr().count(),
            },
            I::FlagsLift { flags, .. } => Op::FlagsLift {
                nflags: flags.flags.len(),
                words: flags.repr().count(),
            },
            I::VariantPayloadName => Op::VariantPayloadName,
            I::VariantLower {
                variant, results, ..
            } => {
                nblocks = variant.cases.len();
                Op::VariantLower {
                    ncases: nblocks,
                    results: results.to_vec(),
                }
            }
            I::VariantLift { variant, .. } => {
                nblocks = variant.cases.len();
                Op::VariantLift {
                    ncases: nblocks,
                    has_payload: variant.cases.iter().map(|c| c.ty.is_some()).collect(),
                }
            }
            I::EnumLower { .. } => Op::EnumLower,
            I::EnumLift { enum_, .. } => Op::EnumLift {
                ncases: enum_.cases.len(),
            },
            I::OptionLower { results, .. } => {
                nblocks = 2;
                Op::VariantLower {
                    ncases: 2,
                    results: results.to_vec(),
                }
            }
            I::OptionLift { .. } => {
                nblocks = 2;
                Op::VariantLift {
                    ncases: 2,
                    has_payload: vec![false, true],
                }
            }
            I::ResultLower { results, .. } => {
                nblocks = 2;
                Op::VariantLower {
                    ncases: 2,
                    results: results.to_vec(),
                }
            }
            I::ResultLift { result, .. } => {
                nblocks = 2;
                Op::VariantLift {
                    ncases: 2,
                    has_payload: vec![result.ok.is_some(), result.err.is_some()],
                }
            }
            I::CallWasm { name, sig } => Op::CallWasm {
                name: name.to_string(),
                sig: (*sig).clone(),
            },
            I::CallInterface { func, async_ } => Op::CallInterface {
                nparams: func.params.len(),
                result: func.result,
                async_: *async_,
            },
            I::Return { amt, .. } => Op::Return { amt: *amt },
            I::Malloc { size, align, .. } => Op::Malloc {
                size: *size,
                align: *align,
            },
            I::GuestDeallocate { size, align } => Op::GuestDeallocate {
                size: *size,
                align: *align,
            },
            I::GuestDeallocateString => Op::GuestDeallocateString,
            I::GuestDeallocateList { element } => {
                nblocks = 1;
                Op::GuestDeallocateList { element: **element }
            }
            I::GuestDeallocateMap { key, value } => {
                nblocks = 1;
                Op::GuestDeallocateMap {
                    key: **key,
                    value: **value,
                }
            }
            I::GuestDeallocateVariant { blocks } => {
                nblocks = *blocks;
                Op::GuestDeallocateVariant { blocks: *blocks }
            }
            I::DropHandle { ty } => Op::DropHandle { ty: **ty },
            I::AsyncTaskReturn { name, params } => Op::AsyncTaskReturn {
                name: name.to_string(),
                params: params.to_vec(),
            },
            I::Flush { .. } => Op::Flush,
        };
        let _ = resolve;
        let blocks = self.take_blocks(nblocks);
        let args: Vec<Var> = operands.drain(..).collect();
        let rets: Vec<Var> = (0..inst.results_len()).map(|_| self.fresh()).collect();
        results.extend(rets.iter().copied());
        self.open.last_mut().unwrap().push(Stmt {
            op,
            args,
            rets,
            blocks,
        });
    }

    fn return_pointer(&mut self, size: ArchitectureSize, align: Alignment) -> Var {
        let v = self.fresh();
        self.open.last_mut().unwrap().push(Stmt {
            op: Op::RetArea { size, align },
            args: vec![],
            rets: vec![v],
            blocks: vec![],
        });
        v
    }

    fn push_block(&mut self) {
        self.open.push(Vec::new());
    }

    fn finish_block(&mut self, operand: &mut Vec<Var>) {
        let stmts = self.open.pop().expect("finish_block without push_block");
        self.finished.push(Block {
            stmts,
            results: operand.drain(..).collect(),
        });
    }

    fn sizes(&self) -> &SizeAlign {
        &self.sizes
    }

    fn is_list_canonical(&self, resolve: &Resolve, element: &Type) -> bool {
        if !self.canon_scalars {
            return false;
        }
        // the Rust backend's rule for its canonical (memcpy) list path: plain
        // numeric primitives
        let mut t = *element;
        loop {
            match t {
                Type::U8
                | Type::S8
                | Type::U16
                | Type::S16
                | Type::U32
                | Type::S32
                | Type::U64
                | Type::S64
                | Type::F32
                | Type::F64 => return true,
                Type::Id(id) => match &resolve.types[id].kind {
                    TypeDefKind::Type(inner) => t = *inner,
                    _ => return false,
                },
                _ => return false,
            }
        }
    }
}
