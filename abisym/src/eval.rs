//! Symbolic interpreter for the recorded instruction stream.  Every
//! `Instruction` gets the meaning its doc comment in `abi.rs` gives it
//! (what each *backend* emits for it is property C14's business).

use crate::ir::*;
use crate::rmem::RMem;
use crate::spec::Val;
use crate::term::{Sort, T, TB};
use std::collections::HashMap;
use wit_bindgen_core::abi::{WasmSignature, WasmType};
use wit_bindgen_core::wit_parser::{Alignment, ArchitectureSize, Resolve, SizeAlign, Type};

#[derive(Clone, Debug)]
pub struct Alloc {
    pub kind: &'static str,
    pub guard: T,
    pub addr: T,
    pub size: T,
    pub align: u32,
    /// true when ownership passes to the receiver (realloc = Some)
    pub transferred: bool,
}

#[derive(Clone, Debug)]
pub struct Free {
    pub kind: &'static str,
    pub guard: T,
    pub addr: T,
    pub size: T,
    pub align: u32,
}

#[derive(Clone, Debug)]
pub struct Call {
    pub kind: &'static str,
    pub name: String,
    pub guard: T,
    pub args: Vec<Val>,
    pub mem_at: RMem,
    pub sig: Option<WasmSignature>,
    pub params: Vec<WasmType>,
}

enum Iter {
    Elem(Val, T),
    Map(Val, Val, T),
    Base(T),
}

pub struct Machine<'a> {
    pub tb: TB,
    pub resolve: &'a Resolve,
    pub sizes: &'a SizeAlign,
    pub p: u32,
    pub l: usize,
    pub mem: RMem,
    pub env: HashMap<Var, Val>,
    pub args: Vec<Val>,
    pub allocs: Vec<Alloc>,
    pub frees: Vec<Free>,
    pub drops: Vec<(T, T)>,
    pub calls: Vec<Call>,
    /// assumptions about fresh objects (allocator contract, validity of
    /// values invented for host / user results)
    pub assumes: Vec<T>,
    /// result-producing hook for CallInterface: fresh value of a type
    pub iface_results: Vec<Val>,
    iters: Vec<Iter>,
    payloads: Vec<Option<Val>>,
    nmem: u32,
}

pub type R<X> = Result<X, String>;

impl<'a> Machine<'a> {
    pub fn new(resolve: &'a Resolve, sizes: &'a SizeAlign, p: u32, l: usize) -> Machine<'a> {
        let tb = TB::new();
        let mem = RMem::default();
        Machine {
            tb,
            resolve,
            sizes,
            p,
            l,
            mem,
            env: HashMap::new(),
            args: vec![],
            allocs: vec![],
            frees: vec![],
            drops: vec![],
            calls: vec![],
            assumes: vec![],
            iface_results: vec![],
            iters: vec![],
            payloads: vec![],
            nmem: 0,
        }
    }
    pub fn pw(&self) -> u32 {
        self.p * 8
    }
    pub fn asize(&self, s: &ArchitectureSize) -> u32 {
        (if self.p == 4 { s.size_wasm32() } else { s.size_wasm64() }) as u32
    }
    pub fn aalign(&self, a: &Alignment) -> u32 {
        (if self.p == 4 { a.align_wasm32() } else { a.align_wasm64() }) as u32
    }
    pub fn wt_bits(&self, w: WasmType) -> u32 {
        match w {
            WasmType::I32 | WasmType::F32 => 32,
            WasmType::I64 | WasmType::F64 | WasmType::PointerOrI64 => 64,
            WasmType::Pointer | WasmType::Length => self.pw(),
        }
    }
    fn ty_size(&self, t: &Type) -> u32 {
        self.asize(&self.sizes.size(t))
    }
    fn ty_align(&self, t: &Type) -> u32 {
        self.aalign(&self.sizes.align(t))
    }

    /// Allocate a fresh region: aligned, non-null, not wrapping, disjoint
    /// from every earlier region.
    pub fn alloc(&mut self, kind: &'static str, size: T, align: u32, guard: T, transferred: bool) -> T {
        let pw = self.pw();
        let a = self.tb.fresh(&format!("buf.{kind}"), Sort::BV(pw));
        let tb = &mut self.tb;
        if align > 1 {
            let m = tb.bv((align - 1) as u128, pw);
            let x = tb.bvand(a, m);
            let z = tb.bv(0, pw);
            let c = tb.eq(x, z);
            self.assumes.push(c);
        }
        let z = tb.bv(0, pw);
        let e = tb.eq(a, z);
        let nz = tb.not(e);
        self.assumes.push(nz);
        // a + size does not wrap, and stays below 2^(pw-1) to keep things simple
        let lim = tb.bv(1u128 << (pw - 2), pw);
        let c1 = tb.ult(a, lim);
        let c2 = tb.ult(size, lim);
        self.assumes.push(c1);
        self.assumes.push(c2);
        let end = tb.add(a, size);
        for o in &self.allocs {
            let oend = tb.add(o.addr, o.size);
            let d1 = tb.ule(end, o.addr);
            let d2 = tb.ule(oend, a);
            let d = tb.or(&[d1, d2]);
            self.assumes.push(d);
        }
        self.allocs.push(Alloc { kind, guard, addr: a, size, align, transferred });
        a
    }

    fn bv(&self, v: &Val, w: u32, what: &str) -> R<T> {
        match v {
            Val::BV(t) if self.tb.width(*t) == w => Ok(*t),
            Val::BV(t) => Err(format!("{what}: operand has {} bits, expected {w}", self.tb.width(*t))),
            o => Err(format!("{what}: operand is not a scalar: {:?}", o)),
        }
    }
    fn get(&self, v: Var) -> R<Val> {
        self.env.get(&v).cloned().ok_or_else(|| format!("use of undefined operand v{v}"))
    }

    pub fn run(&mut self, b: &Block, guard: T) -> R<Vec<Val>> {
        for s in &b.stmts {
            self.stmt(s, guard)?;
        }
        b.results.iter().map(|v| self.get(*v)).collect()
    }

    fn cast(&mut self, c: Cast, x: T) -> R<T> {
        let pw = self.pw();
        let (from, to) = match c {
            Cast::F32ToI32 | Cast::I32ToF32 => (32, 32),
            Cast::F64ToI64 | Cast::I64ToF64 | Cast::P64ToI64 | Cast::I64ToP64 => (64, 64),
            Cast::I32ToI64 | Cast::F32ToI64 => (32, 64),
            Cast::I64ToI32 | Cast::I64ToF32 => (64, 32),
            Cast::P64ToP => (64, pw),
            Cast::PToP64 => (pw, 64),
            Cast::I32ToP | Cast::I32ToL => (32, pw),
            Cast::PToI32 | Cast::LToI32 => (pw, 32),
            Cast::PToL | Cast::LToP => (pw, pw),
            Cast::I64ToL => (64, pw),
            Cast::LToI64 => (pw, 64),
            Cast::None => return Ok(x),
        };
        if self.tb.width(x) != from {
            return Err(format!("Bitcast {:?} applied to a {}-bit value", c, self.tb.width(x)));
        }
        // meaning of the Bitcast: reinterpret; widening zero-extends,
        // narrowing wraps (canonical ABI coercions)
        Ok(self.tb.resize(x, to))
    }

    fn addr(&mut self, base: &Val, off: &ArchitectureSize, what: &str) -> R<T> {
        let pw = self.pw();
        let b = self.bv(base, pw, what)?;
        let o = self.asize(off);
        let oc = self.tb.bv(o as u128, pw);
        Ok(self.tb.add(b, oc))
    }

    fn elem_addr(&mut self, base: T, i: usize, stride: u32) -> T {
        let pw = self.pw();
        let o = self.tb.bv((i as u128) * (stride as u128), pw);
        self.tb.add(base, o)
    }
    fn idx_guard(&mut self, guard: T, i: usize, len: T) -> T {
        let pw = self.pw();
        let ii = self.tb.bv(i as u128, pw);
        let lt = self.tb.ult(ii, len);
        self.tb.and2(guard, lt)
    }
    fn list_parts(&self, v: &Val, what: &str) -> R<(T, Vec<Val>)> {
        match v {
            Val::List { len, elems } => Ok((*len, elems.clone())),
            o => Err(format!("{what}: operand is not a list: {:?}", o)),
        }
    }

    fn stmt(&mut self, s: &Stmt, guard: T) -> R<()> {
        let args: Vec<Val> = s.args.iter().map(|v| self.get(*v)).collect::<R<_>>()?;
        let mut rets: Vec<Val> = Vec::new();
        let pw = self.pw();
        match &s.op {
            Op::GetArg(n) => rets.push(
                self.args
                    .get(*n)
                    .cloned()
                    .ok_or_else(|| format!("GetArg {{ nth: {n} }} but only {} arguments exist", self.args.len()))?,
            ),
            Op::I32Const(v) => rets.push(Val::BV(self.tb.bv(*v as u32 as u128, 32))),
            Op::Bitcasts(casts) => {
                for (a, cs) in args.iter().zip(casts) {
                    let Val::BV(mut x) = a.clone() else {
                        return Err("Bitcasts on non-scalar".into());
                    };
                    for c in cs {
                        x = self.cast(*c, x)?;
                    }
                    rets.push(Val::BV(x));
                }
            }
            Op::ConstZero(tys) => {
                for t in tys {
                    let w = self.wt_bits(*t);
                    rets.push(Val::BV(self.tb.bv(0, w)));
                }
            }
            Op::Load(kind, off) => {
                let a = self.addr(&args[0], off, "load address")?;
                let p = self.p;
                let (m, tb) = (&mut self.mem, &mut self.tb);
                let v = match kind {
                    MemKind::I32 | MemKind::F32 => m.load(tb, a, 4, guard),
                    MemKind::I64 | MemKind::F64 => m.load(tb, a, 8, guard),
                    MemKind::I8U => {
                        let b = m.load(tb, a, 1, guard);
                        tb.zext_to(b, 32)
                    }
                    MemKind::I8S => {
                        let b = m.load(tb, a, 1, guard);
                        tb.sext_to(b, 32)
                    }
                    MemKind::I16U => {
                        let b = m.load(tb, a, 2, guard);
                        tb.zext_to(b, 32)
                    }
                    MemKind::I16S => {
                        let b = m.load(tb, a, 2, guard);
                        tb.sext_to(b, 32)
                    }
                    MemKind::Ptr | MemKind::Len => m.load(tb, a, p, guard),
                    MemKind::S8 | MemKind::S16 => unreachable!(),
                };
                rets.push(Val::BV(v));
            }
            Op::Store(kind, off) => {
                // operands: [value, address]
                let a = self.addr(&args[1], off, "store address")?;
                let (w, keep) = match kind {
                    MemKind::I32 | MemKind::F32 => (32, 32),
                    MemKind::I64 | MemKind::F64 => (64, 64),
                    MemKind::S8 => (32, 8),
                    MemKind::S16 => (32, 16),
                    MemKind::Ptr | MemKind::Len => (pw, pw),
                    _ => unreachable!(),
                };
                let v = self.bv(&args[0], w, &format!("store {:?} value", kind))?;
                let v = self.tb.extract(keep - 1, 0, v);
                self.mem.store(&mut self.tb, a, v, guard);
            }
            Op::Scalar(sc) => {
                use Scalar::*;
                let x = &args[0];
                let tb_w = |m: &Self, w| m.bv(x, w, &format!("{:?}", sc));
                let r = match sc {
                    I32FromChar | I32FromU32 | I32FromS32 | CoreF32FromF32 | S32FromI32 | U32FromI32
                    | CharFromI32 | F32FromCoreF32 | Handle32(_) => tb_w(self, 32)?,
                    I64FromU64 | I64FromS64 | CoreF64FromF64 | S64FromI64 | U64FromI64 | F64FromCoreF64 => {
                        tb_w(self, 64)?
                    }
                    I32FromU16 => {
                        let v = tb_w(self, 16)?;
                        self.tb.zext_to(v, 32)
                    }
                    I32FromS16 => {
                        let v = tb_w(self, 16)?;
                        self.tb.sext_to(v, 32)
                    }
                    I32FromU8 => {
                        let v = tb_w(self, 8)?;
                        self.tb.zext_to(v, 32)
                    }
                    I32FromS8 => {
                        let v = tb_w(self, 8)?;
                        self.tb.sext_to(v, 32)
                    }
                    I32FromBool => {
                        let v = tb_w(self, 1)?;
                        self.tb.zext_to(v, 32)
                    }
                    S8FromI32 | U8FromI32 => {
                        let v = tb_w(self, 32)?;
                        self.tb.extract(7, 0, v)
                    }
                    S16FromI32 | U16FromI32 => {
                        let v = tb_w(self, 32)?;
                        self.tb.extract(15, 0, v)
                    }
                    BoolFromI32 => {
                        let v = tb_w(self, 32)?;
                        self.tb.extract(0, 0, v)
                    }
                };
                rets.push(Val::BV(r));
            }
            Op::AggLower(n) => match &args[0] {
                Val::Agg(fs) if fs.len() == *n => rets.extend(fs.iter().cloned()),
                o => return Err(format!("RecordLower/TupleLower of {n} fields on {:?}", o)),
            },
            Op::AggLift(n) => {
                if args.len() != *n {
                    return Err("RecordLift arity".into());
                }
                rets.push(Val::Agg(args.clone()));
            }
            Op::FixedLower { size } => match &args[0] {
                Val::Agg(fs) if fs.len() == *size as usize => rets.extend(fs.iter().cloned()),
                o => return Err(format!("FixedLengthListLower of {size} on {:?}", o)),
            },
            Op::FixedLift { size } => {
                if args.len() != *size as usize {
                    return Err("FixedLengthListLift arity".into());
                }
                rets.push(Val::Agg(args.clone()));
            }
            Op::FlagsLower { nflags, words } => {
                if *nflags == 0 {
                    if *words != 0 {
                        return Err("flags with 0 members but words != 0".into());
                    }
                } else {
                    let v = self.bv(&args[0], *nflags as u32, "FlagsLower")?;
                    if (*words as u32) * 32 < *nflags as u32 {
                        return Err(format!("FlagsLower: {words} words cannot hold {nflags} flags"));
                    }
                    let padded = self.tb.zext_to(v, 32 * *words as u32);
                    for k in 0..*words as u32 {
                        rets.push(Val::BV(self.tb.extract(32 * k + 31, 32 * k, padded)));
                    }
                }
            }
            Op::FlagsLift { nflags, words } => {
                if *nflags == 0 {
                    rets.push(Val::Agg(vec![]));
                } else {
                    if args.len() != *words || (*words as u32) * 32 < *nflags as u32 {
                        return Err(format!("FlagsLift: {words} words / {} operands for {nflags} flags", args.len()));
                    }
                    let mut acc = self.bv(&args[0], 32, "FlagsLift")?;
                    for a in &args[1..] {
                        let w = self.bv(a, 32, "FlagsLift")?;
                        acc = self.tb.concat(w, acc);
                    }
                    rets.push(Val::BV(self.tb.extract(*nflags as u32 - 1, 0, acc)));
                }
            }
            Op::VariantPayloadName => {
                let p = self.payloads.last().ok_or("VariantPayloadName outside a variant block")?;
                rets.push(p.clone().unwrap_or(Val::Agg(vec![])));
            }
            Op::VariantLower { ncases, results } => {
                let (disc, cases) = match &args[0] {
                    Val::Var { disc, cases } if cases.len() == *ncases => (*disc, cases.clone()),
                    o => return Err(format!("VariantLower with {ncases} cases on {:?}", o)),
                };
                let mut per_case: Vec<Vec<T>> = Vec::new();
                for (i, blk) in s.blocks.iter().enumerate() {
                    let ic = self.tb.bv(i as u128, 32);
                    let is = self.tb.eq(disc, ic);
                    let g = self.tb.and2(guard, is);
                    self.payloads.push(cases[i].clone());
                    let r = self.run(blk, g);
                    self.payloads.pop();
                    let r = r?;
                    if r.len() != results.len() {
                        return Err(format!("variant arm {i} yields {} values, expected {}", r.len(), results.len()));
                    }
                    let mut row = Vec::new();
                    for (v, wt) in r.iter().zip(results) {
                        row.push(self.bv(v, self.wt_bits(*wt), &format!("variant arm {i} result ({:?})", wt))?);
                    }
                    per_case.push(row);
                }
                for k in 0..results.len() {
                    let mut acc = per_case[ncases - 1][k];
                    for i in (0..ncases - 1).rev() {
                        let ic = self.tb.bv(i as u128, 32);
                        let is = self.tb.eq(disc, ic);
                        acc = self.tb.ite(is, per_case[i][k], acc);
                    }
                    rets.push(Val::BV(acc));
                }
            }
            Op::VariantLift { ncases, has_payload } => {
                let disc = self.bv(&args[0], 32, "VariantLift discriminant")?;
                let mut cases = Vec::new();
                for (i, blk) in s.blocks.iter().enumerate() {
                    let ic = self.tb.bv(i as u128, 32);
                    let is = self.tb.eq(disc, ic);
                    let g = self.tb.and2(guard, is);
                    let r = self.run(blk, g)?;
                    if r.len() != has_payload[i] as usize {
                        return Err(format!("lift arm {i} yields {} values", r.len()));
                    }
                    cases.push(r.into_iter().next());
                }
                assert_eq!(cases.len(), *ncases);
                rets.push(Val::Var { disc, cases });
            }
            Op::EnumLower | Op::EnumLift { .. } => {
                rets.push(Val::BV(self.bv(&args[0], 32, "enum")?));
            }
            Op::ListCanonLower { element, realloc } => {
                let (len, elems) = self.list_parts(&args[0], "ListCanonLower")?;
                let stride = self.ty_size(element);
                let al = self.ty_align(element);
                let buf = self.canon_copy_out(len, &elems, stride, al, guard, *realloc, "list-canon")?;
                rets.push(Val::BV(buf));
                rets.push(Val::BV(len));
            }
            Op::StringLower { realloc } => {
                let (len, elems) = self.list_parts(&args[0], "StringLower")?;
                let buf = self.canon_copy_out(len, &elems, 1, 1, guard, *realloc, "string")?;
                rets.push(Val::BV(buf));
                rets.push(Val::BV(len));
            }
            Op::ListLower { element, realloc } => {
                let (len, elems) = self.list_parts(&args[0], "ListLower")?;
                let stride = self.ty_size(element);
                let al = self.ty_align(element);
                let st = self.tb.bv(stride as u128, pw);
                let size = self.tb.mul(len, st);
                let buf = self.alloc("list", size, al, guard, *realloc);
                for (i, e) in elems.iter().enumerate() {
                    let g = self.idx_guard(guard, i, len);
                    let base = self.elem_addr(buf, i, stride);
                    self.iters.push(Iter::Elem(e.clone(), base));
                    let r = self.run(&s.blocks[0], g);
                    self.iters.pop();
                    r?;
                }
                rets.push(Val::BV(buf));
                rets.push(Val::BV(len));
            }
            Op::MapLower { key, value, realloc } => {
                let (len, elems) = self.list_parts(&args[0], "MapLower")?;
                let info = self.sizes.record([key, value]);
                let stride = self.asize(&info.size);
                let al = self.aalign(&info.align);
                let st = self.tb.bv(stride as u128, pw);
                let size = self.tb.mul(len, st);
                let buf = self.alloc("map", size, al, guard, *realloc);
                for (i, e) in elems.iter().enumerate() {
                    let g = self.idx_guard(guard, i, len);
                    let base = self.elem_addr(buf, i, stride);
                    let Val::Agg(kv) = e else { return Err("map entry is not a pair".into()) };
                    self.iters.push(Iter::Map(kv[0].clone(), kv[1].clone(), base));
                    let r = self.run(&s.blocks[0], g);
                    self.iters.pop();
                    r?;
                }
                rets.push(Val::BV(buf));
                rets.push(Val::BV(len));
            }
            Op::ListCanonLift { element } => {
                let ptr = self.bv(&args[0], pw, "ListCanonLift ptr")?;
                let len = self.bv(&args[1], pw, "ListCanonLift len")?;
                let stride = self.ty_size(element);
                rets.push(self.canon_copy_in(ptr, len, stride, guard));
            }
            Op::StringLift => {
                let ptr = self.bv(&args[0], pw, "StringLift ptr")?;
                let len = self.bv(&args[1], pw, "StringLift len")?;
                rets.push(self.canon_copy_in(ptr, len, 1, guard));
            }
            Op::ListLift { element } => {
                let ptr = self.bv(&args[0], pw, "ListLift ptr")?;
                let len = self.bv(&args[1], pw, "ListLift len")?;
                let stride = self.ty_size(element);
                let mut elems = Vec::new();
                for i in 0..self.l {
                    let g = self.idx_guard(guard, i, len);
                    let base = self.elem_addr(ptr, i, stride);
                    self.iters.push(Iter::Base(base));
                    let r = self.run(&s.blocks[0], g);
                    self.iters.pop();
                    let r = r?;
                    if r.len() != 1 {
                        return Err("ListLift block must yield one value".into());
                    }
                    elems.push(r.into_iter().next().unwrap());
                }
                rets.push(Val::List { len, elems });
            }
            Op::MapLift { key, value } => {
                let ptr = self.bv(&args[0], pw, "MapLift ptr")?;
                let len = self.bv(&args[1], pw, "MapLift len")?;
                let info = self.sizes.record([key, value]);
                let stride = self.asize(&info.size);
                let mut elems = Vec::new();
                for i in 0..self.l {
                    let g = self.idx_guard(guard, i, len);
                    let base = self.elem_addr(ptr, i, stride);
                    self.iters.push(Iter::Base(base));
                    let r = self.run(&s.blocks[0], g);
                    self.iters.pop();
                    let r = r?;
                    if r.len() != 2 {
                        return Err("MapLift block must yield key and value".into());
                    }
                    elems.push(Val::Agg(r));
                }
                rets.push(Val::List { len, elems });
            }
            Op::FixedLowerToMemory { element, size } => {
                // operands: [array, address]
                let Val::Agg(es) = &args[0] else {
                    return Err("FixedLengthListLowerToMemory on non-array".into());
                };
                if es.len() != *size as usize {
                    return Err("FixedLengthListLowerToMemory arity".into());
                }
                let addr = self.bv(&args[1], pw, "FixedLengthListLowerToMemory address")?;
                let stride = self.ty_size(element);
                for (i, e) in es.iter().enumerate() {
                    let base = self.elem_addr(addr, i, stride);
                    self.iters.push(Iter::Elem(e.clone(), base));
                    let r = self.run(&s.blocks[0], guard);
                    self.iters.pop();
                    r?;
                }
            }
            Op::FixedLiftFromMemory { element, size } => {
                let addr = self.bv(&args[0], pw, "FixedLengthListLiftFromMemory address")?;
                let stride = self.ty_size(element);
                let mut es = Vec::new();
                for i in 0..*size as usize {
                    let base = self.elem_addr(addr, i, stride);
                    self.iters.push(Iter::Base(base));
                    let r = self.run(&s.blocks[0], guard);
                    self.iters.pop();
                    let r = r?;
                    if r.len() != 1 {
                        return Err("fixed list lift block must yield one value".into());
                    }
                    es.push(r.into_iter().next().unwrap());
                }
                rets.push(Val::Agg(es));
            }
            Op::IterElem => match self.iters.last() {
                Some(Iter::Elem(e, _)) => rets.push(e.clone()),
                _ => return Err("IterElem outside a list-lowering block".into()),
            },
            Op::IterMapKey => match self.iters.last() {
                Some(Iter::Map(k, _, _)) => rets.push(k.clone()),
                _ => return Err("IterMapKey outside a map-lowering block".into()),
            },
            Op::IterMapValue => match self.iters.last() {
                Some(Iter::Map(_, v, _)) => rets.push(v.clone()),
                _ => return Err("IterMapValue outside a map-lowering block".into()),
            },
            Op::IterBasePointer => match self.iters.last() {
                Some(Iter::Elem(_, b)) | Some(Iter::Map(_, _, b)) | Some(Iter::Base(b)) => rets.push(Val::BV(*b)),
                None => return Err("IterBasePointer outside a block".into()),
            },
            Op::CallWasm { name, sig } => {
                if args.len() != sig.params.len() {
                    return Err("CallWasm arity".into());
                }
                for (a, wt) in args.iter().zip(&sig.params) {
                    self.bv(a, self.wt_bits(*wt), &format!("CallWasm argument of type {:?}", wt))?;
                }
                self.calls.push(Call {
                    kind: "wasm",
                    name: name.clone(),
                    guard,
                    args: args.clone(),
                    mem_at: self.mem.clone(),
                    sig: Some(sig.clone()),
                    params: sig.params.clone(),
                });
                // the callee may write memory (return area, reallocated
                // buffers): havoc
                self.nmem += 1;
                self.mem.havoc();
                for wt in &sig.results {
                    let w = self.wt_bits(*wt);
                    rets.push(Val::BV(self.tb.fresh("ret", Sort::BV(w))));
                }
            }
            Op::CallInterface { nparams, result, .. } => {
                if args.len() != *nparams {
                    return Err("CallInterface arity".into());
                }
                self.calls.push(Call {
                    kind: "interface",
                    name: String::new(),
                    guard,
                    args: args.clone(),
                    mem_at: self.mem.clone(),
                    sig: None,
                    params: vec![],
                });
                if result.is_some() {
                    let v = self
                        .iface_results
                        .pop()
                        .ok_or("CallInterface result requested but none prepared")?;
                    rets.push(v);
                }
            }
            Op::Return { amt } => {
                if args.len() != *amt {
                    return Err("Return arity".into());
                }
                self.calls.push(Call {
                    kind: "return",
                    name: String::new(),
                    guard,
                    args: args.clone(),
                    mem_at: self.mem.clone(),
                    sig: None,
                    params: vec![],
                });
            }
            Op::AsyncTaskReturn { name, params } => {
                if args.len() != params.len() {
                    return Err("AsyncTaskReturn arity".into());
                }
                for (a, wt) in args.iter().zip(params) {
                    self.bv(a, self.wt_bits(*wt), &format!("task.return argument of type {:?}", wt))?;
                }
                self.calls.push(Call {
                    kind: "task.return",
                    name: name.clone(),
                    guard,
                    args: args.clone(),
                    mem_at: self.mem.clone(),
                    sig: None,
                    params: params.clone(),
                });
            }
            Op::Malloc { size, align } => {
                let sz = self.asize(size);
                let szc = self.tb.bv(sz as u128, pw);
                let al = self.aalign(align);
                let a = self.alloc("malloc", szc, al, guard, true);
                rets.push(Val::BV(a));
            }
            Op::RetArea { size, align } => {
                let sz = self.asize(size);
                let szc = self.tb.bv(sz as u128, pw);
                let al = self.aalign(align);
                let a = self.alloc("retarea", szc, al, guard, false);
                rets.push(Val::BV(a));
            }
            Op::GuestDeallocate { size, align } => {
                let a = self.bv(&args[0], pw, "GuestDeallocate pointer")?;
                let sz = self.asize(size);
                let szc = self.tb.bv(sz as u128, pw);
                self.frees.push(Free { kind: "dealloc", guard, addr: a, size: szc, align: self.aalign(align) });
            }
            Op::GuestDeallocateString => {
                let a = self.bv(&args[0], pw, "GuestDeallocateString pointer")?;
                let len = self.bv(&args[1], pw, "GuestDeallocateString length")?;
                self.frees.push(Free { kind: "string", guard, addr: a, size: len, align: 1 });
            }
            Op::GuestDeallocateList { element } => {
                let a = self.bv(&args[0], pw, "GuestDeallocateList pointer")?;
                let len = self.bv(&args[1], pw, "GuestDeallocateList length")?;
                let stride = self.ty_size(element);
                let al = self.ty_align(element);
                self.dealloc_loop(s, a, len, stride, al, guard, "list")?;
            }
            Op::GuestDeallocateMap { key, value } => {
                let a = self.bv(&args[0], pw, "GuestDeallocateMap pointer")?;
                let len = self.bv(&args[1], pw, "GuestDeallocateMap length")?;
                let info = self.sizes.record([key, value]);
                let stride = self.asize(&info.size);
                let al = self.aalign(&info.align);
                self.dealloc_loop(s, a, len, stride, al, guard, "map")?;
            }
            Op::GuestDeallocateVariant { blocks } => {
                let disc = self.bv(&args[0], 32, "GuestDeallocateVariant discriminant")?;
                assert_eq!(*blocks, s.blocks.len());
                for (i, blk) in s.blocks.iter().enumerate() {
                    let ic = self.tb.bv(i as u128, 32);
                    let is = self.tb.eq(disc, ic);
                    let g = self.tb.and2(guard, is);
                    self.run(blk, g)?;
                }
            }
            Op::DropHandle { .. } => {
                let h = self.bv(&args[0], 32, "DropHandle")?;
                self.drops.push((guard, h));
            }
            Op::Flush => rets.extend(args.iter().cloned()),
        }
        if rets.len() != s.rets.len() {
            return Err(format!("{:?}: produced {} results, stream expects {}", s.op, rets.len(), s.rets.len()));
        }
        for (v, r) in s.rets.iter().zip(rets) {
            self.env.insert(*v, r);
        }
        Ok(())
    }

    fn dealloc_loop(&mut self, s: &Stmt, a: T, len: T, stride: u32, al: u32, guard: T, kind: &'static str) -> R<()> {
        let pw = self.pw();
        for i in 0..self.l {
            let g = self.idx_guard(guard, i, len);
            let base = self.elem_addr(a, i, stride);
            self.iters.push(Iter::Base(base));
            let r = self.run(&s.blocks[0], g);
            self.iters.pop();
            r?;
        }
        let st = self.tb.bv(stride as u128, pw);
        let size = self.tb.mul(len, st);
        self.frees.push(Free { kind, guard, addr: a, size, align: al });
        Ok(())
    }

    /// ListCanonLower / StringLower: the language value already has the
    /// canonical layout; with `realloc` it is copied to a buffer the receiver
    /// owns, otherwise the language's own buffer is passed.
    fn canon_copy_out(
        &mut self,
        len: T,
        elems: &[Val],
        stride: u32,
        al: u32,
        guard: T,
        realloc: bool,
        kind: &'static str,
    ) -> R<T> {
        let pw = self.pw();
        let st = self.tb.bv(stride as u128, pw);
        let size = self.tb.mul(len, st);
        let buf = self.alloc(kind, size, al, guard, realloc);
        for (i, e) in elems.iter().enumerate() {
            let g = self.idx_guard(guard, i, len);
            let a = self.elem_addr(buf, i, stride);
            let v = self.bv(e, stride * 8, "canonical list element")?;
            self.mem.store(&mut self.tb, a, v, g);
        }
        Ok(buf)
    }
    fn canon_copy_in(&mut self, ptr: T, len: T, stride: u32, guard: T) -> Val {
        let mut elems = Vec::new();
        for i in 0..self.l {
            let g = self.idx_guard(guard, i, len);
            let a = self.elem_addr(ptr, i, stride);
            elems.push(Val::BV(self.mem.load(&mut self.tb, a, stride, g)));
        }
        Val::List { len, elems }
    }
}
