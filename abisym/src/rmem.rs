//! Region-based linear memory.  Every address the generated code touches is
//! `base + constant`, where `base` is either the (symbolic) start of an
//! allocation or a pointer value read from memory.  Memory is therefore a
//! finite map (base term, constant offset) -> byte term; bytes that were never
//! written are lazily created free variables (arbitrary initial memory).
//!
//! Assumption made by this model (stated in evidence): distinct base terms
//! designate non-overlapping regions.  For allocations this is the allocator
//! contract; for pointers found in *input* memory it excludes encodings whose
//! buffers alias each other -- reads through equal address terms still agree,
//! which is all the lifting obligations depend on.

use crate::term::{Sort, K, T, TB};
use std::collections::HashMap;

#[derive(Clone, Default, Debug)]
pub struct RMem {
    cells: HashMap<(T, u64), T>,
    /// memory "epoch": bumped when the host may have rewritten memory
    pub epoch: u32,
    /// log of stores: (base, offset, nbytes, guard)
    pub stores: Vec<(T, u64, u32, T)>,
    /// log of loads: (base, offset, nbytes)
    pub loads: Vec<(T, u64, u32)>,
}

/// Split an address term into alternatives (condition, base term, offset).
pub fn decompose(tb: &mut TB, addr: T) -> Vec<(T, T, u64)> {
    let mut out = Vec::new();
    let tt = tb.tt();
    dec(tb, addr, 0, tt, &mut out);
    out
}

fn dec(tb: &mut TB, a: T, off: u64, cond: T, out: &mut Vec<(T, T, u64)>) {
    if tb.as_bool(cond) == Some(false) {
        return;
    }
    match tb.k(a).clone() {
        K::Add(x, c) => {
            if let Some(cv) = tb.as_const(c) {
                return dec(tb, x, off.wrapping_add(cv as u64), cond, out);
            }
            if let Some(cv) = tb.as_const(x) {
                return dec(tb, c, off.wrapping_add(cv as u64), cond, out);
            }
            out.push((cond, a, off));
        }
        K::Ite(c, x, y) => {
            let c1 = tb.and2(cond, c);
            dec(tb, x, off, c1, out);
            let nc = tb.not(c);
            let c2 = tb.and2(cond, nc);
            dec(tb, y, off, c2, out);
        }
        K::Concat(..) | K::Extract(..) | K::ZExt(..) => {
            // bytes written under different guards: split on the guards so
            // that each alternative collapses to a recognisable pointer
            let mut conds = Vec::new();
            collect_ite_conds(tb, a, &mut conds, 0);
            if conds.is_empty() || conds.len() > 4 {
                out.push((cond, a, off));
                return;
            }
            for mask in 0..(1u32 << conds.len()) {
                let mut c = cond;
                let mut pos = Vec::new();
                let mut neg = Vec::new();
                for (i, k) in conds.iter().enumerate() {
                    if mask & (1 << i) != 0 {
                        pos.push(*k);
                        c = tb.and2(c, *k);
                    } else {
                        neg.push(*k);
                        let nk = tb.not(*k);
                        c = tb.and2(c, nk);
                    }
                }
                if tb.as_bool(c) == Some(false) {
                    continue;
                }
                let t = subst_ites(tb, a, &pos, &neg);
                match tb.k(t).clone() {
                    K::Add(..) | K::Ite(..) => dec(tb, t, off, c, out),
                    _ => out.push((c, t, off)),
                }
            }
        }
        _ => out.push((cond, a, off)),
    }
}

fn collect_ite_conds(tb: &TB, t: T, out: &mut Vec<T>, depth: u32) {
    if depth > 12 || out.len() > 4 {
        return;
    }
    match tb.k(t).clone() {
        K::Ite(c, x, y) => {
            if !out.contains(&c) {
                out.push(c);
            }
            collect_ite_conds(tb, x, out, depth + 1);
            collect_ite_conds(tb, y, out, depth + 1);
        }
        K::Concat(a, b) => {
            collect_ite_conds(tb, a, out, depth + 1);
            collect_ite_conds(tb, b, out, depth + 1);
        }
        K::Extract(_, _, a) | K::ZExt(_, a) => collect_ite_conds(tb, a, out, depth + 1),
        _ => {}
    }
}

fn subst_ites(tb: &mut TB, t: T, pos: &[T], neg: &[T]) -> T {
    match tb.k(t).clone() {
        K::Ite(c, x, y) => {
            if pos.contains(&c) {
                subst_ites(tb, x, pos, neg)
            } else if neg.contains(&c) {
                subst_ites(tb, y, pos, neg)
            } else {
                t
            }
        }
        K::Concat(a, b) => {
            let a2 = subst_ites(tb, a, pos, neg);
            let b2 = subst_ites(tb, b, pos, neg);
            tb.concat(a2, b2)
        }
        K::Extract(h, l, a) => {
            let a2 = subst_ites(tb, a, pos, neg);
            tb.extract(h, l, a2)
        }
        K::ZExt(_, a) => {
            let w = tb.width(t);
            let a2 = subst_ites(tb, a, pos, neg);
            tb.zext_to(a2, w)
        }
        _ => t,
    }
}

impl RMem {
    pub fn havoc(&mut self) {
        self.cells.clear();
        self.epoch += 1;
    }
    fn cell(&mut self, tb: &mut TB, base: T, off: u64) -> T {
        if let Some(b) = self.cells.get(&(base, off)) {
            return *b;
        }
        let name = format!("M{}[{}+{}]", self.epoch, tb.ref_name(base).replace('|', ""), off);
        let v = tb.var(&name, Sort::BV(8));
        self.cells.insert((base, off), v);
        v
    }
    fn load_at(&mut self, tb: &mut TB, base: T, off: u64, nbytes: u32, guard: T) -> T {
        self.loads.push((base, off, nbytes));
        let mut bytes = Vec::new();
        for i in 0..nbytes {
            let b = self.cell(tb, base, off + i as u64);
            bytes.push(tb.simplify_under(b, guard));
        }
        concat_lift(tb, &bytes)
    }
    /// little-endian load of `nbytes` at `addr`, performed under the path
    /// condition `guard` (used only to simplify the result)
    pub fn load(&mut self, tb: &mut TB, addr: T, nbytes: u32, guard: T) -> T {
        let addr = tb.simplify_under(addr, guard);
        let alts = decompose(tb, addr);
        let mut acc: Option<T> = None;
        for (cond, base, off) in alts.into_iter().rev() {
            let g = tb.and2(guard, cond);
            if tb.as_bool(g) == Some(false) && acc.is_some() {
                continue;
            }
            let v = self.load_at(tb, base, off, nbytes, g);
            acc = Some(match acc {
                None => v,
                Some(rest) => tb.ite(cond, v, rest),
            });
        }
        acc.expect("address with no alternatives")
    }
    /// guarded little-endian store
    pub fn store(&mut self, tb: &mut TB, addr: T, val: T, guard: T) {
        let w = tb.width(val);
        assert!(w % 8 == 0);
        let alts = decompose(tb, addr);
        for (cond, base, off) in alts {
            let g = tb.and2(guard, cond);
            if tb.as_bool(g) == Some(false) {
                continue;
            }
            self.stores.push((base, off, w / 8, g));
            for i in 0..(w / 8) {
                let byte = tb.extract(i * 8 + 7, i * 8, val);
                let v = if tb.as_bool(g) == Some(true) {
                    byte
                } else {
                    let old = self.cell(tb, base, off + i as u64);
                    tb.ite(g, byte, old)
                };
                self.cells.insert((base, off + i as u64), v);
            }
        }
    }
}

/// concat bytes (little-endian, bytes[0] lowest); if every byte is an
/// `ite` on the same condition, lift the condition out so that pointers
/// written under a guard are recognised again when read back.
pub fn concat_lift(tb: &mut TB, bytes: &[T]) -> T {
    if bytes.len() > 1 {
        if let K::Ite(c, _, _) = tb.k(bytes[0]).clone() {
            let mut xs = Vec::new();
            let mut ys = Vec::new();
            let mut ok = true;
            for b in bytes {
                match tb.k(*b).clone() {
                    K::Ite(c2, x, y) if c2 == c => {
                        xs.push(x);
                        ys.push(y);
                    }
                    _ => {
                        ok = false;
                        break;
                    }
                }
            }
            if ok {
                let x = concat_lift(tb, &xs);
                let y = concat_lift(tb, &ys);
                return tb.ite(c, x, y);
            }
        }
    }
    let mut acc = bytes[0];
    for b in &bytes[1..] {
        acc = tb.concat(*b, acc);
    }
    acc
}
