//! Bounded enumeration of WIT types and function signatures (the "programs"
//! quantifier is enumerated, not symbolic -- DESIGN section 0).

use std::collections::BTreeMap;
use wit_bindgen_core::wit_parser::{Function, Resolve, Type, WorldItem, WorldKey};

#[derive(Clone, Debug, PartialEq, Eq, Hash, PartialOrd, Ord)]
pub enum Ty {
    P(&'static str),
    List(Box<Ty>),
    Fixed(Box<Ty>, u32),
    Map(Box<Ty>, Box<Ty>),
    Opt(Box<Ty>),
    Res(Option<Box<Ty>>, Option<Box<Ty>>),
    Tuple(Vec<Ty>),
    Record(Vec<Ty>),
    Variant(Vec<Option<Ty>>),
    Enum(usize),
    Flags(usize),
    Own,
    Borrow,
    Future(Option<Box<Ty>>),
    Stream(Option<Box<Ty>>),
}

impl Ty {
    /// nesting depth of list/map/string containers (each multiplies the
    /// number of symbolic elements by the length bound)
    pub fn container_depth(&self) -> usize {
        match self {
            Ty::P(s) => (*s == "string") as usize,
            Ty::Enum(_) | Ty::Flags(_) | Ty::Own | Ty::Borrow | Ty::Future(_) | Ty::Stream(_) => 0,
            Ty::List(e) => 1 + e.container_depth(),
            Ty::Map(k, v) => 1 + k.container_depth().max(v.container_depth()),
            Ty::Fixed(e, _) | Ty::Opt(e) => e.container_depth(),
            Ty::Res(a, c) => a.as_ref().map_or(0, |x| x.container_depth()).max(c.as_ref().map_or(0, |x| x.container_depth())),
            Ty::Tuple(v) | Ty::Record(v) => v.iter().map(|x| x.container_depth()).max().unwrap_or(0),
            Ty::Variant(v) => v.iter().flatten().map(|x| x.container_depth()).max().unwrap_or(0),
        }
    }
    pub fn has_borrow(&self) -> bool {
        match self {
            Ty::Borrow => true,
            Ty::P(_) | Ty::Enum(_) | Ty::Flags(_) | Ty::Own => false,
            Ty::List(e) | Ty::Fixed(e, _) | Ty::Opt(e) => e.has_borrow(),
            Ty::Map(k, v) => k.has_borrow() || v.has_borrow(),
            Ty::Res(a, c) => a.as_ref().map_or(false, |x| x.has_borrow()) || c.as_ref().map_or(false, |x| x.has_borrow()),
            Ty::Tuple(v) | Ty::Record(v) => v.iter().any(|x| x.has_borrow()),
            Ty::Variant(v) => v.iter().flatten().any(|x| x.has_borrow()),
            Ty::Future(e) | Ty::Stream(e) => e.as_ref().map_or(false, |x| x.has_borrow()),
        }
    }
}

pub fn b(t: Ty) -> Box<Ty> {
    Box::new(t)
}
pub fn p(s: &'static str) -> Ty {
    Ty::P(s)
}

#[derive(Default)]
pub struct Defs {
    names: BTreeMap<Ty, String>,
    pub text: Vec<String>,
}

impl Defs {
    fn name(&mut self, t: &Ty, prefix: &str, body: impl FnOnce(&mut Defs, &str) -> String) -> String {
        if let Some(n) = self.names.get(t) {
            return n.clone();
        }
        let n = format!("{prefix}{}", self.names.len());
        self.names.insert(t.clone(), n.clone());
        let text = body(self, &n);
        self.text.push(text);
        n
    }
    pub fn expr(&mut self, t: &Ty) -> String {
        match t {
            Ty::P(s) => s.to_string(),
            Ty::List(e) => format!("list<{}>", self.expr(e)),
            Ty::Fixed(e, n) => format!("list<{}, {n}>", self.expr(e)),
            Ty::Map(k, v) => format!("map<{}, {}>", self.expr(k), self.expr(v)),
            Ty::Opt(e) => format!("option<{}>", self.expr(e)),
            Ty::Res(None, None) => "result".to_string(),
            Ty::Res(Some(o), None) => format!("result<{}>", self.expr(o)),
            Ty::Res(None, Some(e)) => format!("result<_, {}>", self.expr(e)),
            Ty::Res(Some(o), Some(e)) => format!("result<{}, {}>", self.expr(o), self.expr(e)),
            Ty::Tuple(ts) => {
                let v: Vec<String> = ts.iter().map(|t| self.expr(t)).collect();
                format!("tuple<{}>", v.join(", "))
            }
            Ty::Record(fs) => self.name(t, "rec", |d, n| {
                let v: Vec<String> = fs
                    .iter()
                    .enumerate()
                    .map(|(i, f)| format!("f{i}: {}", d.expr(f)))
                    .collect();
                format!("record {n} {{ {} }}", v.join(", "))
            }),
            Ty::Variant(cs) => self.name(t, "var", |d, n| {
                let v: Vec<String> = cs
                    .iter()
                    .enumerate()
                    .map(|(i, c)| match c {
                        Some(c) => format!("c{i}({})", d.expr(c)),
                        None => format!("c{i}"),
                    })
                    .collect();
                format!("variant {n} {{ {} }}", v.join(", "))
            }),
            Ty::Enum(k) => self.name(t, "enm", |_, n| {
                let v: Vec<String> = (0..*k).map(|i| format!("e{i}")).collect();
                format!("enum {n} {{ {} }}", v.join(", "))
            }),
            Ty::Flags(k) => self.name(t, "flg", |_, n| {
                let v: Vec<String> = (0..*k).map(|i| format!("b{i}")).collect();
                format!("flags {n} {{ {} }}", v.join(", "))
            }),
            Ty::Own => "res".to_string(),
            Ty::Borrow => "borrow<res>".to_string(),
            Ty::Future(None) => "future".to_string(),
            Ty::Future(Some(e)) => format!("future<{}>", self.expr(e)),
            Ty::Stream(None) => "stream".to_string(),
            Ty::Stream(Some(e)) => format!("stream<{}>", self.expr(e)),
        }
    }
}

pub const PRIMS: [&str; 15] = [
    "bool", "u8", "s8", "u16", "s16", "u32", "s32", "u64", "s64", "f32", "f64", "char", "string",
    "error-context", "u8",
];

/// Leaf-level types (depth 0).
pub fn leaves(tier: &str) -> Vec<Ty> {
    let mut v: Vec<Ty> = PRIMS[..14].iter().map(|s| p(s)).collect();
    v.push(Ty::Own);
    v.push(Ty::Borrow);
    v.push(Ty::Future(None));
    v.push(Ty::Future(Some(b(p("u8")))));
    v.push(Ty::Future(Some(b(p("string")))));
    v.push(Ty::Stream(None));
    v.push(Ty::Stream(Some(b(p("u32")))));
    for n in [1usize, 2, 3, 256, 257] {
        v.push(Ty::Enum(n));
    }
    for n in 1..=65usize {
        // quick tier: every representation boundary; thorough: all 1..=65
        if tier == "thorough" || [1, 2, 7, 8, 9, 15, 16, 17, 31, 32, 33, 63, 64, 65].contains(&n) {
            v.push(Ty::Flags(n));
        }
    }
    v
}

fn payload_classes() -> Vec<Ty> {
    vec![
        p("u8"),
        p("s16"),
        p("u32"),
        p("s64"),
        p("f32"),
        p("f64"),
        p("char"),
        p("bool"),
        p("string"),
        Ty::List(b(p("u8"))),
        Ty::Own,
        Ty::Enum(3),
        Ty::Flags(9),
    ]
}

/// Depth-1 types: every constructor over representative leaves.
pub fn depth1() -> Vec<Ty> {
    let mut v = Vec::new();
    let pc = payload_classes();
    for t in &pc {
        v.push(Ty::List(b(t.clone())));
        v.push(Ty::Opt(b(t.clone())));
    }
    for t in [p("u16"), p("u64"), p("f64"), Ty::Borrow, Ty::Flags(33), Ty::Stream(Some(b(p("u32"))))] {
        v.push(Ty::List(b(t.clone())));
        v.push(Ty::Opt(b(t)));
    }
    for n in [1u32, 2, 3] {
        for t in [p("u8"), p("u32"), p("f64"), p("bool"), p("string"), p("u64")] {
            v.push(Ty::Fixed(b(t), n));
        }
    }
    // results: every join pair
    let joinp: Vec<(Ty, Ty)> = vec![
        (p("u8"), p("f32")),
        (p("f32"), p("s64")),
        (p("u32"), p("string")),
        (p("f64"), p("string")),
        (p("s64"), Ty::List(b(p("u8")))),
        (p("f32"), Ty::List(b(p("u8")))),
        (p("f64"), p("f32")),
        (p("u64"), p("f64")),
        (p("f64"), p("u32")),
        (p("string"), p("u64")),
        (p("string"), p("f32")),
        (p("string"), p("string")),
        (p("s8"), p("s8")),
        (p("char"), p("bool")),
        (Ty::Own, p("f64")),
        (Ty::Flags(40), p("f32")),
        (Ty::Flags(40), p("string")),
        (Ty::Enum(257), p("u64")),
    ];
    for (a, c) in &joinp {
        v.push(Ty::Res(Some(b(a.clone())), Some(b(c.clone()))));
    }
    v.push(Ty::Res(None, None));
    for t in [p("u8"), p("string"), p("f64"), p("s64")] {
        v.push(Ty::Res(Some(b(t.clone())), None));
        v.push(Ty::Res(None, Some(b(t))));
    }
    // records / tuples with padding
    let shapes: Vec<Vec<Ty>> = vec![
        vec![p("u8"), p("u64")],
        vec![p("u8"), p("u16"), p("u8"), p("u32")],
        vec![p("u8"), p("string")],
        vec![p("f32"), p("f64"), p("char"), p("bool")],
        vec![p("u64"), p("u8")],
        vec![p("string"), p("u8"), p("string")],
        vec![p("s16")],
        vec![Ty::Flags(3), p("u32"), Ty::Enum(2)],
        vec![Ty::Own, Ty::Borrow, p("u8")],
        vec![Ty::Flags(17), p("u8"), Ty::Flags(65)],
    ];
    for s in &shapes {
        v.push(Ty::Tuple(s.clone()));
        v.push(Ty::Record(s.clone()));
    }
    // variants with 1..4 cases and a u16-discriminant variant
    let vs: Vec<Vec<Option<Ty>>> = vec![
        vec![Some(p("u32"))],
        vec![None],
        vec![None, Some(p("f32"))],
        vec![Some(p("f32")), Some(p("s64"))],
        vec![Some(p("u8")), Some(p("f32")), None],
        vec![Some(p("string")), Some(p("u64")), Some(p("f32"))],
        vec![Some(p("f64")), Some(p("string")), None, Some(p("u8"))],
        vec![Some(p("f32")), Some(Ty::List(b(p("u32")))), Some(p("s64")), Some(p("char"))],
        vec![Some(p("u64")), Some(p("u8"))],
        vec![Some(Ty::Own), Some(p("f32")), Some(Ty::Stream(None))],
    ];
    for cs in vs {
        v.push(Ty::Variant(cs));
    }
    let mut big: Vec<Option<Ty>> = (0..257).map(|_| None).collect();
    big[0] = Some(p("u8"));
    big[200] = Some(p("u64"));
    big[256] = Some(p("string"));
    v.push(Ty::Variant(big));
    // u16 discriminant with payloads whose alignment is SMALLER than the
    // discriminant: payload offset 2 (a u8-tag computation would give 1)
    let mut big8: Vec<Option<Ty>> = (0..257).map(|_| None).collect();
    big8[0] = Some(p("u8"));
    big8[256] = Some(p("bool"));
    v.push(Ty::Variant(big8));
    let mut big16: Vec<Option<Ty>> = (0..300).map(|_| None).collect();
    big16[1] = Some(p("s16"));
    big16[299] = Some(p("u8"));
    v.push(Ty::Variant(big16));
    // maps
    for (k, val) in [
        (p("u8"), p("u32")),
        (p("string"), p("u64")),
        (p("u32"), p("string")),
        (p("char"), Ty::List(b(p("u8")))),
        (p("u64"), p("u8")),
        // key size not a multiple of the value's alignment: the value sits
        // at an aligned offset > size(key)
        (p("u8"), p("string")),
        (p("bool"), Ty::List(b(p("u32")))),
        (p("u16"), Ty::List(b(p("u32")))),
        (p("u32"), Ty::Tuple(vec![p("u64"), p("string")])),
        (p("u16"), p("u64")),
        (p("u8"), Ty::Own),
    ] {
        v.push(Ty::Map(b(k), b(val)));
    }
    v
}

/// Representative depth-1 types used as building blocks for depth 2.
fn reps() -> Vec<Ty> {
    vec![
        Ty::List(b(p("u8"))),
        Ty::List(b(p("string"))),
        Ty::List(b(p("u64"))),
        Ty::Opt(b(p("u8"))),
        Ty::Opt(b(p("string"))),
        Ty::Opt(b(p("f64"))),
        Ty::Res(Some(b(p("u8"))), Some(b(p("f32")))),
        Ty::Res(Some(b(p("f32"))), Some(b(p("s64")))),
        Ty::Res(Some(b(p("u32"))), Some(b(p("string")))),
        Ty::Res(None, None),
        Ty::Tuple(vec![p("u8"), p("u64")]),
        Ty::Record(vec![p("u8"), p("string")]),
        Ty::Record(vec![p("u8"), p("u16"), p("u8"), p("u32")]),
        Ty::Variant(vec![Some(p("f32")), Some(p("s64"))]),
        Ty::Variant(vec![Some(p("string")), Some(p("u64")), Some(p("f32"))]),
        Ty::Variant(vec![None, Some(p("f32"))]),
        Ty::Fixed(b(p("u32")), 2),
        Ty::Fixed(b(p("string")), 2),
        Ty::Map(b(p("string")), b(p("u64"))),
        Ty::Flags(33),
        Ty::Enum(257),
        Ty::Own,
        Ty::Future(Some(b(p("u8")))),
    ]
}

pub fn depth2() -> Vec<Ty> {
    let mut v = Vec::new();
    for d in reps() {
        v.push(Ty::List(b(d.clone())));
        v.push(Ty::Opt(b(d.clone())));
        v.push(Ty::Res(Some(b(d.clone())), Some(b(p("string")))));
        v.push(Ty::Res(Some(b(p("u8"))), Some(b(d.clone()))));
        v.push(Ty::Tuple(vec![p("u8"), d.clone(), p("u16")]));
        v.push(Ty::Variant(vec![Some(d.clone()), Some(p("f64")), None]));
        v.push(Ty::Fixed(b(d.clone()), 2));
        v.push(Ty::Map(b(p("u32")), b(d.clone())));
        v.push(Ty::Record(vec![d.clone(), p("u8")]));
    }
    v
}

/// Depth-3 samples (thorough tier), selected by seed.
pub fn depth3(seed: u64, count: usize) -> Vec<Ty> {
    let d2 = depth2();
    let mut out = Vec::new();
    let mut s = seed.wrapping_mul(0x9E3779B97F4A7C15).wrapping_add(0x1234567);
    let mut next = || {
        s ^= s << 13;
        s ^= s >> 7;
        s ^= s << 17;
        s
    };
    for _ in 0..count {
        let d = d2[(next() % d2.len() as u64) as usize].clone();
        let t = match next() % 6 {
            0 => Ty::List(b(d)),
            1 => Ty::Opt(b(d)),
            2 => Ty::Res(Some(b(d)), Some(b(p("f32")))),
            3 => Ty::Variant(vec![Some(p("s64")), Some(d), None]),
            4 => Ty::Tuple(vec![p("bool"), d, p("f64")]),
            _ => Ty::Record(vec![p("u16"), d]),
        };
        out.push(t);
    }
    out
}

pub fn types_for(tier: &str, seed: u64) -> Vec<Ty> {
    let mut v = leaves(tier);
    v.extend(depth1());
    v.extend(depth2());
    if tier == "thorough" {
        v.extend(depth3(seed, 120));
    }
    let mut seen = std::collections::BTreeSet::new();
    v.retain(|t| seen.insert(t.clone()));
    v
}

/// A function signature of the corpus.
#[derive(Clone, Debug)]
pub struct Sig {
    pub params: Vec<Ty>,
    pub result: Option<Ty>,
}

fn rep(t: Ty, n: usize) -> Vec<Ty> {
    (0..n).map(|_| t.clone()).collect()
}

pub fn sigs_for(tier: &str, seed: u64) -> Vec<Sig> {
    let mut v = Vec::new();
    let results: Vec<Option<Ty>> = vec![
        None,
        Some(p("u8")),
        Some(p("f64")),
        Some(p("string")),
        Some(Ty::Tuple(vec![p("u8"), p("u64")])),
        Some(Ty::Opt(b(p("u32")))),
        Some(Ty::List(b(p("string")))),
        Some(Ty::Res(Some(b(p("f32"))), Some(b(p("string"))))),
        Some(Ty::Enum(3)),
        Some(Ty::Own),
        // results on both sides of the flat limits that apply to results:
        // 1 (sync), 4 (MAX_FLAT_ASYNC_PARAMS) and 16 (task.return)
        Some(Ty::Tuple(rep(p("u32"), 4))),
        Some(Ty::Tuple(rep(p("u32"), 5))),
        Some(Ty::Tuple(vec![p("string"), p("string"), p("u64")])),
        Some(Ty::Tuple(rep(p("u16"), 16))),
        Some(Ty::Tuple(rep(p("u32"), 17))),
        Some(Ty::Record(vec![p("u8"), p("f64"), p("string"), Ty::Opt(b(p("u64")))])),
        // u16-discriminant variant through the return area / task.return
        Some({
            let mut big: Vec<Option<Ty>> = (0..300).map(|_| None).collect();
            big[1] = Some(p("u8"));
            big[299] = Some(p("string"));
            Ty::Variant(big)
        }),
    ];
    // flat counts 0, 1, 3, 4, 5, 15, 16, 17, 20 with mixed classes
    let mixes: Vec<Vec<Ty>> = vec![
        vec![],
        vec![p("u8")],
        vec![p("u8"), p("u64"), p("f32")],
        vec![p("u8"), p("u64"), p("f32"), p("s16")],
        rep(p("u32"), 4),
        vec![p("string"), p("string")],
        vec![p("u8"), p("string"), p("f64")],
        vec![p("u8"), p("string"), p("f64"), p("bool")],
        rep(p("u8"), 5),
        rep(p("u64"), 15),
        rep(p("f32"), 16),
        rep(p("u8"), 17),
        {
            let mut m = rep(p("u8"), 14);
            m.push(p("string"));
            m
        },
        {
            let mut m = rep(p("u16"), 15);
            m.push(p("string"));
            m
        },
        {
            let mut m = vec![p("u8"), p("u64"), p("u8"), p("f64"), p("string")];
            m.extend(rep(p("s16"), 11));
            m
        },
        {
            let mut m = vec![p("u8"), p("u64"), p("u8"), p("f64"), p("string")];
            m.extend(rep(p("s16"), 12));
            m
        },
        vec![Ty::Record(vec![p("u8"), p("u64"), p("string")]), Ty::Opt(b(p("string"))), p("u8")],
        vec![
            Ty::Tuple(rep(p("u32"), 8)),
            Ty::Tuple(rep(p("u32"), 8)),
        ],
        vec![
            Ty::Tuple(rep(p("u32"), 8)),
            Ty::Tuple(rep(p("u32"), 8)),
            p("u8"),
        ],
        vec![Ty::Opt(b(p("u64"))), Ty::Res(Some(b(p("f32"))), Some(b(p("string")))), Ty::Flags(33)],
        vec![Ty::Variant(vec![Some(p("f32")), Some(p("s64")), None]), Ty::Own, Ty::Borrow],
        rep(p("u8"), 20),
        vec![Ty::List(b(p("u8"))), Ty::List(b(Ty::Record(vec![p("u8"), p("string")])))],
        vec![Ty::Fixed(b(p("u32")), 3), p("f64")],
        vec![Ty::Fixed(b(p("u8")), 17)],
        vec![Ty::Map(b(p("string")), b(p("u32")))],
        // a u16-discriminant variant inside an indirect parameter record
        {
            let mut big: Vec<Option<Ty>> = (0..300).map(|_| None).collect();
            big[0] = Some(p("u8"));
            big[299] = Some(p("u64"));
            let mut m = vec![p("u8"), Ty::Variant(big)];
            m.extend(rep(p("u32"), 15));
            m
        },
    ];
    for (i, m) in mixes.iter().enumerate() {
        // each parameter mix with a rotating pair of results
        for k in 0..(if tier == "thorough" { results.len() } else { 3 }) {
            let r = results[(i * 3 + k + seed as usize) % results.len()].clone();
            v.push(Sig { params: m.clone(), result: r });
        }
    }
    // each result with a small fixed parameter list
    for r in &results {
        v.push(Sig { params: vec![p("u32")], result: r.clone() });
    }
    v
}

/// Builds one WIT document holding every type and signature, parses it with
/// the real `wit-parser`, and returns the functions.
pub struct Built {
    pub resolve: Resolve,
    /// one function `t<k>(x: T) -> T` per corpus type
    pub type_funcs: Vec<(Ty, String, Function)>,
    pub sig_funcs: Vec<(Sig, String, Function)>,
}

pub fn build(types: &[Ty], sigs: &[Sig]) -> anyhow::Result<Built> {
    let mut defs = Defs::default();
    let mut funcs = Vec::new();
    let mut tnames = Vec::new();
    for (k, t) in types.iter().enumerate() {
        let e = defs.expr(t);
        if t.has_borrow() {
            funcs.push(format!("  t{k}: func(x: {e});"));
        } else {
            funcs.push(format!("  t{k}: func(x: {e}) -> {e};"));
        }
        tnames.push((t.clone(), e));
    }
    let mut snames = Vec::new();
    for (k, s) in sigs.iter().enumerate() {
        let ps: Vec<String> = s
            .params
            .iter()
            .enumerate()
            .map(|(i, t)| format!("p{i}: {}", defs.expr(t)))
            .collect();
        let r = match &s.result {
            Some(t) => format!(" -> {}", defs.expr(t)),
            None => String::new(),
        };
        funcs.push(format!("  sg{k}: func({}){r};", ps.join(", ")));
        snames.push(format!("func({}){r}", ps.join(", ")));
    }
    let mut wit = String::from("package verif:abisym;\n\ninterface i {\n  resource res;\n");
    for d in &defs.text {
        wit.push_str("  ");
        wit.push_str(d);
        wit.push('\n');
    }
    for f in &funcs {
        wit.push_str(f);
        wit.push('\n');
    }
    wit.push_str("}\n\nworld w {\n  import i;\n}\n");
    let mut resolve = Resolve::default();
    let pkg = resolve
        .push_str("corpus.wit", &wit)
        .map_err(|e| anyhow::anyhow!("wit-parser rejected the corpus: {e:#}\n"))?;
    let world = resolve.select_world(&[pkg], None)?;
    let mut iface = None;
    for (key, item) in &resolve.worlds[world].imports {
        if let (WorldKey::Interface(_), WorldItem::Interface { id, .. }) = (key, item) {
            iface = Some(*id);
        }
    }
    let iface = iface.ok_or_else(|| anyhow::anyhow!("interface not found"))?;
    let fs = resolve.interfaces[iface].functions.clone();
    let mut type_funcs = Vec::new();
    for (k, (t, e)) in tnames.into_iter().enumerate() {
        let f = fs.get(&format!("t{k}")).unwrap().clone();
        type_funcs.push((t, e, f));
    }
    let mut sig_funcs = Vec::new();
    for (k, s) in sigs.iter().enumerate() {
        let f = fs.get(&format!("sg{k}")).unwrap().clone();
        sig_funcs.push((s.clone(), snames[k].clone(), f));
    }
    Ok(Built { resolve, type_funcs, sig_funcs })
}

pub fn param_type(f: &Function) -> Type {
    f.params[0].ty
}
