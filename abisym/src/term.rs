//! Hash-consed SMT term DAG (bit-vectors, booleans, byte-addressed memory
//! arrays) with constant folding, an SMT-LIB2 printer and an independent
//! evaluator under a model (used to replay solver counterexamples).

use std::collections::{BTreeMap, HashMap};
use std::fmt::Write;

pub type T = u32;

#[derive(Clone, Copy, PartialEq, Eq, Hash, Debug)]
pub enum Sort {
    Bool,
    BV(u32),
    /// Array (_ BitVec aw) (_ BitVec 8)
    Mem(u32),
}

#[derive(Clone, PartialEq, Eq, Hash, Debug)]
pub enum K {
    BvConst(u128, u32),
    BoolConst(bool),
    Var(String, Sort),
    Not(T),
    And(Vec<T>),
    Or(Vec<T>),
    Eq(T, T),
    Ite(T, T, T),
    Ult(T, T),
    Ule(T, T),
    Add(T, T),
    Sub(T, T),
    Mul(T, T),
    BvAnd(T, T),
    BvOr(T, T),
    Extract(u32, u32, T),
    Concat(T, T),
    ZExt(u32, T),
    SExt(u32, T),
    Select(T, T),
    Store(T, T, T),
}

pub struct Node {
    pub k: K,
    pub sort: Sort,
}

#[derive(Default)]
pub struct TB {
    pub nodes: Vec<Node>,
    cons: HashMap<K, T>,
    fresh: u32,
}

fn mask(w: u32) -> u128 {
    if w >= 128 {
        u128::MAX
    } else {
        (1u128 << w) - 1
    }
}

impl TB {
    pub fn new() -> TB {
        TB::default()
    }

    fn mk(&mut self, k: K, sort: Sort) -> T {
        if let Some(t) = self.cons.get(&k) {
            return *t;
        }
        let id = self.nodes.len() as T;
        self.nodes.push(Node { k: k.clone(), sort });
        self.cons.insert(k, id);
        id
    }

    pub fn sort(&self, t: T) -> Sort {
        self.nodes[t as usize].sort
    }
    pub fn width(&self, t: T) -> u32 {
        match self.sort(t) {
            Sort::BV(w) => w,
            s => panic!("width of non-bv term {:?}", s),
        }
    }
    pub fn k(&self, t: T) -> &K {
        &self.nodes[t as usize].k
    }
    pub fn as_const(&self, t: T) -> Option<u128> {
        match self.k(t) {
            K::BvConst(v, _) => Some(*v),
            _ => None,
        }
    }
    pub fn as_bool(&self, t: T) -> Option<bool> {
        match self.k(t) {
            K::BoolConst(b) => Some(*b),
            _ => None,
        }
    }

    pub fn bv(&mut self, v: u128, w: u32) -> T {
        assert!(w >= 1 && w <= 128);
        self.mk(K::BvConst(v & mask(w), w), Sort::BV(w))
    }
    pub fn tt(&mut self) -> T {
        self.mk(K::BoolConst(true), Sort::Bool)
    }
    pub fn ff(&mut self) -> T {
        self.mk(K::BoolConst(false), Sort::Bool)
    }
    pub fn boolc(&mut self, b: bool) -> T {
        self.mk(K::BoolConst(b), Sort::Bool)
    }
    pub fn var(&mut self, name: &str, sort: Sort) -> T {
        self.mk(K::Var(name.to_string(), sort), sort)
    }
    pub fn fresh(&mut self, prefix: &str, sort: Sort) -> T {
        self.fresh += 1;
        let n = format!("{}!{}", prefix, self.fresh);
        self.var(&n, sort)
    }

    pub fn not(&mut self, a: T) -> T {
        assert_eq!(self.sort(a), Sort::Bool);
        match self.k(a) {
            K::BoolConst(b) => {
                let b = !*b;
                self.boolc(b)
            }
            K::Not(x) => *x,
            _ => self.mk(K::Not(a), Sort::Bool),
        }
    }
    pub fn and(&mut self, xs: &[T]) -> T {
        let mut v = Vec::new();
        for &x in xs {
            assert_eq!(self.sort(x), Sort::Bool);
            match self.k(x) {
                K::BoolConst(true) => {}
                K::BoolConst(false) => return self.ff(),
                K::And(ys) => {
                    for y in ys.clone() {
                        if !v.contains(&y) {
                            v.push(y)
                        }
                    }
                }
                _ => {
                    if !v.contains(&x) {
                        v.push(x)
                    }
                }
            }
        }
        // x = c1 and x = c2 with distinct constants; a and (not a)
        let mut eqs: Vec<(T, u128)> = Vec::new();
        for &x in &v {
            if let K::Eq(a, b) = self.k(x) {
                let (var, c) = match (self.as_const(*a), self.as_const(*b)) {
                    (Some(c), None) => (*b, c),
                    (None, Some(c)) => (*a, c),
                    _ => continue,
                };
                if eqs.iter().any(|(v2, c2)| *v2 == var && *c2 != c) {
                    return self.ff();
                }
                eqs.push((var, c));
            }
        }
        for &x in &v {
            if let K::Not(y) = self.k(x) {
                if v.contains(y) {
                    return self.ff();
                }
            }
        }
        match v.len() {
            0 => self.tt(),
            1 => v[0],
            _ => self.mk(K::And(v), Sort::Bool),
        }
    }
    pub fn and2(&mut self, a: T, b: T) -> T {
        self.and(&[a, b])
    }
    pub fn or(&mut self, xs: &[T]) -> T {
        let mut v = Vec::new();
        for &x in xs {
            assert_eq!(self.sort(x), Sort::Bool);
            match self.k(x) {
                K::BoolConst(false) => {}
                K::BoolConst(true) => return self.tt(),
                _ => {
                    if !v.contains(&x) {
                        v.push(x)
                    }
                }
            }
        }
        match v.len() {
            0 => self.ff(),
            1 => v[0],
            _ => self.mk(K::Or(v), Sort::Bool),
        }
    }
    pub fn implies(&mut self, a: T, b: T) -> T {
        let na = self.not(a);
        self.or(&[na, b])
    }
    pub fn eq(&mut self, a: T, b: T) -> T {
        assert_eq!(self.sort(a), self.sort(b), "eq sort mismatch");
        if a == b {
            return self.tt();
        }
        match (self.k(a), self.k(b)) {
            (K::BvConst(x, _), K::BvConst(y, _)) => {
                let r = x == y;
                self.boolc(r)
            }
            (K::BoolConst(x), K::BoolConst(y)) => {
                let r = x == y;
                self.boolc(r)
            }
            _ => {
                let (a, b) = if a < b { (a, b) } else { (b, a) };
                self.mk(K::Eq(a, b), Sort::Bool)
            }
        }
    }
    pub fn ite(&mut self, c: T, a: T, b: T) -> T {
        assert_eq!(self.sort(c), Sort::Bool);
        assert_eq!(self.sort(a), self.sort(b), "ite sort mismatch");
        if a == b {
            return a;
        }
        match self.k(c) {
            K::BoolConst(true) => a,
            K::BoolConst(false) => b,
            _ => {
                if self.sort(a) == Sort::Bool {
                    // keep booleans in and/or form
                    let x = self.and2(c, a);
                    let nc = self.not(c);
                    let y = self.and2(nc, b);
                    return self.or(&[x, y]);
                }
                let s = self.sort(a);
                self.mk(K::Ite(c, a, b), s)
            }
        }
    }
    fn bin_same(&self, a: T, b: T) -> u32 {
        let w = self.width(a);
        assert_eq!(w, self.width(b), "bv width mismatch");
        w
    }
    pub fn ult(&mut self, a: T, b: T) -> T {
        self.bin_same(a, b);
        match (self.as_const(a), self.as_const(b)) {
            (Some(x), Some(y)) => self.boolc(x < y),
            (_, Some(0)) => self.ff(),
            _ => self.mk(K::Ult(a, b), Sort::Bool),
        }
    }
    pub fn ule(&mut self, a: T, b: T) -> T {
        self.bin_same(a, b);
        match (self.as_const(a), self.as_const(b)) {
            (Some(x), Some(y)) => self.boolc(x <= y),
            (Some(0), _) => self.tt(),
            _ => self.mk(K::Ule(a, b), Sort::Bool),
        }
    }
    pub fn add(&mut self, a: T, b: T) -> T {
        let w = self.bin_same(a, b);
        match (self.as_const(a), self.as_const(b)) {
            (Some(x), Some(y)) => self.bv(x.wrapping_add(y), w),
            (Some(0), _) => b,
            (_, Some(0)) => a,
            _ => {
                // (x + c1) + c2 => x + (c1+c2)
                if let (K::Add(x, c1), Some(c2)) = (self.k(a).clone(), self.as_const(b)) {
                    if let Some(c1v) = self.as_const(c1) {
                        let c = self.bv(c1v.wrapping_add(c2), w);
                        return self.add(x, c);
                    }
                }
                self.mk(K::Add(a, b), Sort::BV(w))
            }
        }
    }
    pub fn sub(&mut self, a: T, b: T) -> T {
        let w = self.bin_same(a, b);
        match (self.as_const(a), self.as_const(b)) {
            (Some(x), Some(y)) => self.bv(x.wrapping_sub(y), w),
            (_, Some(0)) => a,
            _ => self.mk(K::Sub(a, b), Sort::BV(w)),
        }
    }
    pub fn mul(&mut self, a: T, b: T) -> T {
        let w = self.bin_same(a, b);
        match (self.as_const(a), self.as_const(b)) {
            (Some(x), Some(y)) => self.bv(x.wrapping_mul(y), w),
            (Some(1), _) => b,
            (_, Some(1)) => a,
            (Some(0), _) | (_, Some(0)) => self.bv(0, w),
            _ => self.mk(K::Mul(a, b), Sort::BV(w)),
        }
    }
    pub fn bvand(&mut self, a: T, b: T) -> T {
        let w = self.bin_same(a, b);
        match (self.as_const(a), self.as_const(b)) {
            (Some(x), Some(y)) => self.bv(x & y, w),
            _ => self.mk(K::BvAnd(a, b), Sort::BV(w)),
        }
    }
    pub fn bvor(&mut self, a: T, b: T) -> T {
        let w = self.bin_same(a, b);
        match (self.as_const(a), self.as_const(b)) {
            (Some(x), Some(y)) => self.bv(x | y, w),
            _ => self.mk(K::BvOr(a, b), Sort::BV(w)),
        }
    }
    pub fn extract(&mut self, hi: u32, lo: u32, a: T) -> T {
        let w = self.width(a);
        assert!(hi < w && lo <= hi, "extract [{hi}:{lo}] of width {w}");
        if lo == 0 && hi == w - 1 {
            return a;
        }
        let nw = hi - lo + 1;
        match self.k(a).clone() {
            K::BvConst(v, _) => self.bv(v >> lo, nw),
            K::ZExt(_, x) if hi < self.width(x) => self.extract(hi, lo, x),
            K::ZExt(_, x) if lo >= self.width(x) => self.bv(0, nw),
            K::SExt(_, x) if hi < self.width(x) => self.extract(hi, lo, x),
            K::Concat(h, l) => {
                let lw = self.width(l);
                if hi < lw {
                    self.extract(hi, lo, l)
                } else if lo >= lw {
                    self.extract(hi - lw, lo - lw, h)
                } else {
                    self.mk(K::Extract(hi, lo, a), Sort::BV(nw))
                }
            }
            K::Extract(_, lo2, x) => self.extract(hi + lo2, lo + lo2, x),
            // distribute over ite so that pointers stay recognisable
            K::Ite(c, x, y) => {
                let ex = self.extract(hi, lo, x);
                let ey = self.extract(hi, lo, y);
                self.ite(c, ex, ey)
            }
            _ => self.mk(K::Extract(hi, lo, a), Sort::BV(nw)),
        }
    }
    pub fn concat(&mut self, hi: T, lo: T) -> T {
        let (wh, wl) = (self.width(hi), self.width(lo));
        match (self.k(hi).clone(), self.k(lo).clone()) {
            (K::BvConst(x, _), K::BvConst(y, _)) => self.bv((x << wl) | y, wh + wl),
            // concat(extract(h, m+1, x), extract(m, l, x)) => extract(h, l, x)
            (K::Extract(h1, l1, x), K::Extract(h2, l2, y)) if x == y && l1 == h2 + 1 => {
                self.extract(h1, l2, x)
            }
            _ => self.mk(K::Concat(hi, lo), Sort::BV(wh + wl)),
        }
    }
    /// zero-extend *to* width `to`
    pub fn zext_to(&mut self, a: T, to: u32) -> T {
        let w = self.width(a);
        assert!(to >= w);
        if to == w {
            return a;
        }
        match self.k(a).clone() {
            K::BvConst(v, _) => self.bv(v, to),
            _ => self.mk(K::ZExt(to - w, a), Sort::BV(to)),
        }
    }
    pub fn sext_to(&mut self, a: T, to: u32) -> T {
        let w = self.width(a);
        assert!(to >= w);
        if to == w {
            return a;
        }
        match self.k(a).clone() {
            K::BvConst(v, _) => {
                let sign = (v >> (w - 1)) & 1;
                let ext = if sign == 1 { mask(to) & !mask(w) } else { 0 };
                self.bv(v | ext, to)
            }
            _ => self.mk(K::SExt(to - w, a), Sort::BV(to)),
        }
    }
    fn conjuncts(&self, t: T) -> Vec<T> {
        match self.k(t) {
            K::And(v) => v.clone(),
            K::BoolConst(true) => vec![],
            _ => vec![t],
        }
    }
    /// syntactic: does `guard` imply `c`?
    pub fn implies_syn(&mut self, guard: T, c: T) -> bool {
        if self.as_bool(c) == Some(true) || self.as_bool(guard) == Some(false) {
            return true;
        }
        let g = self.conjuncts(guard);
        self.conjuncts(c).iter().all(|x| g.contains(x))
    }
    /// Simplify `t` under the path condition `guard` (resolves `ite`s whose
    /// condition the guard decides syntactically).
    pub fn simplify_under(&mut self, t: T, guard: T) -> T {
        if let K::Ite(c, x, y) = self.k(t).clone() {
            if self.implies_syn(guard, c) {
                return self.simplify_under(x, guard);
            }
            let both = self.and2(guard, c);
            if self.as_bool(both) == Some(false) {
                return self.simplify_under(y, guard);
            }
        }
        t
    }
    /// resize by zero-extension or truncation
    pub fn resize(&mut self, a: T, to: u32) -> T {
        let w = self.width(a);
        if to >= w {
            self.zext_to(a, to)
        } else {
            self.extract(to - 1, 0, a)
        }
    }
    pub fn select(&mut self, m: T, a: T) -> T {
        match self.sort(m) {
            Sort::Mem(aw) => assert_eq!(self.width(a), aw),
            _ => panic!("select on non-mem"),
        }
        // read-over-write with syntactically decidable addresses
        let mut cur = m;
        loop {
            match self.k(cur).clone() {
                K::Store(m2, a2, v2) => {
                    if a2 == a {
                        return v2;
                    }
                    let e = self.eq(a2, a);
                    match self.as_bool(e) {
                        Some(true) => return v2,
                        Some(false) => cur = m2,
                        None => break,
                    }
                }
                _ => break,
            }
        }
        self.mk(K::Select(cur, a), Sort::BV(8))
    }
    pub fn store(&mut self, m: T, a: T, v: T) -> T {
        let s = self.sort(m);
        assert_eq!(self.width(v), 8);
        self.mk(K::Store(m, a, v), s)
    }

    // ---- little-endian multi-byte helpers ----
    pub fn load_le(&mut self, m: T, addr: T, bytes: u32) -> T {
        let aw = self.width(addr);
        let mut acc: Option<T> = None;
        for i in 0..bytes {
            let off = self.bv(i as u128, aw);
            let a = self.add(addr, off);
            let b = self.select(m, a);
            acc = Some(match acc {
                None => b,
                Some(lo) => self.concat(b, lo),
            });
        }
        acc.unwrap()
    }
    /// store under guard: bytes keep their old value when guard is false
    pub fn store_le(&mut self, m: T, addr: T, val: T, guard: T) -> T {
        let aw = self.width(addr);
        let w = self.width(val);
        assert!(w % 8 == 0);
        let mut cur = m;
        for i in 0..(w / 8) {
            let off = self.bv(i as u128, aw);
            let a = self.add(addr, off);
            let byte = self.extract(i * 8 + 7, i * 8, val);
            let v = if self.as_bool(guard) == Some(true) {
                byte
            } else {
                let old = self.select(cur, a);
                self.ite(guard, byte, old)
            };
            cur = self.store(cur, a, v);
        }
        cur
    }

    // ---- printing ----
    fn sort_str(s: Sort) -> String {
        match s {
            Sort::Bool => "Bool".into(),
            Sort::BV(w) => format!("(_ BitVec {w})"),
            Sort::Mem(aw) => format!("(Array (_ BitVec {aw}) (_ BitVec 8))"),
        }
    }
    fn name(&self, t: T) -> String {
        match self.k(t) {
            K::BvConst(v, w) => {
                if w % 4 == 0 {
                    format!("#x{:0width$x}", v, width = (*w / 4) as usize)
                } else {
                    format!("#b{:0width$b}", v, width = *w as usize)
                }
            }
            K::BoolConst(b) => b.to_string(),
            K::Var(n, _) => format!("|{n}|"),
            _ => format!("t{t}"),
        }
    }
    fn body(&self, t: T) -> String {
        let n = |x: &T| self.name(*x);
        match self.k(t) {
            K::BvConst(..) | K::BoolConst(..) | K::Var(..) => self.name(t),
            K::Not(a) => format!("(not {})", n(a)),
            K::And(v) => format!("(and {})", v.iter().map(n).collect::<Vec<_>>().join(" ")),
            K::Or(v) => format!("(or {})", v.iter().map(n).collect::<Vec<_>>().join(" ")),
            K::Eq(a, b) => format!("(= {} {})", n(a), n(b)),
            K::Ite(c, a, b) => format!("(ite {} {} {})", n(c), n(a), n(b)),
            K::Ult(a, b) => format!("(bvult {} {})", n(a), n(b)),
            K::Ule(a, b) => format!("(bvule {} {})", n(a), n(b)),
            K::Add(a, b) => format!("(bvadd {} {})", n(a), n(b)),
            K::Sub(a, b) => format!("(bvsub {} {})", n(a), n(b)),
            K::Mul(a, b) => format!("(bvmul {} {})", n(a), n(b)),
            K::BvAnd(a, b) => format!("(bvand {} {})", n(a), n(b)),
            K::BvOr(a, b) => format!("(bvor {} {})", n(a), n(b)),
            K::Extract(h, l, a) => format!("((_ extract {h} {l}) {})", n(a)),
            K::Concat(a, b) => format!("(concat {} {})", n(a), n(b)),
            K::ZExt(k, a) => format!("((_ zero_extend {k}) {})", n(a)),
            K::SExt(k, a) => format!("((_ sign_extend {k}) {})", n(a)),
            K::Select(m, a) => format!("(select {} {})", n(m), n(a)),
            K::Store(m, a, v) => format!("(store {} {} {})", n(m), n(a), n(v)),
        }
    }
    pub fn children(&self, t: T) -> Vec<T> {
        match self.k(t) {
            K::BvConst(..) | K::BoolConst(..) | K::Var(..) => vec![],
            K::Not(a) | K::Extract(_, _, a) | K::ZExt(_, a) | K::SExt(_, a) => vec![*a],
            K::And(v) | K::Or(v) => v.clone(),
            K::Eq(a, b)
            | K::Ult(a, b)
            | K::Ule(a, b)
            | K::Add(a, b)
            | K::Sub(a, b)
            | K::Mul(a, b)
            | K::BvAnd(a, b)
            | K::BvOr(a, b)
            | K::Concat(a, b)
            | K::Select(a, b) => vec![*a, *b],
            K::Ite(a, b, c) | K::Store(a, b, c) => vec![*a, *b, *c],
        }
    }
    /// All nodes reachable from `roots`, in topological (id) order.
    pub fn reachable(&self, roots: &[T]) -> Vec<T> {
        let mut seen = vec![false; self.nodes.len()];
        let mut stack: Vec<T> = roots.to_vec();
        while let Some(t) = stack.pop() {
            if seen[t as usize] {
                continue;
            }
            seen[t as usize] = true;
            stack.extend(self.children(t));
        }
        (0..self.nodes.len() as T).filter(|t| seen[*t as usize]).collect()
    }
    /// Declarations + define-funs for everything reachable from roots.
    /// Returns (script text, free variables, select nodes).
    pub fn print_defs(&self, roots: &[T]) -> (String, Vec<T>, Vec<T>) {
        let mut s = String::new();
        let mut vars = Vec::new();
        let mut selects = Vec::new();
        for t in self.reachable(roots) {
            match self.k(t) {
                K::BvConst(..) | K::BoolConst(..) => {}
                K::Var(n, sort) => {
                    writeln!(s, "(declare-const |{n}| {})", Self::sort_str(*sort)).unwrap();
                    vars.push(t);
                }
                _ => {
                    if let K::Select(..) = self.k(t) {
                        selects.push(t);
                    }
                    writeln!(
                        s,
                        "(define-fun t{t} () {} {})",
                        Self::sort_str(self.sort(t)),
                        self.body(t)
                    )
                    .unwrap();
                }
            }
        }
        (s, vars, selects)
    }
    pub fn ref_name(&self, t: T) -> String {
        self.name(t)
    }
    /// Underlying base array variable of a memory term.
    pub fn mem_base(&self, mut m: T) -> T {
        loop {
            match self.k(m) {
                K::Store(m2, _, _) => m = *m2,
                K::Ite(_, a, _) => m = *a,
                _ => return m,
            }
        }
    }
}

/// A model: values of scalar variables and of base-memory bytes.
#[derive(Default, Debug, Clone)]
pub struct Model {
    pub vars: HashMap<String, u128>,
    /// (memory variable name, address) -> byte
    pub mem: HashMap<(String, u128), u8>,
    /// addresses asked for but missing from `mem` (evaluated as 0); reported
    pub missing: std::cell::RefCell<Vec<(String, u128)>>,
}

#[derive(Clone, Debug)]
pub enum V {
    B(bool),
    BV(u128),
    Mem(String, BTreeMap<u128, u8>),
}

impl TB {
    /// Evaluate a term under a model, independently of the solver.
    pub fn eval(&self, t: T, m: &Model, cache: &mut HashMap<T, V>) -> V {
        if let Some(v) = cache.get(&t) {
            return v.clone();
        }
        let bvv = |s: &Self, x: T, c: &mut HashMap<T, V>| match s.eval(x, m, c) {
            V::BV(v) => v,
            o => panic!("expected bv got {:?}", o),
        };
        let bb = |s: &Self, x: T, c: &mut HashMap<T, V>| match s.eval(x, m, c) {
            V::B(v) => v,
            o => panic!("expected bool got {:?}", o),
        };
        let r = match self.k(t).clone() {
            K::BvConst(v, _) => V::BV(v),
            K::BoolConst(b) => V::B(b),
            K::Var(n, sort) => match sort {
                Sort::Bool => V::B(m.vars.get(&n).copied().unwrap_or(0) != 0),
                Sort::BV(w) => V::BV(m.vars.get(&n).copied().unwrap_or(0) & mask(w)),
                Sort::Mem(_) => V::Mem(n, BTreeMap::new()),
            },
            K::Not(a) => V::B(!bb(self, a, cache)),
            K::And(v) => V::B(v.iter().all(|x| bb(self, *x, cache))),
            K::Or(v) => V::B(v.iter().any(|x| bb(self, *x, cache))),
            K::Eq(a, b) => match (self.eval(a, m, cache), self.eval(b, m, cache)) {
                (V::B(x), V::B(y)) => V::B(x == y),
                (V::BV(x), V::BV(y)) => V::B(x == y),
                _ => panic!("eq on memories is not evaluated"),
            },
            K::Ite(c, a, b) => {
                if bb(self, c, cache) {
                    self.eval(a, m, cache)
                } else {
                    self.eval(b, m, cache)
                }
            }
            K::Ult(a, b) => V::B(bvv(self, a, cache) < bvv(self, b, cache)),
            K::Ule(a, b) => V::B(bvv(self, a, cache) <= bvv(self, b, cache)),
            K::Add(a, b) => V::BV(bvv(self, a, cache).wrapping_add(bvv(self, b, cache)) & mask(self.width(t))),
            K::Sub(a, b) => V::BV(bvv(self, a, cache).wrapping_sub(bvv(self, b, cache)) & mask(self.width(t))),
            K::Mul(a, b) => V::BV(bvv(self, a, cache).wrapping_mul(bvv(self, b, cache)) & mask(self.width(t))),
            K::BvAnd(a, b) => V::BV(bvv(self, a, cache) & bvv(self, b, cache)),
            K::BvOr(a, b) => V::BV(bvv(self, a, cache) | bvv(self, b, cache)),
            K::Extract(h, l, a) => V::BV((bvv(self, a, cache) >> l) & mask(h - l + 1)),
            K::Concat(a, b) => {
                let wl = self.width(b);
                V::BV((bvv(self, a, cache) << wl) | bvv(self, b, cache))
            }
            K::ZExt(_, a) => V::BV(bvv(self, a, cache)),
            K::SExt(_, a) => {
                let w = self.width(a);
                let v = bvv(self, a, cache);
                let to = self.width(t);
                let sign = (v >> (w - 1)) & 1;
                V::BV(if sign == 1 { v | (mask(to) & !mask(w)) } else { v })
            }
            K::Select(mem, a) => {
                let addr = bvv(self, a, cache);
                match self.eval(mem, m, cache) {
                    V::Mem(base, over) => {
                        if let Some(b) = over.get(&addr) {
                            V::BV(*b as u128)
                        } else if let Some(b) = m.mem.get(&(base.clone(), addr)) {
                            V::BV(*b as u128)
                        } else {
                            m.missing.borrow_mut().push((base, addr));
                            V::BV(0)
                        }
                    }
                    _ => panic!("select on non-mem"),
                }
            }
            K::Store(mem, a, v) => {
                let addr = bvv(self, a, cache);
                let val = bvv(self, v, cache) as u8;
                match self.eval(mem, m, cache) {
                    V::Mem(base, mut over) => {
                        over.insert(addr, val);
                        V::Mem(base, over)
                    }
                    _ => panic!("store on non-mem"),
                }
            }
        };
        cache.insert(t, r.clone());
        r
    }
    pub fn eval_bv(&self, t: T, m: &Model) -> u128 {
        match self.eval(t, m, &mut HashMap::new()) {
            V::BV(v) => v,
            V::B(b) => b as u128,
            _ => panic!("eval_bv on mem"),
        }
    }
    pub fn eval_bool(&self, t: T, m: &Model) -> bool {
        match self.eval(t, m, &mut HashMap::new()) {
            V::B(b) => b,
            _ => panic!("eval_bool"),
        }
    }
}
