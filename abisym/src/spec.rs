//! Reference model of the Component Model canonical ABI, written from the
//! specification's definitions (CanonicalABI.md: alignment, elem_size,
//! discriminant_type, flatten_type + join, store/load, lower_flat/lift_flat and
//! the flat coercion table).  It deliberately uses none of
//! `wit_parser::SizeAlign`, `Resolve::push_flat`, `wasm_signature` or
//! `abi::cast`; `Resolve` is consulted only for the *shape* of a type.
//!
//! Pointer width P = 4 is the specified ABI; P = 8 is the "memory64" variant
//! (pointers and lengths are 8-byte, 8-aligned and flatten to i64).

use crate::rmem::RMem;
use crate::term::{Sort, T, TB};
use wit_bindgen_core::wit_parser::{Handle, Resolve, Type, TypeDefKind};

#[derive(Clone, Copy, PartialEq, Eq, Debug, Hash)]
pub enum Core {
    I32,
    I64,
    F32,
    F64,
}
impl Core {
    pub fn bits(self) -> u32 {
        match self {
            Core::I32 | Core::F32 => 32,
            Core::I64 | Core::F64 => 64,
        }
    }
}

pub fn join(a: Core, b: Core) -> Core {
    if a == b {
        return a;
    }
    match (a, b) {
        (Core::I32, Core::F32) | (Core::F32, Core::I32) => Core::I32,
        _ => Core::I64,
    }
}

/// Interface values (symbolic).
#[derive(Clone, Debug)]
pub enum Val {
    /// bool = BV1, uN/sN = BVN, char = BV32, f32/f64 = bit patterns, handles
    /// = BV32, enum = BV32 case index, flags = BV(n) for n >= 1; core wasm
    /// values are BV32 / BV64.
    BV(T),
    /// record / tuple / fixed-length list / flags with zero members
    Agg(Vec<Val>),
    Var { disc: T, cases: Vec<Option<Val>> },
    /// list / string (elements are BV8) / map (elements are Agg[k, v])
    List { len: T, elems: Vec<Val> },
}

/// Despecialized shape of a type.
#[derive(Clone, Debug)]
pub enum Shape {
    Bool,
    Int { bits: u32, signed: bool },
    F32,
    F64,
    Char,
    /// list<elem>; string is List(U8) with `is_string`
    List { elem: Type, is_string: bool },
    Map { key: Type, value: Type },
    Fixed { elem: Type, n: u32 },
    Record(Vec<Type>),
    Variant(Vec<Option<Type>>),
    Enum(usize),
    Flags(usize),
    /// own / borrow / future / stream / error-context
    Handle { owned: bool, what: &'static str },
}

pub struct Spec<'a> {
    pub resolve: &'a Resolve,
    /// pointer size in bytes: 4 or 8
    pub p: u32,
    /// bound on list / string / map lengths
    pub l: usize,
    /// oracle self-test: 0 = the reference; 1..=3 = a deliberately WRONG
    /// reference (the check must then report violations, else it is blind)
    pub mutate: u32,
}

pub type Obl = (String, T);

impl<'a> Spec<'a> {
    pub fn pw(&self) -> u32 {
        self.p * 8
    }
    pub fn ptr_core(&self) -> Core {
        if self.p == 4 {
            Core::I32
        } else {
            Core::I64
        }
    }

    pub fn shape(&self, ty: &Type) -> Shape {
        match ty {
            Type::Bool => Shape::Bool,
            Type::U8 => Shape::Int { bits: 8, signed: false },
            Type::S8 => Shape::Int { bits: 8, signed: true },
            Type::U16 => Shape::Int { bits: 16, signed: false },
            Type::S16 => Shape::Int { bits: 16, signed: true },
            Type::U32 => Shape::Int { bits: 32, signed: false },
            Type::S32 => Shape::Int { bits: 32, signed: true },
            Type::U64 => Shape::Int { bits: 64, signed: false },
            Type::S64 => Shape::Int { bits: 64, signed: true },
            Type::F32 => Shape::F32,
            Type::F64 => Shape::F64,
            Type::Char => Shape::Char,
            Type::String => Shape::List { elem: Type::U8, is_string: true },
            Type::ErrorContext => Shape::Handle { owned: true, what: "error-context" },
            Type::Id(id) => match &self.resolve.types[*id].kind {
                TypeDefKind::Type(t) => self.shape(t),
                TypeDefKind::List(t) => Shape::List { elem: *t, is_string: false },
                TypeDefKind::Map(k, v) => Shape::Map { key: *k, value: *v },
                TypeDefKind::FixedLengthList(t, n) => Shape::Fixed { elem: *t, n: *n },
                TypeDefKind::Record(r) => Shape::Record(r.fields.iter().map(|f| f.ty).collect()),
                TypeDefKind::Tuple(t) => Shape::Record(t.types.clone()),
                TypeDefKind::Variant(v) => Shape::Variant(v.cases.iter().map(|c| c.ty).collect()),
                TypeDefKind::Option(t) => Shape::Variant(vec![None, Some(*t)]),
                TypeDefKind::Result(r) => Shape::Variant(vec![r.ok, r.err]),
                TypeDefKind::Enum(e) => Shape::Enum(e.cases.len()),
                TypeDefKind::Flags(f) => Shape::Flags(f.flags.len()),
                TypeDefKind::Handle(Handle::Own(_)) => Shape::Handle { owned: true, what: "own" },
                TypeDefKind::Handle(Handle::Borrow(_)) => Shape::Handle { owned: false, what: "borrow" },
                TypeDefKind::Future(_) => Shape::Handle { owned: true, what: "future" },
                TypeDefKind::Stream(_) => Shape::Handle { owned: true, what: "stream" },
                TypeDefKind::Resource => panic!("resource is not a value type"),
                TypeDefKind::Unknown => panic!("unknown type"),
            },
        }
    }

    // ---- layout: alignment / elem_size / discriminant_type ----

    pub fn disc_bytes(ncases: usize) -> u32 {
        assert!(ncases >= 1);
        let n = ncases as u64;
        if n <= 1 << 8 {
            1
        } else if n <= 1 << 16 {
            2
        } else {
            4
        }
    }

    pub fn align(&self, ty: &Type) -> u32 {
        match self.shape(ty) {
            Shape::Bool => 1,
            Shape::Int { bits, .. } => {
                if self.mutate == 1 && bits == 64 {
                    4
                } else {
                    bits / 8
                }
            }
            Shape::F32 | Shape::Char => 4,
            Shape::F64 => 8,
            Shape::List { .. } | Shape::Map { .. } => self.p,
            Shape::Fixed { elem, .. } => self.align(&elem),
            Shape::Record(fs) => fs.iter().map(|f| self.align(f)).max().unwrap_or(1),
            Shape::Variant(cases) => {
                let d = Self::disc_bytes(cases.len());
                d.max(self.max_case_align(&cases))
            }
            Shape::Enum(n) => Self::disc_bytes(n),
            Shape::Flags(n) => Self::flags_size(n).1,
            Shape::Handle { .. } => 4,
        }
    }
    fn max_case_align(&self, cases: &[Option<Type>]) -> u32 {
        cases.iter().flatten().map(|t| self.align(t)).max().unwrap_or(1)
    }
    /// (size, align) of flags with n members
    pub fn flags_size(n: usize) -> (u32, u32) {
        if n == 0 {
            (0, 1)
        } else if n <= 8 {
            (1, 1)
        } else if n <= 16 {
            (2, 2)
        } else {
            (4 * ((n as u32 + 31) / 32), 4)
        }
    }
    pub fn align_to(x: u32, a: u32) -> u32 {
        (x + a - 1) / a * a
    }
    pub fn size(&self, ty: &Type) -> u32 {
        match self.shape(ty) {
            Shape::Bool => 1,
            Shape::Int { bits, .. } => bits / 8,
            Shape::F32 | Shape::Char => 4,
            Shape::F64 => 8,
            Shape::List { .. } | Shape::Map { .. } => 2 * self.p,
            Shape::Fixed { elem, n } => n * self.size(&elem),
            Shape::Record(fs) => self.record_layout(&fs).1,
            Shape::Variant(cases) => {
                let off = self.payload_offset(&cases);
                let max = cases.iter().flatten().map(|t| self.size(t)).max().unwrap_or(0);
                Self::align_to(off + max, self.align(ty))
            }
            Shape::Enum(n) => Self::disc_bytes(n),
            Shape::Flags(n) => Self::flags_size(n).0,
            Shape::Handle { .. } => 4,
        }
    }
    pub fn payload_offset(&self, cases: &[Option<Type>]) -> u32 {
        Self::align_to(Self::disc_bytes(cases.len()), self.max_case_align(cases))
    }
    /// (field offsets, total size, align) of a record / tuple / parameter list
    pub fn record_layout(&self, fs: &[Type]) -> (Vec<u32>, u32, u32) {
        let mut off = 0;
        let mut offs = Vec::new();
        let mut al = 1;
        for f in fs {
            let a = self.align(f);
            al = al.max(a);
            off = Self::align_to(off, a);
            offs.push(off);
            off += self.size(f);
        }
        (offs, Self::align_to(off, al), al)
    }
    /// entry layout of map<k, v> (= tuple<k, v>)
    pub fn map_entry(&self, k: &Type, v: &Type) -> (Vec<u32>, u32, u32) {
        self.record_layout(&[*k, *v])
    }
    fn list_elem_layout(&self, sh: &Shape) -> (u32, u32) {
        match sh {
            Shape::List { elem, .. } => (self.size(elem), self.align(elem)),
            Shape::Map { key, value } => {
                let (_, s, a) = self.map_entry(key, value);
                (s, a)
            }
            _ => unreachable!(),
        }
    }

    // ---- flattening ----

    pub fn flatten(&self, ty: &Type) -> Vec<Core> {
        match self.shape(ty) {
            Shape::Bool | Shape::Char | Shape::Handle { .. } | Shape::Enum(_) => vec![Core::I32],
            Shape::Int { bits, .. } => vec![if bits == 64 { Core::I64 } else { Core::I32 }],
            Shape::F32 => vec![Core::F32],
            Shape::F64 => vec![Core::F64],
            Shape::List { .. } | Shape::Map { .. } => vec![self.ptr_core(), self.ptr_core()],
            Shape::Fixed { elem, n } => {
                let e = self.flatten(&elem);
                (0..n).flat_map(|_| e.clone()).collect()
            }
            Shape::Record(fs) => fs.iter().flat_map(|f| self.flatten(f)).collect(),
            Shape::Variant(cases) => {
                let mut flat: Vec<Core> = Vec::new();
                for c in cases.iter().flatten() {
                    for (i, ft) in self.flatten(c).into_iter().enumerate() {
                        if i < flat.len() {
                            flat[i] = join(flat[i], ft);
                        } else {
                            flat.push(ft);
                        }
                    }
                }
                let mut r = vec![Core::I32];
                r.extend(flat);
                r
            }
            Shape::Flags(n) => vec![Core::I32; (n + 31) / 32],
        }
    }

    /// Does a value of this type own a heap buffer (string/list/map anywhere)?
    pub fn has_heap(&self, ty: &Type) -> bool {
        match self.shape(ty) {
            Shape::List { .. } | Shape::Map { .. } => true,
            Shape::Fixed { elem, n } => n > 0 && self.has_heap(&elem),
            Shape::Record(fs) => fs.iter().any(|f| self.has_heap(f)),
            Shape::Variant(cs) => cs.iter().flatten().any(|c| self.has_heap(c)),
            _ => false,
        }
    }

    // ---- symbolic values ----

    /// A fresh symbolic value of `ty` plus its validity constraints
    /// (char is a scalar value, discriminants in range, lengths <= L).
    pub fn fresh(&self, tb: &mut TB, ty: &Type, name: &str, valid: &mut Vec<T>) -> Val {
        match self.shape(ty) {
            Shape::Bool => Val::BV(tb.fresh(name, Sort::BV(1))),
            Shape::Int { bits, .. } => Val::BV(tb.fresh(name, Sort::BV(bits))),
            Shape::F32 => Val::BV(tb.fresh(name, Sort::BV(32))),
            Shape::F64 => Val::BV(tb.fresh(name, Sort::BV(64))),
            Shape::Handle { .. } => Val::BV(tb.fresh(name, Sort::BV(32))),
            Shape::Char => {
                let c = tb.fresh(name, Sort::BV(32));
                valid.push(self.char_valid(tb, c));
                Val::BV(c)
            }
            Shape::Enum(n) => {
                let d = tb.fresh(name, Sort::BV(32));
                let nn = tb.bv(n as u128, 32);
                valid.push(tb.ult(d, nn));
                Val::BV(d)
            }
            Shape::Flags(n) => {
                if n == 0 {
                    Val::Agg(vec![])
                } else {
                    Val::BV(tb.fresh(name, Sort::BV(n as u32)))
                }
            }
            Shape::List { elem, .. } => self.fresh_list(tb, name, valid, |s, tb, nm, v| s.fresh(tb, &elem, nm, v)),
            Shape::Map { key, value } => self.fresh_list(tb, name, valid, |s, tb, nm, v| {
                let k = s.fresh(tb, &key, &format!("{nm}.k"), v);
                let vv = s.fresh(tb, &value, &format!("{nm}.v"), v);
                Val::Agg(vec![k, vv])
            }),
            Shape::Fixed { elem, n } => Val::Agg(
                (0..n)
                    .map(|i| self.fresh(tb, &elem, &format!("{name}[{i}]"), valid))
                    .collect(),
            ),
            Shape::Record(fs) => Val::Agg(
                fs.iter()
                    .enumerate()
                    .map(|(i, f)| self.fresh(tb, f, &format!("{name}.{i}"), valid))
                    .collect(),
            ),
            Shape::Variant(cases) => {
                let d = tb.fresh(&format!("{name}.disc"), Sort::BV(32));
                let nn = tb.bv(cases.len() as u128, 32);
                valid.push(tb.ult(d, nn));
                let cs = cases
                    .iter()
                    .enumerate()
                    .map(|(i, c)| c.as_ref().map(|c| self.fresh(tb, c, &format!("{name}.c{i}"), valid)))
                    .collect();
                Val::Var { disc: d, cases: cs }
            }
        }
    }
    fn fresh_list(
        &self,
        tb: &mut TB,
        name: &str,
        valid: &mut Vec<T>,
        mut f: impl FnMut(&Self, &mut TB, &str, &mut Vec<T>) -> Val,
    ) -> Val {
        let len = tb.fresh(&format!("{name}.len"), Sort::BV(self.pw()));
        let l = tb.bv(self.l as u128, self.pw());
        valid.push(tb.ule(len, l));
        let elems = (0..self.l).map(|i| f(self, tb, &format!("{name}[{i}]"), valid)).collect();
        Val::List { len, elems }
    }
    pub fn char_valid(&self, tb: &mut TB, c: T) -> T {
        // c < 0x110000 and not (0xD800 <= c <= 0xDFFF)
        let hi = tb.bv(0x110000, 32);
        let a = tb.ult(c, hi);
        let lo = tb.bv(0xD800, 32);
        let b1 = tb.ult(c, lo);
        let up = tb.bv(0xDFFF, 32);
        let b2 = tb.ult(up, c);
        let b = tb.or(&[b1, b2]);
        tb.and2(a, b)
    }

    // ---- "memory encodes v" (the spec's store, as a relation) ----

    fn aligned(&self, tb: &mut TB, ptr: T, align: u32) -> T {
        if align <= 1 {
            return tb.tt();
        }
        let m = tb.bv((align - 1) as u128, self.pw());
        let x = tb.bvand(ptr, m);
        let z = tb.bv(0, self.pw());
        tb.eq(x, z)
    }
    fn addr_off(&self, tb: &mut TB, addr: T, off: u32) -> T {
        let o = tb.bv(off as u128, self.pw());
        tb.add(addr, o)
    }
    fn index_guard(&self, tb: &mut TB, guard: T, i: usize, len: T) -> T {
        let ii = tb.bv(i as u128, self.pw());
        let lt = tb.ult(ii, len);
        tb.and2(guard, lt)
    }
    fn elem_addr(&self, tb: &mut TB, ptr: T, i: usize, stride: u32) -> T {
        let o = tb.bv((i as u128) * (stride as u128), self.pw());
        tb.add(ptr, o)
    }
    fn imp(&self, tb: &mut TB, guard: T, c: T, path: &str, out: &mut Vec<Obl>) {
        let g = tb.implies(guard, c);
        if tb.as_bool(g) != Some(true) {
            out.push((path.to_string(), g));
        }
    }

    /// Obligations stating that `mem` at `addr` holds exactly the bytes the
    /// spec's `store(v, ty, addr)` writes.  `bufs`: optional ledger of
    /// (guard, addr, size, align) buffers a list pointer must designate.
    pub fn enc_mem(
        &self,
        tb: &mut TB,
        mem: &mut RMem,
        addr: T,
        v: &Val,
        ty: &Type,
        guard: T,
        path: &str,
        bufs: Option<&[(T, T, T, u32)]>,
        out: &mut Vec<Obl>,
    ) {
        match (self.shape(ty), v) {
            (Shape::Bool, Val::BV(b)) => {
                let byte = mem.load(tb, addr, 1, guard);
                let e = tb.zext_to(*b, 8);
                let c = tb.eq(byte, e);
                self.imp(tb, guard, c, path, out);
            }
            (Shape::Int { bits, .. }, Val::BV(x)) => {
                let got = mem.load(tb, addr, bits / 8, guard);
                let c = tb.eq(got, *x);
                self.imp(tb, guard, c, path, out);
            }
            (Shape::F32 | Shape::Char | Shape::Handle { .. }, Val::BV(x)) => {
                let got = mem.load(tb, addr, 4, guard);
                let c = tb.eq(got, *x);
                self.imp(tb, guard, c, path, out);
            }
            (Shape::F64, Val::BV(x)) => {
                let got = mem.load(tb, addr, 8, guard);
                let c = tb.eq(got, *x);
                self.imp(tb, guard, c, path, out);
            }
            (Shape::Enum(n), Val::BV(d)) => {
                let nb = Self::disc_bytes(n);
                let got = mem.load(tb, addr, nb, guard);
                let want = tb.extract(nb * 8 - 1, 0, *d);
                let c = tb.eq(got, want);
                self.imp(tb, guard, c, path, out);
            }
            (Shape::Flags(n), v) => {
                let (sz, _) = Self::flags_size(n);
                if sz == 0 {
                    return;
                }
                let Val::BV(x) = v else { panic!("flags value") };
                let got = mem.load(tb, addr, sz, guard);
                let want = tb.zext_to(*x, sz * 8);
                let c = tb.eq(got, want);
                self.imp(tb, guard, c, path, out);
            }
            (sh @ (Shape::List { .. } | Shape::Map { .. }), Val::List { len, elems }) => {
                let ptr = mem.load(tb, addr, self.p, guard);
                let la = self.addr_off(tb, addr, self.p);
                let l = mem.load(tb, la, self.p, guard);
                self.enc_list(tb, mem, ptr, l, *len, elems, &sh, guard, path, bufs, out);
            }
            (Shape::Fixed { elem, n }, Val::Agg(es)) => {
                assert_eq!(es.len(), n as usize);
                let s = self.size(&elem);
                for (i, e) in es.iter().enumerate() {
                    let a = self.elem_addr(tb, addr, i, s);
                    self.enc_mem(tb, mem, a, e, &elem, guard, &format!("{path}[{i}]"), bufs, out);
                }
            }
            (Shape::Record(fs), Val::Agg(es)) => {
                assert_eq!(es.len(), fs.len());
                let (offs, _, _) = self.record_layout(&fs);
                for (i, (f, e)) in fs.iter().zip(es).enumerate() {
                    let a = self.addr_off(tb, addr, offs[i]);
                    self.enc_mem(tb, mem, a, e, f, guard, &format!("{path}.{i}"), bufs, out);
                }
            }
            (Shape::Variant(cases), Val::Var { disc, cases: vs }) => {
                let nb = Self::disc_bytes(cases.len());
                let got = mem.load(tb, addr, nb, guard);
                let want = tb.extract(nb * 8 - 1, 0, *disc);
                let c = tb.eq(got, want);
                self.imp(tb, guard, c, &format!("{path}.disc"), out);
                let off = self.payload_offset(&cases);
                for (i, (ct, cv)) in cases.iter().zip(vs).enumerate() {
                    if let (Some(ct), Some(cv)) = (ct, cv) {
                        let ic = tb.bv(i as u128, 32);
                        let is = tb.eq(*disc, ic);
                        let g = tb.and2(guard, is);
                        let a = self.addr_off(tb, addr, off);
                        self.enc_mem(tb, mem, a, cv, ct, g, &format!("{path}.c{i}"), bufs, out);
                    }
                }
            }
            (sh, v) => panic!("enc_mem: value {:?} does not fit shape {:?}", v, sh),
        }
    }

    /// list body: (ptr, len) slots/loads vs the list value
    #[allow(clippy::too_many_arguments)]
    fn enc_list(
        &self,
        tb: &mut TB,
        mem: &mut RMem,
        ptr: T,
        l: T,
        len: T,
        elems: &[Val],
        sh: &Shape,
        guard: T,
        path: &str,
        bufs: Option<&[(T, T, T, u32)]>,
        out: &mut Vec<Obl>,
    ) {
        let (stride, al) = self.list_elem_layout(sh);
        let c = tb.eq(l, len);
        self.imp(tb, guard, c, &format!("{path}.len"), out);
        let c = self.aligned(tb, ptr, al);
        self.imp(tb, guard, c, &format!("{path}.ptr-aligned"), out);
        if let Some(bufs) = bufs {
            // the pointer designates a buffer allocated with the spec's
            // byte size (len * elem_size) and alignment
            let st = tb.bv(stride as u128, self.pw());
            let want = tb.mul(len, st);
            let mut alts = Vec::new();
            for (g, a, sz, balign) in bufs {
                if *balign != al {
                    continue;
                }
                let e1 = tb.eq(ptr, *a);
                let e2 = tb.eq(*sz, want);
                alts.push(tb.and(&[*g, e1, e2]));
            }
            let c = tb.or(&alts);
            self.imp(tb, guard, c, &format!("{path}.buffer(size=len*{stride},align={al})"), out);
        }
        for (i, e) in elems.iter().enumerate() {
            let g = self.index_guard(tb, guard, i, len);
            let a = self.elem_addr(tb, ptr, i, stride);
            match sh {
                Shape::List { elem, .. } => {
                    self.enc_mem(tb, mem, a, e, elem, g, &format!("{path}[{i}]"), bufs, out)
                }
                Shape::Map { key, value } => {
                    let (offs, _, _) = self.map_entry(key, value);
                    let Val::Agg(kv) = e else { panic!("map entry") };
                    let ka = self.addr_off(tb, a, offs[0]);
                    self.enc_mem(tb, mem, ka, &kv[0], key, g, &format!("{path}[{i}].k"), bufs, out);
                    let va = self.addr_off(tb, a, offs[1]);
                    self.enc_mem(tb, mem, va, &kv[1], value, g, &format!("{path}[{i}].v"), bufs, out);
                }
                _ => unreachable!(),
            }
        }
    }

    /// Obligations stating that the flat core values `slots` (with the
    /// spec's joined core types) are exactly `lower_flat(v)`; list pointers
    /// are checked through the memory they designate.  Returns #slots used.
    #[allow(clippy::too_many_arguments)]
    pub fn enc_flat(
        &self,
        tb: &mut TB,
        mem: &mut RMem,
        slots: &[T],
        v: &Val,
        ty: &Type,
        guard: T,
        path: &str,
        bufs: Option<&[(T, T, T, u32)]>,
        out: &mut Vec<Obl>,
    ) -> usize {
        let want_eq = |s: &Self, tb: &mut TB, slot: T, want: T, out: &mut Vec<Obl>| {
            let c = tb.eq(slot, want);
            s.imp(tb, guard, c, path, out);
        };
        match (self.shape(ty), v) {
            (Shape::Bool, Val::BV(b)) => {
                let w = tb.zext_to(*b, 32);
                want_eq(self, tb, slots[0], w, out);
                1
            }
            (Shape::Int { bits, signed }, Val::BV(x)) => {
                let to = if bits == 64 { 64 } else { 32 };
                let w = if signed && self.mutate != 2 { tb.sext_to(*x, to) } else { tb.zext_to(*x, to) };
                want_eq(self, tb, slots[0], w, out);
                1
            }
            (Shape::F32 | Shape::F64 | Shape::Char | Shape::Handle { .. } | Shape::Enum(_), Val::BV(x)) => {
                want_eq(self, tb, slots[0], *x, out);
                1
            }
            (Shape::Flags(n), v) => {
                let words = (n + 31) / 32;
                if words == 0 {
                    return 0;
                }
                let Val::BV(x) = v else { panic!("flags value") };
                let padded = tb.zext_to(*x, 32 * words as u32);
                for k in 0..words {
                    let w = tb.extract(32 * k as u32 + 31, 32 * k as u32, padded);
                    let c = tb.eq(slots[k], w);
                    self.imp(tb, guard, c, &format!("{path}.word{k}"), out);
                }
                words
            }
            (sh @ (Shape::List { .. } | Shape::Map { .. }), Val::List { len, elems }) => {
                self.enc_list(tb, mem, slots[0], slots[1], *len, elems, &sh, guard, path, bufs, out);
                2
            }
            (Shape::Fixed { elem, n }, Val::Agg(es)) => {
                assert_eq!(es.len(), n as usize);
                let mut used = 0;
                for (i, e) in es.iter().enumerate() {
                    used += self.enc_flat(tb, mem, &slots[used..], e, &elem, guard, &format!("{path}[{i}]"), bufs, out);
                }
                used
            }
            (Shape::Record(fs), Val::Agg(es)) => {
                let mut used = 0;
                for (i, (f, e)) in fs.iter().zip(es).enumerate() {
                    used += self.enc_flat(tb, mem, &slots[used..], e, f, guard, &format!("{path}.{i}"), bufs, out);
                }
                used
            }
            (Shape::Variant(cases), Val::Var { disc, cases: vs }) => {
                let joined = self.flatten(ty);
                let c = tb.eq(slots[0], *disc);
                self.imp(tb, guard, c, &format!("{path}.disc"), out);
                for (i, (ct, cv)) in cases.iter().zip(vs).enumerate() {
                    let ic = tb.bv(i as u128, 32);
                    let is = tb.eq(*disc, ic);
                    let g = tb.and2(guard, is);
                    let mut used = 0;
                    if let (Some(ct), Some(cv)) = (ct, cv) {
                        let cf = self.flatten(ct);
                        // coerce the joined slots down to the case's own flat
                        // types; lowering must have produced exactly the
                        // zero-extension (floats: reinterpretation) of those
                        let mut down = Vec::new();
                        for (k, c) in cf.iter().enumerate() {
                            let s = slots[1 + k];
                            assert_eq!(tb.width(s), joined[1 + k].bits(), "slot width vs spec join at {path}");
                            let d = tb.resize(s, c.bits());
                            let up = tb.resize(d, joined[1 + k].bits());
                            let e = tb.eq(up, s);
                            self.imp(tb, g, e, &format!("{path}.c{i}.slot{k}-zero-extended"), out);
                            down.push(d);
                        }
                        used = self.enc_flat(tb, mem, &down, cv, ct, g, &format!("{path}.c{i}"), bufs, out);
                        assert_eq!(used, cf.len());
                    }
                    for k in used..joined.len() - 1 {
                        let s = slots[1 + k];
                        let z = tb.bv(if self.mutate == 3 { 1 } else { 0 }, tb.width(s));
                        let e = tb.eq(s, z);
                        self.imp(tb, g, e, &format!("{path}.c{i}.unused-slot{k}-zero"), out);
                    }
                }
                joined.len()
            }
            (sh, v) => panic!("enc_flat: value {:?} does not fit shape {:?}", v, sh),
        }
    }

    // ---- the spec's load / lift_flat (decoders) ----

    /// Decode `ty` from `mem` at `addr`; pushes the conditions under which the
    /// spec accepts the encoding (does not trap) to `valid`.
    pub fn load(&self, tb: &mut TB, mem: &mut RMem, addr: T, ty: &Type, guard: T, valid: &mut Vec<T>) -> Val {
        match self.shape(ty) {
            Shape::Bool => {
                let byte = mem.load(tb, addr, 1, guard);
                self.bool_valid(tb, byte, guard, valid);
                Val::BV(tb.extract(0, 0, byte))
            }
            Shape::Int { bits, .. } => Val::BV(mem.load(tb, addr, bits / 8, guard)),
            Shape::F32 | Shape::Handle { .. } => Val::BV(mem.load(tb, addr, 4, guard)),
            Shape::F64 => Val::BV(mem.load(tb, addr, 8, guard)),
            Shape::Char => {
                let c = mem.load(tb, addr, 4, guard);
                let ok = self.char_valid(tb, c);
                valid.push(tb.implies(guard, ok));
                Val::BV(c)
            }
            Shape::Enum(n) => {
                let nb = Self::disc_bytes(n);
                let d = mem.load(tb, addr, nb, guard);
                let d = tb.zext_to(d, 32);
                let nn = tb.bv(n as u128, 32);
                let ok = tb.ult(d, nn);
                valid.push(tb.implies(guard, ok));
                Val::BV(d)
            }
            Shape::Flags(n) => {
                let (sz, _) = Self::flags_size(n);
                if sz == 0 {
                    return Val::Agg(vec![]);
                }
                let x = mem.load(tb, addr, sz, guard);
                Val::BV(tb.extract(n as u32 - 1, 0, x))
            }
            sh @ (Shape::List { .. } | Shape::Map { .. }) => {
                let ptr = mem.load(tb, addr, self.p, guard);
                let la = self.addr_off(tb, addr, self.p);
                let len = mem.load(tb, la, self.p, guard);
                self.load_list(tb, mem, ptr, len, &sh, guard, valid)
            }
            Shape::Fixed { elem, n } => {
                let s = self.size(&elem);
                Val::Agg(
                    (0..n as usize)
                        .map(|i| {
                            let a = self.elem_addr(tb, addr, i, s);
                            self.load(tb, mem, a, &elem, guard, valid)
                        })
                        .collect(),
                )
            }
            Shape::Record(fs) => {
                let (offs, _, _) = self.record_layout(&fs);
                Val::Agg(
                    fs.iter()
                        .enumerate()
                        .map(|(i, f)| {
                            let a = self.addr_off(tb, addr, offs[i]);
                            self.load(tb, mem, a, f, guard, valid)
                        })
                        .collect(),
                )
            }
            Shape::Variant(cases) => {
                let nb = Self::disc_bytes(cases.len());
                let d = mem.load(tb, addr, nb, guard);
                let d = tb.zext_to(d, 32);
                let nn = tb.bv(cases.len() as u128, 32);
                let ok = tb.ult(d, nn);
                valid.push(tb.implies(guard, ok));
                let off = self.payload_offset(&cases);
                let cs = cases
                    .iter()
                    .enumerate()
                    .map(|(i, c)| {
                        c.as_ref().map(|c| {
                            let ic = tb.bv(i as u128, 32);
                            let is = tb.eq(d, ic);
                            let g = tb.and2(guard, is);
                            let a = self.addr_off(tb, addr, off);
                            self.load(tb, mem, a, c, g, valid)
                        })
                    })
                    .collect();
                Val::Var { disc: d, cases: cs }
            }
        }
    }
    fn bool_valid(&self, tb: &mut TB, x: T, guard: T, valid: &mut Vec<T>) {
        // The spec maps every non-zero value to true; abi.rs documents
        // BoolFromI32 as "trapping if not 0 or 1".  Both agree on {0, 1},
        // which is what is claimed (stated in evidence).
        let w = tb.width(x);
        let two = tb.bv(2, w);
        let ok = tb.ult(x, two);
        valid.push(tb.implies(guard, ok));
    }
    fn load_list(&self, tb: &mut TB, mem: &mut RMem, ptr: T, len: T, sh: &Shape, guard: T, valid: &mut Vec<T>) -> Val {
        let (stride, al) = self.list_elem_layout(sh);
        let l = tb.bv(self.l as u128, self.pw());
        let ok = tb.ule(len, l);
        valid.push(tb.implies(guard, ok));
        let ok = self.aligned(tb, ptr, al);
        valid.push(tb.implies(guard, ok));
        let elems = (0..self.l)
            .map(|i| {
                let g = self.index_guard(tb, guard, i, len);
                let a = self.elem_addr(tb, ptr, i, stride);
                match sh {
                    Shape::List { elem, .. } => self.load(tb, mem, a, elem, g, valid),
                    Shape::Map { key, value } => {
                        let (offs, _, _) = self.map_entry(key, value);
                        let ka = self.addr_off(tb, a, offs[0]);
                        let k = self.load(tb, mem, ka, key, g, valid);
                        let va = self.addr_off(tb, a, offs[1]);
                        let v = self.load(tb, mem, va, value, g, valid);
                        Val::Agg(vec![k, v])
                    }
                    _ => unreachable!(),
                }
            })
            .collect();
        Val::List { len, elems }
    }

    /// The spec's lift_flat: decode `ty` from core values (any bits above a
    /// narrow type's width are ignored, joined slots are wrapped).
    pub fn lift_flat(&self, tb: &mut TB, mem: &mut RMem, slots: &[T], ty: &Type, guard: T, valid: &mut Vec<T>) -> (Val, usize) {
        match self.shape(ty) {
            Shape::Bool => {
                self.bool_valid(tb, slots[0], guard, valid);
                (Val::BV(tb.extract(0, 0, slots[0])), 1)
            }
            Shape::Int { bits, .. } => (Val::BV(tb.extract(bits - 1, 0, slots[0])), 1),
            Shape::F32 | Shape::F64 | Shape::Handle { .. } => (Val::BV(slots[0]), 1),
            Shape::Char => {
                let ok = self.char_valid(tb, slots[0]);
                valid.push(tb.implies(guard, ok));
                (Val::BV(slots[0]), 1)
            }
            Shape::Enum(n) => {
                let nn = tb.bv(n as u128, 32);
                let ok = tb.ult(slots[0], nn);
                valid.push(tb.implies(guard, ok));
                (Val::BV(slots[0]), 1)
            }
            Shape::Flags(n) => {
                let words = (n + 31) / 32;
                if words == 0 {
                    return (Val::Agg(vec![]), 0);
                }
                let mut acc = slots[0];
                for k in 1..words {
                    acc = tb.concat(slots[k], acc);
                }
                (Val::BV(tb.extract(n as u32 - 1, 0, acc)), words)
            }
            sh @ (Shape::List { .. } | Shape::Map { .. }) => {
                (self.load_list(tb, mem, slots[0], slots[1], &sh, guard, valid), 2)
            }
            Shape::Fixed { elem, n } => {
                let mut used = 0;
                let mut es = Vec::new();
                for _ in 0..n {
                    let (v, u) = self.lift_flat(tb, mem, &slots[used..], &elem, guard, valid);
                    used += u;
                    es.push(v);
                }
                (Val::Agg(es), used)
            }
            Shape::Record(fs) => {
                let mut used = 0;
                let mut es = Vec::new();
                for f in &fs {
                    let (v, u) = self.lift_flat(tb, mem, &slots[used..], f, guard, valid);
                    used += u;
                    es.push(v);
                }
                (Val::Agg(es), used)
            }
            Shape::Variant(cases) => {
                let joined = self.flatten(ty);
                let d = slots[0];
                let nn = tb.bv(cases.len() as u128, 32);
                let ok = tb.ult(d, nn);
                valid.push(tb.implies(guard, ok));
                let cs = cases
                    .iter()
                    .enumerate()
                    .map(|(i, c)| {
                        c.as_ref().map(|c| {
                            let ic = tb.bv(i as u128, 32);
                            let is = tb.eq(d, ic);
                            let g = tb.and2(guard, is);
                            let cf = self.flatten(c);
                            let down: Vec<T> = cf
                                .iter()
                                .enumerate()
                                .map(|(k, ct)| {
                                    assert_eq!(tb.width(slots[1 + k]), joined[1 + k].bits());
                                    tb.resize(slots[1 + k], ct.bits())
                                })
                                .collect();
                            self.lift_flat(tb, mem, &down, c, g, valid).0
                        })
                    })
                    .collect();
                (Val::Var { disc: d, cases: cs }, joined.len())
            }
        }
    }

    /// Structural equality of two values of the same type, as obligations.
    pub fn val_eq(&self, tb: &mut TB, a: &Val, b: &Val, guard: T, path: &str, out: &mut Vec<Obl>) {
        match (a, b) {
            (Val::BV(x), Val::BV(y)) => {
                if tb.sort(*x) != tb.sort(*y) {
                    let f = tb.ff();
                    out.push((format!("{path}: width {:?} vs {:?}", tb.sort(*x), tb.sort(*y)), f));
                    return;
                }
                let c = tb.eq(*x, *y);
                self.imp(tb, guard, c, path, out);
            }
            (Val::Agg(xs), Val::Agg(ys)) if xs.len() == ys.len() => {
                for (i, (x, y)) in xs.iter().zip(ys).enumerate() {
                    self.val_eq(tb, x, y, guard, &format!("{path}.{i}"), out);
                }
            }
            (Val::Var { disc: d1, cases: c1 }, Val::Var { disc: d2, cases: c2 }) if c1.len() == c2.len() => {
                let c = tb.eq(*d1, *d2);
                self.imp(tb, guard, c, &format!("{path}.disc"), out);
                for (i, (x, y)) in c1.iter().zip(c2).enumerate() {
                    match (x, y) {
                        (Some(x), Some(y)) => {
                            let ic = tb.bv(i as u128, 32);
                            let is = tb.eq(*d1, ic);
                            let g = tb.and2(guard, is);
                            self.val_eq(tb, x, y, g, &format!("{path}.c{i}"), out);
                        }
                        (None, None) => {}
                        _ => {
                            let f = tb.ff();
                            out.push((format!("{path}.c{i}: payload presence differs"), f));
                        }
                    }
                }
            }
            (Val::List { len: l1, elems: e1 }, Val::List { len: l2, elems: e2 }) if e1.len() == e2.len() => {
                let c = tb.eq(*l1, *l2);
                self.imp(tb, guard, c, &format!("{path}.len"), out);
                for (i, (x, y)) in e1.iter().zip(e2).enumerate() {
                    let g = self.index_guard(tb, guard, i, *l1);
                    self.val_eq(tb, x, y, g, &format!("{path}[{i}]"), out);
                }
            }
            (a, b) => {
                let f = tb.ff();
                out.push((format!("{path}: shape mismatch {:?} vs {:?}", a, b), f));
            }
        }
    }

    /// Owned handles (own / future / stream, not borrow, not error-context
    /// when `ec` is false) reachable in `v`, each with its guard.
    pub fn owned_handles(&self, tb: &mut TB, v: &Val, ty: &Type, guard: T, out: &mut Vec<(T, T)>) {
        match (self.shape(ty), v) {
            (Shape::Handle { owned, what }, Val::BV(h)) => {
                if owned && what != "error-context" {
                    out.push((guard, *h));
                }
            }
            (Shape::List { elem, .. }, Val::List { len, elems }) => {
                for (i, e) in elems.iter().enumerate() {
                    let g = self.index_guard(tb, guard, i, *len);
                    self.owned_handles(tb, e, &elem, g, out);
                }
            }
            (Shape::Map { key, value }, Val::List { len, elems }) => {
                for (i, e) in elems.iter().enumerate() {
                    let g = self.index_guard(tb, guard, i, *len);
                    let Val::Agg(kv) = e else { panic!() };
                    self.owned_handles(tb, &kv[0], &key, g, out);
                    self.owned_handles(tb, &kv[1], &value, g, out);
                }
            }
            (Shape::Fixed { elem, .. }, Val::Agg(es)) => {
                for e in es {
                    self.owned_handles(tb, e, &elem, guard, out);
                }
            }
            (Shape::Record(fs), Val::Agg(es)) => {
                for (f, e) in fs.iter().zip(es) {
                    self.owned_handles(tb, e, f, guard, out);
                }
            }
            (Shape::Variant(cases), Val::Var { disc, cases: vs }) => {
                for (i, (c, cv)) in cases.iter().zip(vs).enumerate() {
                    if let (Some(c), Some(cv)) = (c, cv) {
                        let ic = tb.bv(i as u128, 32);
                        let is = tb.eq(*disc, ic);
                        let g = tb.and2(guard, is);
                        self.owned_handles(tb, cv, c, g, out);
                    }
                }
            }
            _ => {}
        }
    }

    /// Heap buffers (string/list/map bodies) reachable in `v`:
    /// (guard, byte size term, align) -- what the spec's store allocates.
    pub fn heap_buffers(&self, tb: &mut TB, v: &Val, ty: &Type, guard: T, out: &mut Vec<(T, T, u32)>) {
        match (self.shape(ty), v) {
            (sh @ (Shape::List { .. } | Shape::Map { .. }), Val::List { len, elems }) => {
                let (stride, al) = self.list_elem_layout(&sh);
                let st = tb.bv(stride as u128, self.pw());
                let sz = tb.mul(*len, st);
                out.push((guard, sz, al));
                for (i, e) in elems.iter().enumerate() {
                    let g = self.index_guard(tb, guard, i, *len);
                    match &sh {
                        Shape::List { elem, .. } => self.heap_buffers(tb, e, elem, g, out),
                        Shape::Map { key, value } => {
                            let Val::Agg(kv) = e else { panic!() };
                            self.heap_buffers(tb, &kv[0], key, g, out);
                            self.heap_buffers(tb, &kv[1], value, g, out);
                        }
                        _ => unreachable!(),
                    }
                }
            }
            (Shape::Fixed { elem, .. }, Val::Agg(es)) => {
                for e in es {
                    self.heap_buffers(tb, e, &elem, guard, out);
                }
            }
            (Shape::Record(fs), Val::Agg(es)) => {
                for (f, e) in fs.iter().zip(es) {
                    self.heap_buffers(tb, e, f, guard, out);
                }
            }
            (Shape::Variant(cases), Val::Var { disc, cases: vs }) => {
                for (i, (c, cv)) in cases.iter().zip(vs).enumerate() {
                    if let (Some(c), Some(cv)) = (c, cv) {
                        let ic = tb.bv(i as u128, 32);
                        let is = tb.eq(*disc, ic);
                        let g = tb.and2(guard, is);
                        self.heap_buffers(tb, cv, c, g, out);
                    }
                }
            }
            _ => {}
        }
    }
}
