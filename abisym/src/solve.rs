//! SMT-LIB script generation, solver invocation (z3 / cvc5 over stdin),
//! model extraction and native re-evaluation of counterexamples.

use crate::term::{Model, Sort, K, T, TB};
use std::io::Write;
use std::process::{Command, Stdio};
use std::time::Instant;

#[derive(Debug, Clone, PartialEq, Eq)]
pub enum Verdict {
    Unsat,
    Sat,
    Unknown(String),
}

pub struct Query {
    pub name: String,
    /// goal that must hold under the assumptions (we assert its negation)
    pub goal: T,
}

#[derive(Debug, Clone)]
pub struct QResult {
    pub name: String,
    pub verdict: Verdict,
    pub model: Option<Model>,
    /// when sat: did the independent evaluator confirm that the model
    /// satisfies the assumptions and falsifies the goal?
    pub replayed: Option<bool>,
}

pub struct Stats {
    pub queries: usize,
    pub solver_s: f64,
}

fn sexp_tokens(s: &str) -> Vec<String> {
    let mut out = Vec::new();
    let mut cur = String::new();
    let mut in_bar = false;
    for c in s.chars() {
        if in_bar {
            cur.push(c);
            if c == '|' {
                in_bar = false;
                out.push(std::mem::take(&mut cur));
            }
            continue;
        }
        match c {
            '|' => {
                if !cur.is_empty() {
                    out.push(std::mem::take(&mut cur));
                }
                cur.push(c);
                in_bar = true;
            }
            '(' | ')' => {
                if !cur.is_empty() {
                    out.push(std::mem::take(&mut cur));
                }
                out.push(c.to_string());
            }
            c if c.is_whitespace() => {
                if !cur.is_empty() {
                    out.push(std::mem::take(&mut cur));
                }
            }
            c => cur.push(c),
        }
    }
    if !cur.is_empty() {
        out.push(cur);
    }
    out
}

fn parse_value(tok: &str) -> Option<u128> {
    if let Some(h) = tok.strip_prefix("#x") {
        u128::from_str_radix(h, 16).ok()
    } else if let Some(b) = tok.strip_prefix("#b") {
        u128::from_str_radix(b, 2).ok()
    } else if tok == "true" {
        Some(1)
    } else if tok == "false" {
        Some(0)
    } else {
        None
    }
}

/// Parse the answer of `(get-value (e1 e2 ...))`: returns the values in
/// order.  Each answer pair is `(expr value)`; the value is the last atom
/// before the closing paren of the pair (handles `(_ bv5 32)` too).
fn parse_get_value(text: &str, n: usize) -> Option<Vec<u128>> {
    let toks = sexp_tokens(text);
    // structure: ( (e v) (e v) ... )
    let mut depth = 0i32;
    let mut vals = Vec::new();
    let mut i = 0;
    let mut pair_start_depth = None;
    let mut last_atoms: Vec<String> = Vec::new();
    while i < toks.len() {
        let t = &toks[i];
        if t == "(" {
            depth += 1;
            if depth == 2 && pair_start_depth.is_none() {
                pair_start_depth = Some(2);
                last_atoms.clear();
            }
        } else if t == ")" {
            if depth == 2 && pair_start_depth.is_some() {
                // value = last token (or `(_ bvN w)` form)
                let v = if last_atoms.len() >= 3 && last_atoms[last_atoms.len() - 3] == "_" {
                    last_atoms[last_atoms.len() - 2].strip_prefix("bv").and_then(|d| d.parse::<u128>().ok())
                } else {
                    last_atoms.last().and_then(|a| parse_value(a))
                };
                vals.push(v?);
                pair_start_depth = None;
            }
            depth -= 1;
        } else if pair_start_depth.is_some() {
            last_atoms.push(t.clone());
        }
        i += 1;
    }
    if vals.len() == n {
        Some(vals)
    } else {
        None
    }
}

pub struct Solver {
    pub cmd: Vec<String>,
    pub timeout_s: u64,
}

impl Solver {
    pub fn z3(bin: &str, timeout_s: u64) -> Solver {
        Solver { cmd: vec![bin.into(), "-in".into(), format!("-T:{}", timeout_s + 5)], timeout_s }
    }
    pub fn cvc5(timeout_s: u64) -> Solver {
        Solver {
            cmd: vec![
                "cvc5".into(),
                "--lang".into(),
                "smt2".into(),
                "--incremental".into(),
                "--produce-models".into(),
                format!("--tlimit-per={}", timeout_s * 1000),
            ],
            timeout_s,
        }
    }

    fn run(&self, script: &str) -> Result<String, String> {
        let mut child = Command::new(&self.cmd[0])
            .args(&self.cmd[1..])
            .stdin(Stdio::piped())
            .stdout(Stdio::piped())
            .stderr(Stdio::piped())
            .spawn()
            .map_err(|e| format!("cannot start {}: {e}", self.cmd[0]))?;
        {
            let mut stdin = child.stdin.take().unwrap();
            let s = script.to_string();
            std::thread::spawn(move || {
                let _ = stdin.write_all(s.as_bytes());
            });
        }
        let out = child.wait_with_output().map_err(|e| e.to_string())?;
        let mut text = String::from_utf8_lossy(&out.stdout).to_string();
        text.push_str(&String::from_utf8_lossy(&out.stderr));
        Ok(text)
    }

    /// Decide `queries` under `assumes`.  One incremental script:
    /// the assumptions alone must be satisfiable (vacuity guard), then the
    /// conjunction of all goals is refuted; on `sat` each goal is tried on
    /// its own and the first failing one gets a model, which is re-evaluated
    /// by `TB::eval`.
    pub fn decide(
        &self,
        tb: &TB,
        assumes: &[T],
        queries: &[Query],
        stats: &mut Stats,
        dump: Option<&std::path::Path>,
    ) -> Result<Vec<QResult>, String> {
        let mut roots: Vec<T> = assumes.to_vec();
        roots.extend(queries.iter().map(|q| q.goal));
        let (defs, vars, selects) = tb.print_defs(&roots);
        let mut head = String::from("(set-option :produce-models true)\n(set-logic QF_ABV)\n");
        head.push_str(&defs);
        for a in assumes {
            head.push_str(&format!("(assert {})\n", tb.ref_name(*a)));
        }
        // get-value list: scalar variables, then for every select its address
        // and the value of the *base* array at that address
        let scalar_vars: Vec<T> = vars
            .iter()
            .copied()
            .filter(|v| !matches!(tb.sort(*v), Sort::Mem(_)))
            .collect();
        let mut gv: Vec<String> = scalar_vars.iter().map(|v| tb.ref_name(*v)).collect();
        let mut sel_info: Vec<(String, T)> = Vec::new();
        for s in &selects {
            if let K::Select(m, a) = tb.k(*s) {
                let base = tb.mem_base(*m);
                if let K::Var(n, _) = tb.k(base) {
                    gv.push(tb.ref_name(*a));
                    gv.push(format!("(select |{n}| {})", tb.ref_name(*a)));
                    sel_info.push((n.clone(), *a));
                }
            }
        }
        let getvalue = if gv.is_empty() {
            String::new()
        } else {
            format!("(get-value ({}))\n", gv.join(" "))
        };

        // phase 1: vacuity + conjunction
        let mut script = head.clone();
        script.push_str("(echo \"@@vacuity\")\n(check-sat)\n");
        let all: Vec<String> = queries.iter().map(|q| tb.ref_name(q.goal)).collect();
        let conj = match all.len() {
            0 => "true".to_string(),
            1 => all[0].clone(),
            _ => format!("(and {})", all.join(" ")),
        };
        script.push_str(&format!("(push 1)\n(assert (not {conj}))\n(echo \"@@all\")\n(check-sat)\n(pop 1)\n"));
        if let Some(p) = dump {
            let _ = std::fs::write(p, &script);
        }
        let t0 = Instant::now();
        let out = self.run(&script)?;
        stats.solver_s += t0.elapsed().as_secs_f64();
        stats.queries += 2;
        if out.contains("(error") {
            return Err(format!("solver error: {}", out.lines().find(|l| l.contains("(error")).unwrap_or("")));
        }
        let verdict_after = |marker: &str, out: &str| -> Verdict {
            let mut it = out.lines();
            while let Some(l) = it.next() {
                if l.trim().trim_matches('"') == marker {
                    for l2 in it.by_ref() {
                        match l2.trim() {
                            "sat" => return Verdict::Sat,
                            "unsat" => return Verdict::Unsat,
                            "unknown" | "timeout" => return Verdict::Unknown(l2.trim().to_string()),
                            _ => {}
                        }
                    }
                }
            }
            Verdict::Unknown("no answer".into())
        };
        match verdict_after("@@vacuity", &out) {
            Verdict::Sat => {}
            Verdict::Unsat => return Err("VACUOUS: the assumptions are unsatisfiable".into()),
            Verdict::Unknown(s) => return Err(format!("vacuity check: {s}")),
        }
        match verdict_after("@@all", &out) {
            Verdict::Unsat => {
                return Ok(queries
                    .iter()
                    .map(|q| QResult { name: q.name.clone(), verdict: Verdict::Unsat, model: None, replayed: None })
                    .collect())
            }
            Verdict::Unknown(s) if queries.len() == 1 => {
                return Ok(vec![QResult {
                    name: queries[0].name.clone(),
                    verdict: Verdict::Unknown(s),
                    model: None,
                    replayed: None,
                }])
            }
            _ => {}
        }

        // phase 2: each goal on its own, with models
        let mut script = head;
        for (i, q) in queries.iter().enumerate() {
            script.push_str(&format!(
                "(push 1)\n(assert (not {}))\n(echo \"@@q{i}\")\n(check-sat)\n(echo \"@@m{i}\")\n{}(echo \"@@e{i}\")\n(pop 1)\n",
                tb.ref_name(q.goal),
                getvalue
            ));
        }
        let t0 = Instant::now();
        let out = self.run(&script)?;
        stats.solver_s += t0.elapsed().as_secs_f64();
        stats.queries += queries.len();
        let mut results = Vec::new();
        let seg = |a: &str, b: &str| -> Option<&str> {
            let s0 = out.find(a)? + a.len();
            let e0 = s0 + out[s0..].find(b)?;
            Some(&out[s0..e0])
        };
        for (i, q) in queries.iter().enumerate() {
            let vseg = seg(&format!("@@q{i}"), &format!("@@m{i}")).unwrap_or("");
            if vseg.contains("(error") {
                return Err(format!("solver error: {}", vseg.lines().find(|l| l.contains("(error")).unwrap_or("")));
            }
            let v = verdict_after(&format!("@@q{i}"), &out);
            let mut model = None;
            let mut replayed = None;
            if v == Verdict::Sat {
                if let Some(mseg) = seg(&format!("@@m{i}"), &format!("@@e{i}")) {
                    let mseg = mseg.trim().trim_start_matches('"').trim();
                    if let Some(vals) = parse_get_value(mseg, gv.len()) {
                        let mut m = Model::default();
                        for (k, v) in scalar_vars.iter().enumerate() {
                            if let K::Var(n, _) = tb.k(*v) {
                                m.vars.insert(n.clone(), vals[k]);
                            }
                        }
                        let mut k = scalar_vars.len();
                        for (n, _) in &sel_info {
                            let addr = vals[k];
                            let byte = vals[k + 1] as u8;
                            m.mem.insert((n.clone(), addr), byte);
                            k += 2;
                        }
                        // replay: assumptions hold, goal is false
                        let ok_assumes = assumes.iter().all(|a| tb.eval_bool(*a, &m));
                        let goal = tb.eval_bool(q.goal, &m);
                        replayed = Some(ok_assumes && !goal && m.missing.borrow().is_empty());
                        model = Some(m);
                    }
                }
            }
            results.push(QResult { name: q.name.clone(), verdict: v, model, replayed });
        }
        Ok(results)
    }
}
