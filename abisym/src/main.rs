//! abisym: symbolic execution of the instruction streams emitted by the real
//! `wit_bindgen_core::abi` generator, checked against a reference model of
//! the canonical ABI with an SMT solver.  See /verif/DESIGN.md section E1.

mod corpus;
mod eval;
mod ir;
mod props;
mod rmem;
mod solve;
mod spec;
mod term;

use corpus::Ty;
use props::{Built, Ctx, Program};
use serde_json::json;
use solve::{Solver, Stats, Verdict};
use std::sync::atomic::{AtomicUsize, Ordering};
use std::sync::{Arc, Mutex};
use wit_bindgen_core::wit_parser::{Function, Resolve, SizeAlign, Type};

#[derive(Clone)]
struct Item {
    prop: &'static str,
    family: String,
    name: String,
    func: Function,
    p: u32,
    canon: bool,
    /// for C04: the case payload types
    cases: Vec<Option<Type>>,
    /// thorough tier: use length bound 3 for this item
    deep3: bool,
}

struct Args {
    prop: String,
    tier: String,
    seed: u64,
    jobs: usize,
    out: String,
    timeout: u64,
    cvc5_every: usize,
    dump_dir: Option<String>,
    filter: Option<String>,
    l: Option<usize>,
    solver: String,
    mutate_oracle: u32,
}

fn parse_args() -> Args {
    let mut a = Args {
        prop: "C01".into(),
        tier: "quick".into(),
        seed: 0,
        jobs: 8,
        out: "-".into(),
        timeout: 60,
        cvc5_every: 0,
        dump_dir: None,
        filter: None,
        l: None,
        solver: "z3".into(),
        mutate_oracle: 0,
    };
    let v: Vec<String> = std::env::args().collect();
    let mut i = 1;
    while i < v.len() {
        let val = || v.get(i + 1).cloned().unwrap_or_default();
        match v[i].as_str() {
            "--prop" => a.prop = val(),
            "--tier" => a.tier = val(),
            "--seed" => a.seed = val().parse().unwrap_or(0),
            "--jobs" => a.jobs = val().parse().unwrap_or(8),
            "--out" => a.out = val(),
            "--timeout" => a.timeout = val().parse().unwrap_or(60),
            "--cvc5-every" => a.cvc5_every = val().parse().unwrap_or(0),
            "--dump" => a.dump_dir = Some(val()),
            "--filter" => a.filter = Some(val()),
            "--len" => a.l = val().parse().ok(),
            "--solver" => a.solver = val(),
            "--mutate-oracle" => a.mutate_oracle = val().parse().unwrap_or(0),
            x => panic!("unknown argument {x}"),
        }
        i += 2;
    }
    a
}

fn val_json(tb: &term::TB, v: &spec::Val, m: &term::Model) -> serde_json::Value {
    match v {
        spec::Val::BV(t) => json!(format!("0x{:x}", tb.eval_bv(*t, m))),
        spec::Val::Agg(vs) => json!(vs.iter().map(|x| val_json(tb, x, m)).collect::<Vec<_>>()),
        spec::Val::Var { disc, cases } => {
            let d = tb.eval_bv(*disc, m) as usize;
            let payload = cases.get(d).and_then(|c| c.as_ref()).map(|c| val_json(tb, c, m));
            json!({"case": d, "payload": payload})
        }
        spec::Val::List { len, elems } => {
            let n = tb.eval_bv(*len, m) as usize;
            json!({"len": n, "elems": elems.iter().take(n).map(|x| val_json(tb, x, m)).collect::<Vec<_>>()})
        }
    }
}

fn run_item(item: &Item, resolve: &Resolve, sizes: &SizeAlign, args: &Args, idx: usize) -> serde_json::Value {
    // thorough: length bound 3 for types that nest containers at most twice
    // (the cubic blow-up of deeper nests does not finish), 2 otherwise
    let l = args.l.unwrap_or(if args.tier == "thorough" && item.deep3 { 3 } else { 2 });
    let cx = Ctx { resolve, sizes, p: item.p, l, canon: item.canon, mutate: args.mutate_oracle };
    let ty = item.func.params.first().map(|p| p.ty);
    let built = match (item.prop, item.family.as_str()) {
        ("C01", "lower-mem") => props::c01_lower_mem(&cx, &ty.unwrap()),
        ("C01", "lower-flat") => props::c01_lower_flat(&cx, &ty.unwrap()),
        ("C01", "lift-mem") => props::c01_lift_mem(&cx, &ty.unwrap()),
        ("C01", "roundtrip-mem") => props::c01_roundtrip_mem(&cx, &ty.unwrap()),
        ("C01", "lift-flat+export") => props::c02_export(&cx, &item.func, false, false),
        ("C02", "import-sync") => props::c02_import_sync(&cx, &item.func),
        ("C02", "export-sync") => props::c02_export(&cx, &item.func, false, false),
        ("C02", "export-async") => props::c02_export(&cx, &item.func, true, false),
        ("C03", "dealloc-indirect-lists") => props::c03_dealloc(&cx, &ty.unwrap(), true, false),
        ("C03", "dealloc-indirect-own") => props::c03_dealloc(&cx, &ty.unwrap(), true, true),
        ("C03", "dealloc-direct-lists") => props::c03_dealloc(&cx, &ty.unwrap(), false, false),
        ("C03", "dealloc-direct-own") => props::c03_dealloc(&cx, &ty.unwrap(), false, true),
        ("C03", "export+post-return") => props::c02_export(&cx, &item.func, false, true),
        ("C04", "casts") => props::c04_casts(&cx, &ty.unwrap(), &item.cases),
        ("C04", "lower-flat") => props::c01_lower_flat(&cx, &ty.unwrap()),
        ("C04", "lift-flat+export") => props::c02_export(&cx, &item.func, false, false),
        (p, f) => panic!("unknown family {p}/{f}"),
    };
    let base = json!({
        "prop": item.prop, "family": item.family, "name": item.name, "p": item.p, "canon": item.canon, "len_bound": l,
    });
    let mut o = base.as_object().unwrap().clone();
    let prog: Program = match built {
        Built::Skip(why) => {
            o.insert("status".into(), json!("skip"));
            o.insert("why".into(), json!(why));
            return o.into();
        }
        Built::Panic(msg) => {
            o.insert("status".into(), json!("violation"));
            o.insert("kind".into(), json!("generator-panic"));
            o.insert("failing".into(), json!([{"name": format!("generator panicked: {msg}"), "replayed": true}]));
            return o.into();
        }
        Built::IllTyped(msg) => {
            o.insert("status".into(), json!("violation"));
            o.insert("kind".into(), json!("ill-typed-stream"));
            o.insert("failing".into(), json!([{"name": format!("stream is ill-typed: {msg}"), "replayed": true}]));
            return o.into();
        }
        Built::Ok(p) => p,
    };
    o.insert("instructions".into(), json!(prog.ninstr));
    o.insert("obligations".into(), json!(prog.queries.len() + prog.structural.len().min(1)));
    let trusted: Vec<&String> = prog.structural.iter().filter(|s| s.starts_with("TRUSTED-BASE-DISAGREEMENT")).collect();
    let structural: Vec<&String> = prog.structural.iter().filter(|s| !s.starts_with("TRUSTED-BASE-DISAGREEMENT")).collect();
    if !trusted.is_empty() {
        o.insert("trusted_base_disagreement".into(), json!(trusted));
    }
    if !structural.is_empty() {
        o.insert("status".into(), json!("violation"));
        o.insert("kind".into(), json!("structural"));
        o.insert(
            "failing".into(),
            json!(structural.iter().map(|s| json!({"name": s, "replayed": true})).collect::<Vec<_>>()),
        );
        return o.into();
    }
    if prog.queries.is_empty() {
        o.insert("status".into(), json!("ok"));
        o.insert("discharged".into(), json!(0));
        o.insert("trivial".into(), json!(true));
        return o.into();
    }
    let mut stats = Stats { queries: 0, solver_s: 0.0 };
    let dump = args.dump_dir.as_ref().map(|d| std::path::PathBuf::from(d).join(format!("q{idx}.smt2")));
    let z3 = Solver::z3(&args.solver, args.timeout);
    let res = z3.decide(&prog.m.tb, &prog.assumes, &prog.queries, &mut stats, dump.as_deref());
    let mut second = None;
    if args.cvc5_every > 0 && idx % args.cvc5_every == 0 {
        let c = Solver::cvc5(args.timeout);
        let mut st2 = Stats { queries: 0, solver_s: 0.0 };
        second = Some(c.decide(&prog.m.tb, &prog.assumes, &prog.queries, &mut st2, None));
        stats.queries += st2.queries;
        stats.solver_s += st2.solver_s;
    }
    o.insert("queries".into(), json!(stats.queries));
    o.insert("solver_s".into(), json!(stats.solver_s));
    match res {
        Err(e) => {
            o.insert("status".into(), json!("inconclusive"));
            o.insert("why".into(), json!(e));
        }
        Ok(rs) => {
            let mut failing = Vec::new();
            let mut unknown = Vec::new();
            let mut discharged = 0;
            for r in &rs {
                match &r.verdict {
                    Verdict::Unsat => discharged += 1,
                    Verdict::Unknown(s) => unknown.push(format!("{}: {s}", r.name)),
                    Verdict::Sat => {
                        let mut w = serde_json::Map::new();
                        w.insert("name".into(), json!(r.name));
                        w.insert("replayed".into(), json!(r.replayed));
                        if let Some(m) = &r.model {
                            let ins: serde_json::Map<String, serde_json::Value> = prog
                                .inputs
                                .iter()
                                .map(|(n, v)| (n.clone(), val_json(&prog.m.tb, v, m)))
                                .collect();
                            w.insert("inputs".into(), json!(ins));
                            let mut vars: Vec<(String, String)> =
                                m.vars.iter().map(|(k, v)| (k.clone(), format!("0x{v:x}"))).collect();
                            vars.sort();
                            vars.truncate(60);
                            w.insert("model".into(), json!(vars));
                        }
                        failing.push(serde_json::Value::Object(w));
                    }
                }
            }
            o.insert("discharged".into(), json!(discharged));
            if let Some(sec) = second {
                let agree = match &sec {
                    Ok(rs2) => rs.iter().zip(rs2).all(|(a, b)| {
                        std::mem::discriminant(&a.verdict) == std::mem::discriminant(&b.verdict)
                            || matches!(b.verdict, Verdict::Unknown(_))
                    }),
                    Err(_) => true,
                };
                o.insert("cvc5_checked".into(), json!(sec.is_ok()));
                if !agree {
                    unknown.push("SOLVER-DISAGREEMENT between z3 and cvc5".into());
                }
            }
            if failing.iter().any(|f| f["replayed"] != json!(true)) {
                o.insert("status".into(), json!("inconclusive"));
                o.insert("why".into(), json!("a counterexample did not reproduce under the independent evaluator"));
                o.insert("failing".into(), json!(failing));
            } else if !failing.is_empty() {
                o.insert("status".into(), json!("violation"));
                o.insert("kind".into(), json!("solver"));
                o.insert("failing".into(), json!(failing));
            } else if !unknown.is_empty() {
                o.insert("status".into(), json!("inconclusive"));
                o.insert("why".into(), json!(unknown));
            } else {
                o.insert("status".into(), json!("ok"));
            }
        }
    }
    o.into()
}

fn variant_family(tier: &str, seed: u64) -> Vec<Ty> {
    use corpus::{b, p};
    // payload classes: none, the four core scalars, string (pointer+length),
    // and every 2-slot combination of scalars
    let scal = [p("u32"), p("u64"), p("f32"), p("f64")];
    let mut classes: Vec<Option<Ty>> = vec![None];
    for s in &scal {
        classes.push(Some(s.clone()));
    }
    classes.push(Some(p("string")));
    for a in &scal {
        for c in &scal {
            classes.push(Some(Ty::Tuple(vec![a.clone(), c.clone()])));
        }
    }
    let _ = b;
    let mut out = Vec::new();
    for a in &classes {
        for c in &classes {
            out.push(Ty::Variant(vec![a.clone(), c.clone()]));
        }
    }
    let n3 = if tier == "thorough" { 1500 } else { 150 };
    let mut s = seed.wrapping_mul(0x9E3779B97F4A7C15).wrapping_add(77);
    let mut next = || {
        s ^= s << 13;
        s ^= s >> 7;
        s ^= s << 17;
        s as usize
    };
    for _ in 0..n3 {
        let a = classes[next() % classes.len()].clone();
        let c = classes[next() % classes.len()].clone();
        let d = classes[next() % classes.len()].clone();
        out.push(Ty::Variant(vec![a, c, d]));
    }
    let mut seen = std::collections::BTreeSet::new();
    out.retain(|t| seen.insert(t.clone()));
    out
}

fn main() {
    let args = parse_args();
    std::panic::set_hook(Box::new(|_| {}));
    let types = if args.prop == "C04" { variant_family(&args.tier, args.seed) } else { corpus::types_for(&args.tier, args.seed) };
    let sigs = if args.prop == "C02" { corpus::sigs_for(&args.tier, args.seed) } else { vec![] };
    let built = match corpus::build(&types, &sigs) {
        Ok(b) => b,
        Err(e) => {
            eprintln!("corpus: {e:#}");
            std::process::exit(2);
        }
    };
    let mut items: Vec<Item> = Vec::new();
    let spec4 = spec::Spec { resolve: &built.resolve, p: 4, l: 2, mutate: 0 };
    for (ty, expr, f) in &built.type_funcs {
        let t = f.params[0].ty;
        let canon_modes: &[bool] = if matches!(args.prop.as_str(), "C04") { &[false] } else { &[false, true] };
        for p in [4u32, 8] {
            for &canon in canon_modes {
                let mk = |prop: &'static str, fam: &str| Item {
                    prop,
                    family: fam.to_string(),
                    name: expr.clone(),
                    func: f.clone(),
                    p,
                    canon,
                    cases: vec![],
                    deep3: ty.container_depth() <= 2,
                };
                match args.prop.as_str() {
                    "C01" => {
                        for fam in ["lower-mem", "lower-flat", "lift-mem", "roundtrip-mem", "lift-flat+export"] {
                            items.push(mk("C01", fam));
                        }
                    }
                    "C03" => {
                        let owned = {
                            let mut tb = term::TB::new();
                            let mut v = vec![];
                            let val = spec4.fresh(&mut tb, &t, "v", &mut v);
                            let mut hs = vec![];
                            let tt = tb.tt();
                            spec4.owned_handles(&mut tb, &val, &t, tt, &mut hs);
                            !hs.is_empty()
                        };
                        if spec4.has_heap(&t) || owned {
                            for fam in ["dealloc-indirect-lists", "dealloc-indirect-own", "dealloc-direct-lists", "dealloc-direct-own"] {
                                items.push(mk("C03", fam));
                            }
                        }
                        // post-return presence is checked for every result type
                        items.push(mk("C03", "export+post-return"));
                    }
                    "C04" => {
                        let cases: Vec<Option<Type>> = match spec4.shape(&t) {
                            spec::Shape::Variant(cs) => cs,
                            _ => vec![],
                        };
                        let mut it = mk("C04", "casts");
                        it.cases = cases;
                        items.push(it);
                        items.push(mk("C04", "lower-flat"));
                        items.push(mk("C04", "lift-flat+export"));
                    }
                    _ => {}
                }
            }
        }
        let _ = ty;
    }
    for (_, text, f) in &built.sig_funcs {
        for p in [4u32, 8] {
            for canon in [false, true] {
                for fam in ["import-sync", "export-sync", "export-async"] {
                    items.push(Item {
                        prop: "C02",
                        family: fam.to_string(),
                        name: text.clone(),
                        func: f.clone(),
                        p,
                        canon,
                        cases: vec![],
                        deep3: false,
                    });
                }
            }
        }
    }
    if let Some(f) = &args.filter {
        items.retain(|i| format!("{}/{}/{}/p{}/c{}", i.prop, i.family, i.name, i.p, i.canon).contains(f.as_str()));
    }
    if let Some(d) = &args.dump_dir {
        let _ = std::fs::create_dir_all(d);
    }
    let n = items.len();
    let next = Arc::new(AtomicUsize::new(0));
    let results: Arc<Mutex<Vec<(usize, serde_json::Value)>>> = Arc::new(Mutex::new(Vec::new()));
    let items = Arc::new(items);
    let resolve = &built.resolve;
    let args = &args;
    std::thread::scope(|s| {
        for _ in 0..args.jobs.max(1) {
            let next = next.clone();
            let results = results.clone();
            let items = items.clone();
            s.spawn(move || {
                let mut sizes = SizeAlign::default();
                sizes.fill(resolve);
                loop {
                    let i = next.fetch_add(1, Ordering::SeqCst);
                    if i >= n {
                        break;
                    }
                    let r = std::panic::catch_unwind(std::panic::AssertUnwindSafe(|| run_item(&items[i], resolve, &sizes, args, i)));
                    let r = match r {
                        Ok(v) => v,
                        Err(e) => {
                            let msg = e
                                .downcast_ref::<String>()
                                .cloned()
                                .or_else(|| e.downcast_ref::<&str>().map(|s| s.to_string()))
                                .unwrap_or_default();
                            json!({"prop": items[i].prop, "family": items[i].family, "name": items[i].name, "p": items[i].p,
                                   "canon": items[i].canon, "status": "inconclusive", "why": format!("engine panic: {msg}")})
                        }
                    };
                    results.lock().unwrap().push((i, r));
                }
            });
        }
    });
    let mut rs = results.lock().unwrap().clone();
    rs.sort_by_key(|(i, _)| *i);
    let out: Vec<serde_json::Value> = rs.into_iter().map(|(_, v)| v).collect();
    let doc = json!({"items": out, "types": types.len(), "sigs": sigs.len()});
    if args.out == "-" {
        println!("{}", serde_json::to_string(&doc).unwrap());
    } else {
        std::fs::write(&args.out, serde_json::to_string(&doc).unwrap()).unwrap();
    }
}
