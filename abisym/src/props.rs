//! Program builders: for each (type | signature, pointer width, list mode)
//! run the REAL generator (`wit_bindgen_core::abi`) into the recorder,
//! interpret the recorded stream symbolically and state the obligations
//! against the reference (`spec.rs`).

use crate::eval::{Machine, R};
use crate::ir::{Block, Recorder, Var};
use crate::solve::Query;
use crate::spec::{Core, Obl, Spec, Val};
use crate::term::{Sort, T};
use std::panic::{catch_unwind, AssertUnwindSafe};
use wit_bindgen_core::abi::{self, AbiVariant, LiftLower, WasmType};
use wit_bindgen_core::wit_parser::{Function, Resolve, SizeAlign, Type};

pub struct Program<'a> {
    pub m: Machine<'a>,
    pub assumes: Vec<T>,
    pub queries: Vec<Query>,
    /// violations that need no solver (structure of the stream)
    pub structural: Vec<String>,
    pub ninstr: usize,
    /// human-readable description of inputs (for witnesses)
    pub inputs: Vec<(String, Val)>,
}

pub enum Built<'a> {
    Ok(Program<'a>),
    /// the generator panicked on a valid type
    Panic(String),
    /// the stream is not well-typed under the documented instruction meanings
    IllTyped(String),
    /// this combination is excluded (documented todo!() etc.)
    Skip(String),
}

fn panic_msg(e: Box<dyn std::any::Any + Send>) -> String {
    if let Some(s) = e.downcast_ref::<String>() {
        s.clone()
    } else if let Some(s) = e.downcast_ref::<&str>() {
        s.to_string()
    } else {
        "panic".to_string()
    }
}

pub struct Ctx<'a> {
    pub resolve: &'a Resolve,
    pub sizes: &'a SizeAlign,
    pub p: u32,
    pub l: usize,
    pub canon: bool,
    pub mutate: u32,
}

impl<'a> Ctx<'a> {
    pub fn spec(&self) -> Spec<'a> {
        Spec { resolve: self.resolve, p: self.p, l: self.l, mutate: self.mutate }
    }
    fn machine(&self) -> Machine<'a> {
        Machine::new(self.resolve, self.sizes, self.p, self.l)
    }
    fn record<X>(&self, f: impl FnOnce(&mut Recorder) -> X) -> Result<(Block, X, usize), String> {
        let mut rec = Recorder::new(self.resolve, self.canon);
        let r = catch_unwind(AssertUnwindSafe(|| {
            let x = f(&mut rec);
            x
        }));
        match r {
            Ok(x) => {
                let n = rec.ninstr;
                let b = catch_unwind(AssertUnwindSafe(|| rec.finish())).map_err(panic_msg)?;
                Ok((b, x, n))
            }
            Err(e) => Err(panic_msg(e)),
        }
    }
    fn core_bits(&self, c: Core) -> u32 {
        c.bits()
    }
    fn wt_core(&self, w: WasmType) -> Core {
        match w {
            WasmType::I32 => Core::I32,
            WasmType::I64 | WasmType::PointerOrI64 => Core::I64,
            WasmType::F32 => Core::F32,
            WasmType::F64 => Core::F64,
            WasmType::Pointer | WasmType::Length => {
                if self.p == 4 {
                    Core::I32
                } else {
                    Core::I64
                }
            }
        }
    }
}

fn mk_queries(obls: Vec<Obl>, prefix: &str) -> Vec<Query> {
    obls.into_iter()
        .map(|(n, g)| Query { name: format!("{prefix}{n}"), goal: g })
        .collect()
}

fn bufs_of(m: &Machine, from: usize, only_transferred: bool) -> Vec<(T, T, T, u32)> {
    m.allocs[from..]
        .iter()
        .filter(|a| matches!(a.kind, "list" | "map" | "string" | "list-canon"))
        .filter(|a| !only_transferred || a.transferred)
        .map(|a| (a.guard, a.addr, a.size, a.align))
        .collect()
}

/// Frame condition: every store the stream performed lies inside a region
/// allocated for this value (the value's own range or a buffer created by
/// the lowering), under the store's guard.
fn frame_obligations(m: &mut Machine, obls: &mut Vec<Obl>, structural: &mut Vec<String>) {
    let pw = m.pw();
    let stores = m.mem.stores.clone();
    for (base, off, n, g) in stores {
        let Some(a) = m.allocs.iter().find(|a| a.addr == base).cloned() else {
            structural.push(format!("store of {n} bytes through a pointer that is not an allocation of this value (offset {off})"));
            continue;
        };
        let end = m.tb.bv((off + n as u64) as u128, pw);
        let inb = m.tb.ule(end, a.size);
        let c = m.tb.implies(g, inb);
        if m.tb.as_bool(c) != Some(true) {
            obls.push((format!("frame: store of {n} bytes at {}+{off} stays inside the region", a.kind), c));
        }
    }
}

// ------------------------------------------------------------------ C01

/// lower_to_memory(base, v): memory afterwards encodes v per the spec, list
/// pointers designate buffers of the spec's size/alignment, nothing else is
/// written.
pub fn c01_lower_mem<'a>(cx: &Ctx<'a>, ty: &Type) -> Built<'a> {
    let (addr_v, val_v) = (1_000_000usize, 1_000_001usize);
    let rec = cx.record(|rec| {
        abi::lower_to_memory(cx.resolve, rec, addr_v, val_v, ty);
    });
    let (block, _, ninstr) = match rec {
        Ok(x) => x,
        Err(e) => return Built::Panic(e),
    };
    let spec = cx.spec();
    let mut m = cx.machine();
    let pw = m.pw();
    let tt = m.tb.tt();
    let size = m.tb.bv(spec.size(ty) as u128, pw);
    let base = m.alloc("base", size, spec.align(ty), tt, false);
    let mut valid = Vec::new();
    let v = spec.fresh(&mut m.tb, ty, "v", &mut valid);
    m.env.insert(addr_v, Val::BV(base));
    m.env.insert(val_v, v.clone());
    if let Err(e) = m.run(&block, tt) {
        return Built::IllTyped(e);
    }
    let bufs = bufs_of(&m, 1, false);
    let mut obls = Vec::new();
    let mut structural = Vec::new();
    frame_obligations(&mut m, &mut obls, &mut structural);
    let mut mem = m.mem.clone();
    spec.enc_mem(&mut m.tb, &mut mem, base, &v, ty, tt, "mem", Some(&bufs), &mut obls);
    let mut assumes = m.assumes.clone();
    assumes.extend(valid);
    Built::Ok(Program {
        m,
        assumes,
        queries: mk_queries(obls, "lower-mem/"),
        structural,
        ninstr,
        inputs: vec![("v".into(), v)],
    })
}

fn slots_from_vals(cx: &Ctx, m: &Machine, vals: &[Val], want: &[Core], what: &str) -> Result<Vec<T>, String> {
    if vals.len() != want.len() {
        return Err(format!(
            "{what}: stream has {} flat values, the canonical ABI flattens to {} ({:?})",
            vals.len(),
            want.len(),
            want
        ));
    }
    let mut out = Vec::new();
    for (i, (v, c)) in vals.iter().zip(want).enumerate() {
        match v {
            Val::BV(t) if m.tb.width(*t) == cx.core_bits(*c) => out.push(*t),
            Val::BV(t) => {
                return Err(format!(
                    "{what}: flat value {i} has {} bits, canonical core type is {:?}",
                    m.tb.width(*t),
                    c
                ))
            }
            _ => return Err(format!("{what}: flat value {i} is not a core value")),
        }
    }
    Ok(out)
}

/// lower_flat(v) == spec.lower_flat(v), slot by slot (incl. zero padding).
pub fn c01_lower_flat<'a>(cx: &Ctx<'a>, ty: &Type) -> Built<'a> {
    let spec = cx.spec();
    let flat = spec.flatten(ty);
    let val_v = 1_000_001usize;
    let rec = cx.record(|rec| abi::lower_flat(cx.resolve, rec, val_v, ty));
    let (block, outs, ninstr) = match rec {
        Ok(x) => x,
        Err(e) => {
            if flat.len() > 16 {
                return Built::Skip(format!("flat form has {} > 16 values; generator: {e}", flat.len()));
            }
            return Built::Panic(e);
        }
    };
    let mut m = cx.machine();
    let tt = m.tb.tt();
    let mut valid = Vec::new();
    let v = spec.fresh(&mut m.tb, ty, "v", &mut valid);
    m.env.insert(val_v, v.clone());
    if let Err(e) = m.run(&block, tt) {
        return Built::IllTyped(e);
    }
    let vals: Result<Vec<Val>, String> = outs
        .iter()
        .map(|o: &Var| m.env.get(o).cloned().ok_or_else(|| "undefined flat operand".to_string()))
        .collect();
    let vals = match vals {
        Ok(v) => v,
        Err(e) => return Built::IllTyped(e),
    };
    let mut structural = Vec::new();
    // trusted-base cross-check: wit-parser's flattening vs the reference
    if let Some(wp) = abi::flat_types(cx.resolve, ty, None) {
        let wp: Vec<Core> = wp.iter().map(|w| cx.wt_core(*w)).collect();
        if wp != flat {
            structural.push(format!("TRUSTED-BASE-DISAGREEMENT flat_types {:?} vs reference {:?}", wp, flat));
        }
    }
    let slots = match slots_from_vals(cx, &m, &vals, &flat, "lower_flat") {
        Ok(s) => s,
        Err(e) => return Built::IllTyped(e),
    };
    let bufs = bufs_of(&m, 0, false);
    let mut obls = Vec::new();
    let mut mem = m.mem.clone();
    frame_obligations(&mut m, &mut obls, &mut structural);
    let used = spec.enc_flat(&mut m.tb, &mut mem, &slots, &v, ty, tt, "flat", Some(&bufs), &mut obls);
    assert_eq!(used, slots.len());
    let mut assumes = m.assumes.clone();
    assumes.extend(valid);
    Built::Ok(Program {
        m,
        assumes,
        queries: mk_queries(obls, "lower-flat/"),
        structural,
        ninstr,
        inputs: vec![("v".into(), v)],
    })
}

/// lift_from_memory on ARBITRARY memory that the spec accepts == spec.load.
pub fn c01_lift_mem<'a>(cx: &Ctx<'a>, ty: &Type) -> Built<'a> {
    let addr_v = 1_000_000usize;
    let rec = cx.record(|rec| abi::lift_from_memory(cx.resolve, rec, addr_v, ty));
    let (block, out, ninstr) = match rec {
        Ok(x) => x,
        Err(e) => return Built::Panic(e),
    };
    let spec = cx.spec();
    let mut m = cx.machine();
    let pw = m.pw();
    let tt = m.tb.tt();
    let size = m.tb.bv(spec.size(ty) as u128, pw);
    let base = m.alloc("base", size, spec.align(ty), tt, false);
    m.env.insert(addr_v, Val::BV(base));
    if let Err(e) = m.run(&block, tt) {
        return Built::IllTyped(e);
    }
    let mut m0 = m.mem.clone();
    let got = match m.env.get(&out) {
        Some(v) => v.clone(),
        None => return Built::IllTyped("lift result undefined".into()),
    };
    let mut valid = Vec::new();
    let want = spec.load(&mut m.tb, &mut m0, base, ty, tt, &mut valid);
    let mut obls = Vec::new();
    spec.val_eq(&mut m.tb, &got, &want, tt, "value", &mut obls);
    let mut assumes = m.assumes.clone();
    assumes.extend(valid);
    Built::Ok(Program {
        m,
        assumes,
        queries: mk_queries(obls, "lift-mem/"),
        structural: vec![],
        ninstr,
        inputs: vec![("spec.load(M0, base)".into(), want), ("stream".into(), got)],
    })
}

/// lift(lower(v)) == v through memory (cheap regression guard).
pub fn c01_roundtrip_mem<'a>(cx: &Ctx<'a>, ty: &Type) -> Built<'a> {
    let (addr_v, val_v) = (1_000_000usize, 1_000_001usize);
    let r1 = cx.record(|rec| abi::lower_to_memory(cx.resolve, rec, addr_v, val_v, ty));
    let r2 = cx.record(|rec| abi::lift_from_memory(cx.resolve, rec, addr_v, ty));
    let ((b1, _, n1), (b2, out, n2)) = match (r1, r2) {
        (Ok(a), Ok(b)) => (a, b),
        (Err(e), _) | (_, Err(e)) => return Built::Panic(e),
    };
    let spec = cx.spec();
    let mut m = cx.machine();
    let pw = m.pw();
    let tt = m.tb.tt();
    let size = m.tb.bv(spec.size(ty) as u128, pw);
    let base = m.alloc("base", size, spec.align(ty), tt, false);
    let mut valid = Vec::new();
    let v = spec.fresh(&mut m.tb, ty, "v", &mut valid);
    m.env.insert(addr_v, Val::BV(base));
    m.env.insert(val_v, v.clone());
    if let Err(e) = m.run(&b1, tt) {
        return Built::IllTyped(e);
    }
    m.env.clear();
    m.env.insert(addr_v, Val::BV(base));
    if let Err(e) = m.run(&b2, tt) {
        return Built::IllTyped(e);
    }
    let got = m.env.get(&out).cloned().unwrap();
    let mut obls = Vec::new();
    spec.val_eq(&mut m.tb, &got, &v, tt, "value", &mut obls);
    let mut assumes = m.assumes.clone();
    assumes.extend(valid);
    Built::Ok(Program {
        m,
        assumes,
        queries: mk_queries(obls, "roundtrip-mem/"),
        structural: vec![],
        ninstr: n1 + n2,
        inputs: vec![("v".into(), v), ("lifted".into(), got)],
    })
}

// ------------------------------------------------------------------ C02

pub struct SpecSig {
    pub params: Vec<Core>,
    pub results: Vec<Core>,
    pub indirect_params: bool,
    pub retptr: bool,
    pub flat_params: Vec<Core>,
    pub flat_result: Vec<Core>,
}

/// The spec's flatten_functype for sync lift/lower (MAX_FLAT_PARAMS = 16,
/// MAX_FLAT_RESULTS = 1); `export`: results overflow returns a pointer,
/// import: takes an extra out-pointer parameter.
pub fn spec_sig(spec: &Spec, f: &Function, export: bool, max_params: usize) -> SpecSig {
    let flat_params: Vec<Core> = f.params.iter().flat_map(|p| spec.flatten(&p.ty)).collect();
    let flat_result: Vec<Core> = f.result.iter().flat_map(|t| spec.flatten(t)).collect();
    let mut params = flat_params.clone();
    let indirect_params = params.len() > max_params;
    if indirect_params {
        params = vec![spec.ptr_core()];
    }
    let mut results = flat_result.clone();
    let retptr = results.len() > 1;
    if retptr {
        results.clear();
        if export {
            results.push(spec.ptr_core());
        } else {
            params.push(spec.ptr_core());
        }
    }
    SpecSig { params, results, indirect_params, retptr, flat_params, flat_result }
}

fn param_types(f: &Function) -> Vec<Type> {
    f.params.iter().map(|p| p.ty).collect()
}

/// a region with exactly (size, align) that `ptr` designates
fn designates(m: &mut Machine, ptr: T, kind: &str, size: u32, align: u32) -> T {
    let pw = m.pw();
    let mut alts = Vec::new();
    let allocs = m.allocs.clone();
    for a in allocs.iter().filter(|a| a.kind == kind && a.align == align) {
        let sz = m.tb.bv(size as u128, pw);
        let e1 = m.tb.eq(a.addr, ptr);
        let e2 = m.tb.eq(a.size, sz);
        alts.push(m.tb.and(&[e1, e2]));
    }
    m.tb.or(&alts)
}

/// Guest import, sync: LowerArgsLiftResults.
pub fn c02_import_sync<'a>(cx: &Ctx<'a>, f: &Function) -> Built<'a> {
    let rec = cx.record(|rec| abi::call(cx.resolve, AbiVariant::GuestImport, LiftLower::LowerArgsLiftResults, f, rec, false));
    let (block, _, ninstr) = match rec {
        Ok(x) => x,
        Err(e) => return Built::Panic(e),
    };
    let spec = cx.spec();
    let ss = spec_sig(&spec, f, false, 16);
    let mut m = cx.machine();
    let tt = m.tb.tt();
    let mut valid = Vec::new();
    let ptys = param_types(f);
    let mut inputs = Vec::new();
    for (i, t) in ptys.iter().enumerate() {
        let v = spec.fresh(&mut m.tb, t, &format!("arg{i}"), &mut valid);
        inputs.push((format!("arg{i}"), v.clone()));
        m.args.push(v);
    }
    if let Err(e) = m.run(&block, tt) {
        return Built::IllTyped(e);
    }
    let mut structural = Vec::new();
    let mut obls: Vec<Obl> = Vec::new();
    let wasm_calls: Vec<usize> = (0..m.calls.len()).filter(|i| m.calls[*i].kind == "wasm").collect();
    let returns: Vec<usize> = (0..m.calls.len()).filter(|i| m.calls[*i].kind == "return").collect();
    if wasm_calls.len() != 1 {
        structural.push(format!("{} core calls (expected exactly one)", wasm_calls.len()));
    }
    if returns.len() != 1 || m.calls.iter().any(|c| c.kind == "task.return" || c.kind == "interface") {
        structural.push("expected exactly one Return and no other call".into());
    }
    if !m.frees.is_empty() {
        structural.push(format!("{} deallocations in an import wrapper (expected none)", m.frees.len()));
    }
    if !structural.is_empty() {
        return Built::Ok(Program { m, assumes: vec![], queries: vec![], structural, ninstr, inputs });
    }
    let call = m.calls[wasm_calls[0]].clone();
    let sig = call.sig.clone().unwrap();
    // canonical core signature
    let got_params: Vec<Core> = sig.params.iter().map(|w| cx.wt_core(*w)).collect();
    let got_results: Vec<Core> = sig.results.iter().map(|w| cx.wt_core(*w)).collect();
    if got_params != ss.params || got_results != ss.results {
        structural.push(format!(
            "core signature {:?} -> {:?}, canonical is {:?} -> {:?}",
            got_params, got_results, ss.params, ss.results
        ));
        return Built::Ok(Program { m, assumes: vec![], queries: vec![], structural, ninstr, inputs });
    }
    let nargs = ss.params.len() - if ss.retptr { 1 } else { 0 };
    let arg_slots = match slots_from_vals(cx, &m, &call.args, &ss.params, "CallWasm") {
        Ok(s) => s,
        Err(e) => return Built::IllTyped(e),
    };
    let bufs = bufs_of(&m, 0, false);
    if ss.indirect_params {
        // single pointer to a record of all parameters
        let (_, size, align) = spec.record_layout(&ptys);
        let ptr = arg_slots[0];
        let d = designates(&mut m, ptr, "retarea", size, align);
        obls.push((format!("params: pointer designates a parameter area of size {size} align {align}"), d));
        let (offs, _, _) = spec.record_layout(&ptys);
        let pw = m.pw();
        for (i, t) in ptys.iter().enumerate() {
            let o = m.tb.bv(offs[i] as u128, pw);
            let a = m.tb.add(ptr, o);
            let v = m.args[i].clone();
            spec.enc_mem(&mut m.tb, &mut call.mem_at.clone(), a, &v, t, tt, &format!("params.{i}@{}", offs[i]), Some(&bufs), &mut obls);
        }
    } else {
        let mut used = 0;
        for (i, t) in ptys.iter().enumerate() {
            let v = m.args[i].clone();
            used += spec.enc_flat(&mut m.tb, &mut call.mem_at.clone(), &arg_slots[used..nargs], &v, t, tt, &format!("params.{i}"), Some(&bufs), &mut obls);
        }
        if used != nargs {
            structural.push(format!("flat parameters consumed {used} of {nargs} core values"));
        }
    }
    // results
    let ret = m.calls[returns[0]].clone();
    let mut rvalid = Vec::new();
    if let Some(rt) = &f.result {
        if ret.args.len() != 1 {
            structural.push("Return must carry the single result".into());
        } else if ss.retptr {
            let (_, size, align) = spec.record_layout(&[*rt]);
            let ptr = *arg_slots.last().unwrap();
            let d = designates(&mut m, ptr, "retarea", size, align);
            obls.push((format!("results: out-pointer designates a return area of size {size} align {align}"), d));
            let want = spec.load(&mut m.tb, &mut ret.mem_at.clone(), ptr, rt, tt, &mut rvalid);
            spec.val_eq(&mut m.tb, &ret.args[0], &want, tt, "result(retptr)", &mut obls);
        } else {
            // the host's core results are the fresh `ret` values
            let host: Vec<T> = {
                let mut v = Vec::new();
                for s in &block.stmts {
                    if let crate::ir::Op::CallWasm { .. } = s.op {
                        for r in &s.rets {
                            if let Some(Val::BV(t)) = m.env.get(r) {
                                v.push(*t);
                            }
                        }
                    }
                }
                v
            };
            let (want, used) = spec.lift_flat(&mut m.tb, &mut ret.mem_at.clone(), &host, rt, tt, &mut rvalid);
            if used != host.len() {
                structural.push("flat result arity".into());
            }
            spec.val_eq(&mut m.tb, &ret.args[0], &want, tt, "result(flat)", &mut obls);
        }
    } else if !ret.args.is_empty() {
        structural.push("Return carries a value but the function has no result".into());
    }
    let mut assumes = m.assumes.clone();
    assumes.extend(valid);
    assumes.extend(rvalid);
    Built::Ok(Program { m, assumes, queries: mk_queries(obls, "import/"), structural, ninstr, inputs })
}

/// Guest export: LiftArgsLowerResults; sync (`async_` = false) or the
/// callback-async flavour (`async_` = true, results via task.return).
/// Also runs post_return and checks C03's obligations on the result.
pub fn c02_export<'a>(cx: &Ctx<'a>, f: &Function, async_: bool, with_post_return: bool) -> Built<'a> {
    let variant = if async_ { AbiVariant::GuestExportAsync } else { AbiVariant::GuestExport };
    let rec = cx.record(|rec| abi::call(cx.resolve, variant, LiftLower::LiftArgsLowerResults, f, rec, async_));
    let (block, _, ninstr) = match rec {
        Ok(x) => x,
        Err(e) => return Built::Panic(e),
    };
    let spec = cx.spec();
    let ss = spec_sig(&spec, f, true, 16);
    let mut m = cx.machine();
    let pw = m.pw();
    let tt = m.tb.tt();
    let ptys = param_types(f);
    let mut inputs = Vec::new();
    let mut structural = Vec::new();
    let mut obls: Vec<Obl> = Vec::new();
    // incoming core arguments: arbitrary bit patterns
    let mut arg_slots = Vec::new();
    let in_params: Vec<Core> = if ss.indirect_params { vec![spec.ptr_core()] } else { ss.flat_params.clone() };
    let mut param_area = None;
    for (i, c) in in_params.iter().enumerate() {
        if ss.indirect_params {
            let (_, size, align) = spec.record_layout(&ptys);
            let sz = m.tb.bv(size as u128, pw);
            let a = m.alloc("param-area", sz, align, tt, true);
            param_area = Some((a, size, align));
            arg_slots.push(a);
            m.args.push(Val::BV(a));
        } else {
            let t = m.tb.fresh(&format!("core{i}"), Sort::BV(c.bits()));
            inputs.push((format!("core{i}"), Val::BV(t)));
            arg_slots.push(t);
            m.args.push(Val::BV(t));
        }
    }
    let mut m0 = m.mem.clone();
    // the user's return value: arbitrary valid value
    let mut valid = Vec::new();
    let mut uret = None;
    if let Some(rt) = &f.result {
        let v = spec.fresh(&mut m.tb, rt, "ret", &mut valid);
        inputs.push(("ret".into(), v.clone()));
        m.iface_results.push(v.clone());
        uret = Some(v);
    }
    if let Err(e) = m.run(&block, tt) {
        return Built::IllTyped(e);
    }
    let ifaces: Vec<usize> = (0..m.calls.len()).filter(|i| m.calls[*i].kind == "interface").collect();
    if ifaces.len() != 1 || m.calls.iter().any(|c| c.kind == "wasm") {
        structural.push(format!("{} interface calls (expected exactly one, and no core call)", ifaces.len()));
        return Built::Ok(Program { m, assumes: vec![], queries: vec![], structural, ninstr, inputs });
    }
    let call = m.calls[ifaces[0]].clone();
    // arguments seen by the user function
    let mut avalid = Vec::new();
    if call.args.len() != ptys.len() {
        structural.push("CallInterface arity".into());
    } else if ss.indirect_params {
        let (offs, _, _) = spec.record_layout(&ptys);
        for (i, t) in ptys.iter().enumerate() {
            let o = m.tb.bv(offs[i] as u128, pw);
            let a = m.tb.add(arg_slots[0], o);
            let want = spec.load(&mut m.tb, &mut m0, a, t, tt, &mut avalid);
            spec.val_eq(&mut m.tb, &call.args[i], &want, tt, &format!("arg{i}(indirect@{})", offs[i]), &mut obls);
        }
    } else {
        let mut used = 0;
        for (i, t) in ptys.iter().enumerate() {
            let (want, u) = spec.lift_flat(&mut m.tb, &mut m0, &arg_slots[used..], t, tt, &mut avalid);
            used += u;
            spec.val_eq(&mut m.tb, &call.args[i], &want, tt, &format!("arg{i}(flat)"), &mut obls);
        }
        if used != arg_slots.len() {
            structural.push("flat parameter arity".into());
        }
    }
    // caller-allocated parameter record: freed exactly once (sync only)
    let dealloc: Vec<_> = m.frees.iter().filter(|f| f.kind == "dealloc").cloned().collect();
    if !async_ {
        match (param_area, dealloc.len()) {
            (Some((a, size, align)), 1) => {
                let fr = &dealloc[0];
                let sz = m.tb.bv(size as u128, pw);
                let e1 = m.tb.eq(fr.addr, a);
                let e2 = m.tb.eq(fr.size, sz);
                let c = m.tb.and(&[e1, e2, fr.guard]);
                obls.push((format!("parameter record freed once with size {size} align {align}"), c));
                if fr.align != align {
                    structural.push(format!("parameter record freed with align {} (allocated with {align})", fr.align));
                }
            }
            (Some(_), n) => structural.push(format!("caller-allocated parameter record freed {n} times")),
            (None, 0) => {}
            (None, n) => structural.push(format!("{n} GuestDeallocate without an indirect parameter record")),
        }
    }
    // results
    let after_call_allocs = m.allocs.iter().position(|a| a.kind != "param-area").unwrap_or(m.allocs.len());
    let bufs = bufs_of(&m, after_call_allocs.min(m.allocs.len()), true);
    let mut retptr_val = None;
    if !async_ {
        let returns: Vec<usize> = (0..m.calls.len()).filter(|i| m.calls[*i].kind == "return").collect();
        if returns.len() != 1 || m.calls.iter().any(|c| c.kind == "task.return") {
            structural.push("expected exactly one Return".into());
        } else {
            let ret = m.calls[returns[0]].clone();
            match slots_from_vals(cx, &m, &ret.args, &ss.results, "Return") {
                Err(e) => structural.push(e),
                Ok(slots) => {
                    if let (Some(rt), Some(v)) = (&f.result, &uret) {
                        if ss.retptr {
                            let (_, size, align) = spec.record_layout(&[*rt]);
                            let d = designates(&mut m, slots[0], "retarea", size, align);
                            obls.push((format!("result: returned pointer designates a return area of size {size} align {align}"), d));
                            spec.enc_mem(&mut m.tb, &mut ret.mem_at.clone(), slots[0], v, rt, tt, "result(retarea)", Some(&bufs), &mut obls);
                            retptr_val = Some(slots[0]);
                        } else {
                            let used = spec.enc_flat(&mut m.tb, &mut ret.mem_at.clone(), &slots, v, rt, tt, "result(flat)", Some(&bufs), &mut obls);
                            if used != slots.len() {
                                structural.push("flat result arity".into());
                            }
                        }
                    }
                }
            }
        }
    } else {
        let trs: Vec<usize> = (0..m.calls.len()).filter(|i| m.calls[*i].kind == "task.return").collect();
        if trs.len() != 1 || m.calls.iter().any(|c| c.kind == "return") {
            structural.push(format!("{} task.return calls (expected exactly one, and no Return)", trs.len()));
        } else {
            let tr = m.calls[trs[0]].clone();
            // task.return takes the result flattened as parameters (max 16), else a pointer
            let want: Vec<Core> = if ss.flat_result.len() > 16 { vec![spec.ptr_core()] } else { ss.flat_result.clone() };
            let got: Vec<Core> = tr.params.iter().map(|w| cx.wt_core(*w)).collect();
            if got != want {
                structural.push(format!("task.return core params {:?}, canonical {:?}", got, want));
            } else if let (Some(rt), Some(v)) = (&f.result, &uret) {
                match slots_from_vals(cx, &m, &tr.args, &want, "task.return") {
                    Err(e) => structural.push(e),
                    Ok(slots) => {
                        let bufs_any = bufs_of(&m, 0, false);
                        if ss.flat_result.len() > 16 {
                            spec.enc_mem(&mut m.tb, &mut tr.mem_at.clone(), slots[0], v, rt, tt, "task.return(indirect)", Some(&bufs_any), &mut obls);
                        } else {
                            spec.enc_flat(&mut m.tb, &mut tr.mem_at.clone(), &slots, v, rt, tt, "task.return(flat)", Some(&bufs_any), &mut obls);
                        }
                    }
                }
            }
        }
    }
    let mut queries = mk_queries(obls, if async_ { "export-async/" } else { "export/" });

    // post-return (C03): frees exactly the buffers the result lowering made
    if with_post_return && !async_ {
        let needs = abi::guest_export_needs_post_return(cx.resolve, f);
        let want_needs = f.result.as_ref().map(|t| spec.has_heap(t)).unwrap_or(false);
        let params_alloc = abi::guest_export_params_have_allocations(cx.resolve, f);
        let want_params_alloc = f.params.iter().any(|p| spec.has_heap(&p.ty));
        if params_alloc != want_params_alloc {
            structural.push(format!(
                "guest_export_params_have_allocations = {params_alloc}, but the parameters {} a heap buffer",
                if want_params_alloc { "contain" } else { "do not contain" }
            ));
        }
        if needs != want_needs {
            structural.push(format!(
                "guest_export_needs_post_return = {needs}, but the result {} a heap buffer",
                if want_needs { "contains" } else { "does not contain" }
            ));
        }
        if needs {
            let rec = cx.record(|rec| abi::post_return(cx.resolve, f, rec));
            match rec {
                Err(e) => structural.push(format!("post_return generator panicked: {e}")),
                Ok((pb, _, _)) => {
                    if let Some(ptr) = retptr_val {
                        let nfree0 = m.frees.len();
                        m.env.clear();
                        m.args = vec![Val::BV(ptr)];
                        match m.run(&pb, tt) {
                            Err(e) => structural.push(format!("post_return stream ill-typed: {e}")),
                            Ok(_) => {
                                let from = m.allocs.iter().position(|a| a.kind == "retarea").map(|p| p + 1).unwrap_or(0);
                                let o = ledger_obligations(&mut m, from, nfree0);
                                queries.extend(mk_queries(o, "post-return/"));
                            }
                        }
                    } else {
                        structural.push("post_return needed but the result is not returned through a return area".into());
                    }
                }
            }
        }
    }
    let mut assumes = m.assumes.clone();
    assumes.extend(valid);
    assumes.extend(avalid);
    Built::Ok(Program { m, assumes, queries, structural, ninstr, inputs })
}

// ------------------------------------------------------------------ C03

/// Ledger matching between allocations `allocs[from..]` that were handed
/// over (transferred) and frees `frees[nfree0..]`:
///  * every non-empty transferred buffer is freed exactly once, with the
///    size and alignment it was allocated with;
///  * every non-empty free releases such a buffer.
pub fn ledger_obligations(m: &mut Machine, from: usize, nfree0: usize) -> Vec<Obl> {
    let pw = m.pw();
    let mut out = Vec::new();
    let allocs: Vec<_> = m.allocs[from..]
        .iter()
        .filter(|a| a.transferred && matches!(a.kind, "list" | "map" | "string" | "list-canon"))
        .cloned()
        .collect();
    let frees: Vec<_> = m.frees[nfree0..].to_vec();
    let zero = m.tb.bv(0, pw);
    for (i, a) in allocs.iter().enumerate() {
        let nz = {
            let e = m.tb.eq(a.size, zero);
            m.tb.not(e)
        };
        let pre = m.tb.and2(a.guard, nz);
        // count matching frees
        let mut cnt = m.tb.bv(0, 8);
        let mut good = Vec::new();
        for f in &frees {
            let fnz = {
                let e = m.tb.eq(f.size, zero);
                m.tb.not(e)
            };
            let same = m.tb.eq(f.addr, a.addr);
            let hit = m.tb.and(&[f.guard, fnz, same]);
            let one = m.tb.bv(1, 8);
            let z8 = m.tb.bv(0, 8);
            let inc = m.tb.ite(hit, one, z8);
            cnt = m.tb.add(cnt, inc);
            let szok = m.tb.eq(f.size, a.size);
            let alok = m.tb.boolc(f.align == a.align);
            let ok = m.tb.and(&[szok, alok]);
            good.push(m.tb.implies(hit, ok));
        }
        let one = m.tb.bv(1, 8);
        let exactly = m.tb.eq(cnt, one);
        let c = m.tb.implies(pre, exactly);
        out.push((format!("alloc#{i}({}, align {}) freed exactly once", a.kind, a.align), c));
        let g = m.tb.and(&good);
        let c = m.tb.implies(pre, g);
        out.push((format!("alloc#{i}({}) freed with its own size and alignment", a.kind), c));
    }
    for (j, f) in frees.iter().enumerate() {
        let fnz = {
            let e = m.tb.eq(f.size, zero);
            m.tb.not(e)
        };
        let pre = m.tb.and2(f.guard, fnz);
        let mut alts = Vec::new();
        for a in &allocs {
            let same = m.tb.eq(f.addr, a.addr);
            alts.push(m.tb.and2(a.guard, same));
        }
        let some = m.tb.or(&alts);
        let c = m.tb.implies(pre, some);
        out.push((format!("free#{j}({}) releases a buffer the lowering allocated", f.kind), c));
    }
    out
}

/// multiset of dropped handles == owned handles of v
fn handle_obligations(m: &mut Machine, expected: &[(T, T)], ndrop0: usize, own_mode: bool) -> Vec<Obl> {
    let mut out = Vec::new();
    let drops: Vec<(T, T)> = m.drops[ndrop0..].to_vec();
    if !own_mode {
        for (j, (g, _)) in drops.iter().enumerate() {
            let c = m.tb.not(*g);
            out.push((format!("lists-only mode drops no handle (drop#{j})"), c));
        }
        return out;
    }
    let count = |m: &mut Machine, set: &[(T, T)], h: T| -> T {
        let mut cnt = m.tb.bv(0, 8);
        for (g, x) in set {
            let same = m.tb.eq(*x, h);
            let hit = m.tb.and2(*g, same);
            let one = m.tb.bv(1, 8);
            let z = m.tb.bv(0, 8);
            let inc = m.tb.ite(hit, one, z);
            cnt = m.tb.add(cnt, inc);
        }
        cnt
    };
    for (i, (g, h)) in expected.iter().enumerate() {
        let a = count(m, &drops, *h);
        let b = count(m, expected, *h);
        let e = m.tb.eq(a, b);
        let c = m.tb.implies(*g, e);
        out.push((format!("owned handle #{i} dropped exactly as often as it occurs"), c));
    }
    for (j, (g, h)) in drops.iter().enumerate() {
        let a = count(m, &drops, *h);
        let b = count(m, expected, *h);
        let e = m.tb.eq(a, b);
        let c = m.tb.implies(*g, e);
        out.push((format!("drop#{j} releases an owned handle of the value"), c));
    }
    out
}

/// lower (with realloc) then run the deallocation stream on the lowered
/// representation; `indirect`: through memory, else on flat operands.
pub fn c03_dealloc<'a>(cx: &Ctx<'a>, ty: &Type, indirect: bool, own_mode: bool) -> Built<'a> {
    let spec = cx.spec();
    let (addr_v, val_v) = (1_000_000usize, 1_000_001usize);
    let flat = spec.flatten(ty);
    if !indirect && flat.len() > 16 {
        return Built::Skip("more than 16 flat values: direct operands not applicable".into());
    }
    let r1 = if indirect {
        cx.record(|rec| {
            abi::lower_to_memory(cx.resolve, rec, addr_v, val_v, ty);
            vec![addr_v]
        })
    } else {
        cx.record(|rec| abi::lower_flat(cx.resolve, rec, val_v, ty))
    };
    let (b1, operands, n1) = match r1 {
        Ok(x) => x,
        Err(e) => return Built::Panic(e),
    };
    let r2 = cx.record(|rec| {
        if own_mode {
            abi::deallocate_lists_and_own_in_types(cx.resolve, &[*ty], &operands, indirect, rec)
        } else {
            abi::deallocate_lists_in_types(cx.resolve, &[*ty], &operands, indirect, rec)
        }
    });
    let (b2, _, n2) = match r2 {
        Ok(x) => x,
        Err(e) => return Built::Panic(format!("deallocation generator: {e}")),
    };
    let mut m = cx.machine();
    let pw = m.pw();
    let tt = m.tb.tt();
    let size = m.tb.bv(spec.size(ty) as u128, pw);
    let base = m.alloc("base", size, spec.align(ty), tt, false);
    let mut valid = Vec::new();
    let v = spec.fresh(&mut m.tb, ty, "v", &mut valid);
    m.env.insert(addr_v, Val::BV(base));
    m.env.insert(val_v, v.clone());
    if let Err(e) = m.run(&b1, tt) {
        return Built::IllTyped(e);
    }
    // keep env: the deallocation stream refers to the lowering's operands
    if let Err(e) = m.run(&b2, tt) {
        return Built::IllTyped(format!("deallocation stream: {e}"));
    }
    let mut obls = ledger_obligations(&mut m, 1, 0);
    // reference: the buffers the spec's store allocates
    let mut want_bufs = Vec::new();
    spec.heap_buffers(&mut m.tb, &v, ty, tt, &mut want_bufs);
    let mut structural = Vec::new();
    let have: usize = m.allocs[1..].iter().filter(|a| a.transferred).count();
    if have != want_bufs.len() {
        structural.push(format!("lowering allocates {have} buffers, the value has {} (reference)", want_bufs.len()));
    }
    let mut expected = Vec::new();
    spec.owned_handles(&mut m.tb, &v, ty, tt, &mut expected);
    obls.extend(handle_obligations(&mut m, &expected, 0, own_mode));
    let mut assumes = m.assumes.clone();
    assumes.extend(valid);
    let prefix = format!(
        "dealloc[{}{}]/",
        if indirect { "indirect" } else { "direct" },
        if own_mode { ",lists+own" } else { ",lists" }
    );
    Built::Ok(Program {
        m,
        assumes,
        queries: mk_queries(obls, &prefix),
        structural,
        ninstr: n1 + n2,
        inputs: vec![("v".into(), v)],
    })
}

// ------------------------------------------------------------------ C04

/// For one variant-like type: every (payload flat type, joined flat type)
/// pair the generator feeds to `abi::cast`, decided over all bit patterns:
/// down(up(x)) == x and up(x) == the canonical coercion (zero-extension /
/// reinterpretation to the reference join's core type).
pub fn c04_casts<'a>(cx: &Ctx<'a>, ty: &Type, cases: &[Option<Type>]) -> Built<'a> {
    let spec = cx.spec();
    let joined_ref = spec.flatten(ty);
    let joined = match catch_unwind(AssertUnwindSafe(|| abi::flat_types(cx.resolve, ty, None))) {
        Ok(Some(j)) => j,
        Ok(None) => return Built::Skip("more than 16 flat values".into()),
        Err(e) => return Built::Panic(panic_msg(e)),
    };
    let mut m = cx.machine();
    let mut obls = Vec::new();
    let mut structural = Vec::new();
    let jc: Vec<Core> = joined.iter().map(|w| cx.wt_core(*w)).collect();
    if jc != joined_ref {
        structural.push(format!("TRUSTED-BASE-DISAGREEMENT flat_types {:?} vs reference join {:?}", jc, joined_ref));
    }
    for (ci, c) in cases.iter().enumerate() {
        let Some(c) = c else { continue };
        let cf = abi::flat_types(cx.resolve, c, None).unwrap();
        let cf_ref = spec.flatten(c);
        for (k, (from, to)) in cf.iter().zip(&joined[1..]).enumerate() {
            let up = catch_unwind(AssertUnwindSafe(|| abi::cast(*from, *to)));
            let down = catch_unwind(AssertUnwindSafe(|| abi::cast(*to, *from)));
            let (up, down) = match (up, down) {
                (Ok(u), Ok(d)) => (u, d),
                (Err(e), _) | (_, Err(e)) => {
                    structural.push(format!("cast({:?}, {:?}) panics: {}", from, to, panic_msg(e)));
                    continue;
                }
            };
            let mut upc = Vec::new();
            crate::ir::flatten_cast(&up, &mut upc);
            let mut downc = Vec::new();
            crate::ir::flatten_cast(&down, &mut downc);
            let wf = m.wt_bits(*from);
            let x = m.tb.fresh(&format!("x.c{ci}.s{k}"), Sort::BV(wf));
            let mut y = x;
            let mut bad = None;
            for c in &upc {
                match cast_pub(&mut m, *c, y) {
                    Ok(t) => y = t,
                    Err(e) => bad = Some(e),
                }
            }
            let mut z = y;
            for c in &downc {
                match cast_pub(&mut m, *c, z) {
                    Ok(t) => z = t,
                    Err(e) => bad = Some(e),
                }
            }
            if let Some(e) = bad {
                structural.push(format!("cast({:?}->{:?}) = {:?}/{:?}: {e}", from, to, up, down));
                continue;
            }
            if m.tb.width(z) != wf {
                structural.push(format!("cast round trip {:?}->{:?}->{:?} changes width", from, to, from));
                continue;
            }
            let rt = m.tb.eq(z, x);
            obls.push((format!("c{ci}.slot{k} {:?}->{:?} ({:?}) then back ({:?}) is the identity", from, to, up, down), rt));
            // canonical coercion: reference widths, zero-extension of the bits
            let want_w = joined_ref.get(1 + k).map(|c| c.bits()).unwrap_or(0);
            let from_ref_w = cf_ref.get(k).map(|c| c.bits()).unwrap_or(0);
            if m.tb.width(y) != want_w || wf != from_ref_w {
                structural.push(format!(
                    "cast {:?}->{:?} yields {} bits from {} bits; reference join needs {} from {}",
                    from, to, m.tb.width(y), wf, want_w, from_ref_w
                ));
                continue;
            }
            let want = m.tb.zext_to(x, want_w);
            let e = m.tb.eq(y, want);
            obls.push((format!("c{ci}.slot{k} {:?}->{:?} is the canonical coercion (reinterpret / zero-extend)", from, to), e));
            // and the lifting direction wraps
            let j = m.tb.fresh(&format!("j.c{ci}.s{k}"), Sort::BV(want_w));
            let mut d = j;
            for c in &downc {
                if let Ok(t) = cast_pub(&mut m, *c, d) {
                    d = t;
                }
            }
            let wantd = m.tb.extract(wf - 1, 0, j);
            let e = m.tb.eq(d, wantd);
            obls.push((format!("c{ci}.slot{k} {:?}->{:?} is the canonical wrap / reinterpret", to, from), e));
        }
    }
    let assumes = m.assumes.clone();
    Built::Ok(Program { m, assumes, queries: mk_queries(obls, "cast/"), structural, ninstr: 0, inputs: vec![] })
}

fn cast_pub(m: &mut Machine, c: crate::ir::Cast, x: T) -> R<T> {
    // a one-statement stream: Bitcasts([c])
    use crate::ir::{Op, Stmt};
    let b = Block {
        stmts: vec![Stmt { op: Op::Bitcasts(vec![vec![c]]), args: vec![0], rets: vec![1], blocks: vec![] }],
        results: vec![1],
    };
    m.env.insert(0, Val::BV(x));
    let tt = m.tb.tt();
    let r = m.run(&b, tt)?;
    match &r[0] {
        Val::BV(t) => Ok(*t),
        _ => Err("cast result".into()),
    }
}
