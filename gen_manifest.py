#!/usr/bin/env python3
"""Regenerates MANIFEST.json from the table below (single source of truth)."""
import json, os
HERE = os.path.dirname(os.path.abspath(__file__))

GUARD = "bytecodealliance_wit_bindgen_verif"
BASELINE = ("cd /repo && cargo nextest run --workspace --no-fail-fast --test-threads 8 --offline "
            "|| cargo test --workspace --no-fail-fast --offline")

# property -> (engine, level category, technique, level text, level note, design ref)
CLAIMED = {}

NA_COMMON_A = ("quantifier is WIT worlds judged by an external toolchain/process (rustc-wasm32, clang/wasm-ld, g++, "
               "wit-component, wasmtime, other-language compilers) that is absent here or is not something a solver executes; "
               "enumerating worlds and running compilers would be exploration, a different technique (DESIGN §5)")
NOT_APPLICABLE = {
    "C08": "generated async glue is function-local (not addressable natively) and runs under the export executor that CBMC "
           "cannot symbolically execute (BTreeMap + dyn fmt fan-out, DESIGN §E3/L2); shared-generator half is in C02, runtime half in C21",
    "C09": NA_COMMON_A, "C12": NA_COMMON_A, "C31": NA_COMMON_A,
    "C13": "per-world string/signature comparison over whole backends; no value domain to make symbolic; " + NA_COMMON_A,
    "C15": "the varying quantity is OS-seeded hash state/address layout of separate processes; not expressible as a symbolic input to any engine here",
    "C16": NA_COMMON_A,
    "C28": "inputs are type graphs inside a fully built Resolve (IndexMap/arena/String-heavy); Kani cannot carry it (a one-entry BTreeMap already exceeds 16 GB) and an SMT re-model would verify the model, not the code",
    "C29": "goes through pulldown-cmark event streams and HTML rendering of whole worlds; same reason as C28 (push_str_literal part is C25)",
    "C30": "whole-output property over generated moon.pkg.json files for worlds; the only solver-sized kernel (alias allocation via Ns::tmp) is C26",
    "C32": "proc-macro + file system + cargo dep-info; nothing a solver executes",
    "C33": "process + file system; the comparison logic is inline in main()",
    "C22": "executor loop (start_task/callback/block_on) cannot be symbolically executed by Kani within memory/time: BTreeMap<u32,_> OOMs CBMC at 16 GB and a single yield_async().await never finishes symex (core::fmt dyn fan-out) — probed, DESIGN §E3/L2",
    "C23": "wake_by_ref/inter-task wakeup only mean something inside the executor callback loop; same blocker as C22",
}
PENDING = "engine not built yet in this session (planned, see DESIGN §4); not claimed until its check runs green"

def main():
    props = [json.loads(l)["id"] for l in open(os.path.join(HERE, "properties.jsonl"))]
    checks = []
    for pid in props:
        if pid in CLAIMED:
            c = CLAIMED[pid]
            checks.append({
                "property_id": pid,
                "quick_cmd": "./check %s --tier quick" % pid,
                "thorough_cmd": "./check %s --tier thorough" % pid,
                "evidence_file": "/verif/evidence/%s.json" % pid,
                "replay_cmd_template": "./check %s --replay {path}" % pid,
                "engine": c["engine"],
                "level_claimed": {"category": c["level"], "text": c["text"], "design_ref": c["ref"]},
                "level_note": c["note"],
                "technique": c["technique"],
            })
    na = []
    for pid in props:
        if pid in CLAIMED:
            continue
        na.append({"property_id": pid, "reason": NOT_APPLICABLE.get(pid, PENDING)})
    hooks_file = os.path.join(HERE, "hooks.json")
    hooks = json.load(open(hooks_file)) if os.path.exists(hooks_file) else {"source_commits": [], "add_only": True}
    m = {
        "version": 1,
        "setup_cmd": "./setup.sh",
        "hooks": {
            "guard": "--cfg " + GUARD,
            "enable": "RUSTFLAGS='--cfg %s' on the out-of-tree harness crates that take /repo by path dependency (lib/vlib.py cargo_env)" % GUARD,
            "baseline_off_cmd": BASELINE,
            "source_commits": hooks["source_commits"],
            "add_only": hooks["add_only"],
        },
        "engines": ENGINES,
        "checks": checks,
        "notes": "Solver-based checking of the real code; every check = ./check <ID>; exit 0 ok / 1 VIOLATION / 2 inconclusive. See DESIGN.md.",
        "not_applicable": na,
    }
    json.dump(m, open(os.path.join(HERE, "MANIFEST.json"), "w"), indent=1)
    print("claimed:", [c["property_id"] for c in checks])

ENGINES = []
try:
    from manifest_table import CLAIMED as _C, ENGINES as _E  # filled in as engines land
    CLAIMED.update(_C); ENGINES = _E
except ImportError:
    pass

if __name__ == "__main__":
    main()
