"""Engine E6 `rs2smt` (C17, C25, C26, C27, C34).

A symbolic interpreter (/verif/rs2smt/*.py, run under python3-vt) for the small
Rust subset used by the string/collection helpers of wit-bindgen.  On every run

  1. `rs2smt-ast` (syn, /verif/rs2smt/ast) parses the CURRENT source files of
     /repo into a JSON AST,
  2. the interpreter executes the target functions over symbolic bounded
     strings / integers / small collections (state merging; library models in
     models.py + bstr.py),
  3. each obligation is written as an SMT-LIB2 (QF_BV) script with the negated,
     independently written oracle and decided by z3-new (cvc5 / z3 4.8.12 as a
     second opinion); `unsat` = holds for every value within the bound,
  4. a `sat` model is replayed through the natively compiled real code
     (/verif/rs2smt/native, path dependency on /repo) before it is reported.
"""
from __future__ import annotations

import json
import os
import sys

import vlib

HERE = os.path.join(vlib.VERIF, "rs2smt")
PY = "python3-vt"


def _native_dir() -> tuple:
    """the native harness crate names /repo by absolute path; when VERIF_REPO
    points elsewhere (self-tests on a mutated copy) a copy of the crate with
    the paths substituted is generated under /verif/work and built into its own
    target directory"""
    if os.path.realpath(vlib.REPO) == "/repo":
        return os.path.join(HERE, "native"), vlib.TARGET_DIR
    import hashlib
    tag = hashlib.sha256(os.path.realpath(vlib.REPO).encode()).hexdigest()[:8]
    d = os.path.join(vlib.WORK_DIR, "rs2smt", "native_" + tag)
    os.makedirs(os.path.join(d, "src"), exist_ok=True)
    for rel in ("Cargo.toml", "src/main.rs", "Cargo.lock"):
        src = os.path.join(HERE, "native", rel)
        if not os.path.exists(src):
            continue
        text = open(src).read().replace('"/repo/', '"%s/' % os.path.realpath(vlib.REPO))
        text = text.replace('path = "../toml_shim"', 'path = "%s"' % os.path.join(HERE, "toml_shim"))
        dst = os.path.join(d, rel)
        if not os.path.exists(dst) or open(dst).read() != text:
            with open(dst, "w") as f:
                f.write(text)
    return d, os.path.join(vlib.WORK_DIR, "rs2smt", "target_" + tag)


def _build() -> list:
    """(re)build the two helper binaries against the repository's working tree"""
    problems = []
    env = vlib.cargo_env(hooks=False)
    env["RUSTFLAGS"] = ""
    lock = os.path.join(HERE, "native", "Cargo.lock")
    if not os.path.exists(lock):
        try:
            import shutil
            shutil.copy(os.path.join(vlib.REPO, "Cargo.lock"), lock)
        except OSError:
            pass
    ndir, ntarget = _native_dir()
    os.environ["RS2SMT_NATIVE_BIN"] = os.path.join(ntarget, "debug", "rs2smt-native")
    for sub, args, cwd, tgt in (("ast", ["--release"], os.path.join(HERE, "ast"), vlib.TARGET_DIR),
                                ("native", [], ndir, ntarget)):
        env["CARGO_TARGET_DIR"] = tgt
        rc, out, dt = vlib.run_cmd(["cargo", "build", "--offline", "-j", "4"] + args, cwd=cwd,
                                   env=env, timeout=1200,
                                   log=os.path.join(vlib.WORK_DIR, "rs2smt", "build_%s.log" % sub))
        if rc != 0:
            tail = "\n".join(out.strip().splitlines()[-12:])
            problems.append("cargo build of rs2smt/%s failed (rc=%s): %s" % (sub, rc, tail))
    return problems


def run(prop_id: str, tier: str, seed: int) -> vlib.Outcome:
    out = vlib.Outcome(level="proof")
    out.checker_cmd = ("rs2smt-ast (syn) -> rs2smt/main.py run %s %s %d (symbolic interpreter) -> SMT-LIB2 QF_BV -> "
                       "z3-new -T:%d (second opinion: cvc5, z3 4.8.12) -> native replay rs2smt-native"
                       % (prop_id, tier, seed, 300 if tier == "thorough" else 60))
    probs = _build()
    if probs:
        out.inconclusive += probs
        return out
    rc, text, dt = vlib.run_cmd([PY, os.path.join(HERE, "main.py"), "run", prop_id, tier, str(seed)], cwd=HERE,
                                timeout=3600 if tier == "thorough" else 1500, mem_gb=24,
                                log=os.path.join(vlib.WORK_DIR, "rs2smt", "%s_run.log" % prop_id))
    res = None
    for line in text.splitlines():
        if line.startswith("RS2SMT-RESULT "):
            res = json.loads(line[len("RS2SMT-RESULT "):])
    if res is None:
        out.inconclusive.append("rs2smt produced no result (rc=%s): %s" % (rc, text.strip()[-600:]))
        return out
    out.obligations = res["obligations"]
    out.discharged = res["discharged"]
    for v in res["violations"]:
        out.violations.append(vlib.Violation(role=v["role"], what=v["what"], replay=v.get("replay"), witness=v.get("witness")))
    out.inconclusive += res["inconclusive"]
    out.samples = res["samples"]
    out.bounds = res["bounds"]
    out.outside_claim = res["outside_claim"]
    out.assumptions = res["assumptions"]
    out.trusted_base = res["trusted_base"]
    out.queries = res["queries"]
    out.solver_s = res["solver_s"]
    for f, pat in res["functions"]:
        out.functions_encoded.append(vlib.source_span(f, pat))
    out.extra = dict(res.get("extra", {}))
    out.extra["solver_runs"] = res.get("by_solver", {})
    out.extra["second_opinion_agreements"] = res.get("diffs", 0)
    out.extra["smt2_dir"] = os.path.join(vlib.WORK_DIR, "rs2smt", prop_id)
    out.extra["rule"] = ("one evaluation per external solver run on an emitted SMT-LIB2 script (lemma queries of the "
                         "interpreter are counted separately in lemma_queries); an obligation is the conjunction of the "
                         "per-call oracle clauses of one class over all inputs within the bound")
    return out


def replay(prop_id: str, path: str) -> int:
    probs = _build()
    if probs:
        print("\n".join(probs))
        return 2
    rc, text, dt = vlib.run_cmd([PY, os.path.join(HERE, "main.py"), "replay", prop_id, path], cwd=HERE, timeout=600)
    sys.stdout.write(text)
    return rc
