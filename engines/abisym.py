"""E1 abisym: C01-C04 -- symbolic execution of the instruction streams emitted
by the real shared generator (crates/core/src/abi.rs), decided by an SMT solver
against a reference model of the canonical ABI (abisym/src/spec.rs)."""
from __future__ import annotations

import json
import os
import shutil
import time

import vlib

CRATE_SRC = os.path.join(vlib.VERIF, "abisym")
BUILD_DIR = os.path.join(vlib.WORK_DIR, "abisym_crate")
OUT_DIR = os.path.join(vlib.WORK_DIR, "abisym")

FAMILY_DOC = {
    "lower-mem": "abi::lower_to_memory(base, v): final memory == spec.store(v) bytewise, list pointers designate buffers of the spec's size/align, every store stays inside the value or its buffers",
    "lower-flat": "abi::lower_flat(v): every flat slot == spec.lower_flat(v) incl. zero padding and zero-extended joins",
    "lift-mem": "abi::lift_from_memory on arbitrary spec-valid memory == spec.load",
    "roundtrip-mem": "lift_from_memory(lower_to_memory(v)) == v",
    "lift-flat+export": "abi::call(GuestExport, LiftArgsLowerResults): lifted arguments == spec.lift_flat/load of arbitrary core values; result lowered per spec",
    "import-sync": "abi::call(GuestImport, LowerArgsLiftResults, sync)",
    "export-sync": "abi::call(GuestExport, LiftArgsLowerResults, sync)",
    "export-async": "abi::call(GuestExportAsync, LiftArgsLowerResults, async): task.return operands",
    "dealloc-indirect-lists": "lower_to_memory then deallocate_lists_in_types(indirect)",
    "dealloc-indirect-own": "lower_to_memory then deallocate_lists_and_own_in_types(indirect)",
    "dealloc-direct-lists": "lower_flat then deallocate_lists_in_types(direct operands)",
    "dealloc-direct-own": "lower_flat then deallocate_lists_and_own_in_types(direct operands)",
    "export+post-return": "export glue followed by abi::post_return; guest_export_needs_post_return vs reference",
    "casts": "abi::cast(from,to)/cast(to,from) for every slot pair flat_types produces: identity round trip, canonical zero-extend/wrap",
}

ENCODED = {
    "C01": [("crates/core/src/abi.rs", "fn lower(&mut self, ty: &Type)"), ("crates/core/src/abi.rs", "fn lower_variant_arms"),
            ("crates/core/src/abi.rs", "fn lift(&mut self, ty: &Type)"), ("crates/core/src/abi.rs", "fn flat_for_each_variant_arm"),
            ("crates/core/src/abi.rs", "fn write_to_memory"), ("crates/core/src/abi.rs", "fn write_variant_arms_to_memory"),
            ("crates/core/src/abi.rs", "fn write_list_to_memory"), ("crates/core/src/abi.rs", "fn write_fields_to_memory"),
            ("crates/core/src/abi.rs", "fn read_from_memory"), ("crates/core/src/abi.rs", "fn read_variant_arms_from_memory"),
            ("crates/core/src/abi.rs", "fn read_list_from_memory"), ("crates/core/src/abi.rs", "pub fn cast("),
            ("crates/core/src/abi.rs", "pub fn flat_types(")],
    "C02": [("crates/core/src/abi.rs", "fn call(&mut self, func: &Function"), ("crates/core/src/abi.rs", "fn post_return(&mut self"),
            ("crates/core/src/abi.rs", "pub fn flat_types(")],
    "C03": [("crates/core/src/abi.rs", "fn deallocate(&mut self, ty: &Type"), ("crates/core/src/abi.rs", "fn deallocate_indirect("),
            ("crates/core/src/abi.rs", "fn deallocate_indirect_variant"), ("crates/core/src/abi.rs", "fn deallocate_in_types("),
            ("crates/core/src/abi.rs", "fn needs_deallocate("), ("crates/core/src/abi.rs", "fn post_return(&mut self"),
            ("crates/core/src/abi.rs", "pub fn guest_export_needs_post_return")],
    "C04": [("crates/core/src/abi.rs", "pub fn cast("), ("crates/core/src/abi.rs", "fn lower_variant_arms"),
            ("crates/core/src/abi.rs", "fn flat_for_each_variant_arm"), ("crates/core/src/abi.rs", "pub fn flat_types(")],
}


def build(log: str):
    """Builds abisym against vlib.REPO's current working tree."""
    os.makedirs(BUILD_DIR, exist_ok=True)
    cargo = open(os.path.join(CRATE_SRC, "Cargo.toml")).read()
    cargo = cargo.replace('path = "/repo/crates/core"', 'path = "%s/crates/core"' % vlib.REPO)
    cargo = cargo.replace("[dependencies]", '[[bin]]\nname = "abisym"\npath = "%s/src/main.rs"\n\n[dependencies]' % CRATE_SRC)
    with open(os.path.join(BUILD_DIR, "Cargo.toml"), "w") as f:
        f.write(cargo)
    shutil.copy(os.path.join(vlib.REPO, "Cargo.lock"), os.path.join(BUILD_DIR, "Cargo.lock"))
    env = vlib.cargo_env(hooks=False)
    env["RUSTFLAGS"] = ""
    rc, out, dt = vlib.run_cmd(["cargo", "build", "--release", "--quiet"], cwd=BUILD_DIR, env=env, timeout=1500, log=log)
    return rc, out, dt


def role_of(prop: str, item: dict, failing: dict) -> str:
    """Stable key: property / engine / family / failure kind / obligation class
    (digits of paths removed) / pointer width -- never the witness."""
    import re
    name = failing.get("name", "")
    name = name.split("/", 1)[-1] if "/" in name[:24] else name
    cls = re.sub(r"\[\d+\]", "[i]", name)
    cls = re.sub(r"#\d+", "#k", cls)
    cls = re.sub(r"\.c\d+", ".cK", cls)
    cls = re.sub(r"\.\d+", ".N", cls)
    cls = re.sub(r"\d+", "N", cls)[:80]
    return "%s/abisym/%s/%s/%s" % (prop, item["family"], item.get("kind", "?"), cls)


def run(prop_id: str, tier: str, seed: int) -> vlib.Outcome:
    out = vlib.Outcome(level="translation_validation")
    os.makedirs(OUT_DIR, exist_ok=True)
    rc, text, dt = build(os.path.join(OUT_DIR, "build_%s.log" % prop_id))
    if rc != 0:
        out.inconclusive.append("abisym does not build against %s: %s" % (vlib.REPO, text[-600:]))
        return out
    binary = os.path.join(vlib.TARGET_DIR, "release", "abisym")
    res = os.path.join(OUT_DIR, "%s_%s.json" % (prop_id, tier))
    jobs = int(os.environ.get("VERIF_JOBS", "14"))
    timeout = 150 if tier == "quick" else 400
    cmd = [binary, "--prop", prop_id, "--tier", tier, "--seed", str(seed), "--jobs", str(jobs), "--out", res,
           "--timeout", str(timeout), "--solver", "z3-new",
           "--cvc5-every", "40" if tier == "quick" else "7"]
    if os.path.exists(res):
        os.remove(res)
    rc, text, dt2 = vlib.run_cmd(cmd, cwd=OUT_DIR, timeout=3000 if tier == "quick" else 10000,
                                 log=os.path.join(OUT_DIR, "run_%s.log" % prop_id))
    if rc != 0 or not os.path.exists(res):
        out.inconclusive.append("abisym exited with %s: %s" % (rc, text[-800:]))
        return out
    doc = json.load(open(res))
    items = doc["items"]
    # Oracle self-test (thorough tier, C01 only): with a deliberately wrong
    # reference the same machinery must report violations, else it is blind.
    if tier == "thorough" and prop_id == "C01":
        selftest = {}
        for mut, flt, what in ((1, "u64", "64-bit alignment 4"), (2, "lower-flat/s", "signed ints zero-extended in flat form"),
                               (3, "lower-flat/option<", "unused variant slots must be 1")):
            sres = os.path.join(OUT_DIR, "selftest_%d.json" % mut)
            scmd = [binary, "--prop", "C01", "--tier", "quick", "--jobs", str(jobs), "--out", sres, "--timeout", "60",
                    "--solver", "z3-new", "--mutate-oracle", str(mut), "--filter", flt]
            vlib.run_cmd(scmd, cwd=OUT_DIR, timeout=1800)
            try:
                sit = json.load(open(sres))["items"]
            except Exception:
                sit = []
            nviol = len([i for i in sit if i["status"] == "violation"])
            selftest["oracle-mutation-%d (%s)" % (mut, what)] = {"programs": len(sit), "violations_reported": nviol}
            if nviol == 0:
                out.inconclusive.append("oracle self-test %d (%s) reported no violation: the check is blind to it" % (mut, what))
        out.extra["mutated_oracle_selftest"] = selftest
    out.checker_cmd = " ".join(cmd)
    out.programs = 0
    fams = {}
    nontrivial = 0
    cvc5 = 0
    tbd = []
    for it in items:
        st = it["status"]
        fam = fams.setdefault(it["family"], {"programs": 0, "ok": 0, "violation": 0, "inconclusive": 0, "skip": 0, "obligations": 0})
        fam[st] = fam.get(st, 0) + 1
        if st == "skip":
            continue
        fam["programs"] += 1
        out.programs += 1
        nob = it.get("obligations", 1)
        fam["obligations"] += nob
        out.obligations += nob
        out.queries += it.get("queries", 0)
        out.solver_s += it.get("solver_s", 0.0)
        if it.get("cvc5_checked"):
            cvc5 += 1
        if it.get("trusted_base_disagreement"):
            tbd.append({"name": it["name"], "p": it["p"], "what": it["trusted_base_disagreement"]})
        if st == "ok":
            out.discharged += it.get("discharged", 0)
            if not it.get("trivial"):
                nontrivial += 1
        elif st == "inconclusive":
            out.inconclusive.append("%s %s p=%s canon=%s: %s" % (it["family"], it["name"][:60], it["p"], it["canon"], str(it.get("why"))[:200]))
        elif st == "violation":
            out.discharged += it.get("discharged", 0)
            out.disagreements_checked += len(it.get("failing", []))
            roles_seen = set()
            for f in it.get("failing", []):
                role = role_of(prop_id, it, f)
                if role in roles_seen:
                    continue
                roles_seen.add(role)
                payload = {"property": prop_id, "engine": "abisym", "item": {k: it[k] for k in ("family", "name", "p", "canon", "len_bound")},
                           "failing": f, "how_to_replay": "./check %s --replay <this file>" % prop_id}
                path = vlib.write_replay(prop_id, "%s_%s_p%s_c%s_%s" % (it["family"], it["name"][:40], it["p"], int(it["canon"]), abs(hash(role)) % 10000), payload)
                out.violations.append(vlib.Violation(role=role, what="%s on `%s` (P=%s, canon=%s): %s" % (
                    it["family"], it["name"][:70], it["p"], it["canon"], f.get("name", "")[:200]), replay=path, witness=f.get("inputs")))
    for it in items:
        if it["status"] == "ok" and not it.get("trivial") and len(out.samples) < 12:
            if len([s for s in out.samples if s["family"] == it["family"]]) < 3:
                out.samples.append({k: it.get(k) for k in ("family", "name", "p", "canon", "len_bound", "instructions", "obligations", "queries", "solver_s")})
    out.extra["families"] = {k: dict(v, meaning=FAMILY_DOC.get(k, "")) for k, v in fams.items()}
    out.extra["distinct_nontrivial"] = nontrivial
    out.extra["rule"] = ("one program = (WIT type or signature, pointer width, list mode, family); the real generator is run on it, the "
                         "recorded stream interpreted symbolically and all its obligations decided by z3 5.1 (QF_BV; cvc5 as second opinion on a "
                         "sample); non-trivial = at least one obligation that is not syntactically true")
    out.extra["cvc5_cross_checked_programs"] = cvc5
    out.extra["types_enumerated"] = doc.get("types")
    out.extra["signatures_enumerated"] = doc.get("sigs")
    if tbd:
        out.extra["TRUSTED-BASE-DISAGREEMENT"] = tbd[:20]
    out.extra["build_s"] = round(dt, 1)
    out.functions_encoded = [vlib.source_span(f, pat) for f, pat in ENCODED.get(prop_id, [])]
    out.bounds = {
        "pointer_width": [4, 8],
        "list_modes": ["element-wise (is_list_canonical=false)", "canonical for numeric primitives"] if prop_id != "C04" else ["element-wise"],
        "list_string_map_length": "symbolic, <= 2" if tier == "quick" else
                                  "symbolic, <= 3 for types nesting list/map/string containers at most twice, <= 2 for deeper nests "
                                  "(measured: bound 3 on triple nests needs > 5 min per query)",
        "type_depth": "leaves + every constructor at depth 1 + 9 constructors over 23 representatives at depth 2" + (
            " + 120 seeded depth-3 samples" if tier == "thorough" else ""),
        "values": "all values of each enumerated type (bit-vectors; floats as bit patterns incl. NaN payloads)",
        "solver_timeout_s": timeout,
    }
    out.outside_claim = [
        "WIT types / signatures not in the enumerated corpus; lists longer than the bound (the per-element code is the same closure, unrolled)",
        "UTF-8/UTF-16 validity and transcoding of strings (bytes are opaque)",
        "bool encodings other than 0/1 (spec: non-zero is true; abi.rs doc: trap) -- both agree on {0,1}",
        "input encodings whose pointer-designated buffers alias each other (region memory model)",
        "what each backend emits for an Instruction (C14 / C04-backends)",
        "abi::call combinations no backend uses or that are documented todo!(): GuestImportAsync lowering, GuestExportAsyncStackful",
    ]
    out.trusted_base = [
        "abisym/src/spec.rs: reference model of CanonicalABI.md (alignment, elem_size, discriminant_type, flatten+join, store/load, lower_flat/lift_flat, coercions)",
        "abisym/src/eval.rs: documented meaning of each abi::Instruction (doc comments in abi.rs)",
        "wit_parser::SizeAlign element strides used by ListLower/ListLift-style instructions exactly as backends do (cross-checked against the reference: TRUSTED-BASE-DISAGREEMENT)",
        "z3 5.1.0 (deciding), cvc5 1.0 (sampled second opinion), abisym/src/term.rs evaluator (replays every sat model)",
    ]
    out.assumptions = [
        "allocator contract: every allocation is fresh, aligned as requested, non-null, non-wrapping and disjoint from all others",
        "values: char is a Unicode scalar value, discriminants < number of cases, list lengths <= bound",
        "lift inputs: only encodings the spec accepts (discriminant in range, pointer aligned, bool in {0,1})",
    ]
    return out


def replay(prop_id: str, path: str) -> int:
    """Re-runs the single program named in the replay file against /repo's
    current tree and prints whether the violation reproduces."""
    doc = json.load(open(path))
    it = doc["item"]
    rc, text, dt = build(os.path.join(OUT_DIR, "build_replay.log"))
    if rc != 0:
        print("build failed")
        return 2
    binary = os.path.join(vlib.TARGET_DIR, "release", "abisym")
    res = os.path.join(OUT_DIR, "replay.json")
    flt = "%s/%s/%s/p%s/c%s" % (prop_id, it["family"], it["name"], it["p"], str(it["canon"]).lower())
    cmd = [binary, "--prop", prop_id, "--tier", "quick", "--jobs", "4", "--out", res, "--solver", "z3-new", "--filter", flt,
           "--len", str(it.get("len_bound", 2))]
    vlib.run_cmd(cmd, cwd=OUT_DIR, timeout=900)
    items = json.load(open(res))["items"]
    bad = [i for i in items if i["status"] == "violation"]
    for i in bad:
        print("REPRODUCED %s %s p=%s: %s" % (i["family"], i["name"], i["p"], [f["name"] for f in i.get("failing", [])][:3]))
        for f in i.get("failing", [])[:2]:
            print("  inputs:", json.dumps(f.get("inputs"))[:600])
    if not bad:
        print("NOT REPRODUCED (%d programs ran, none violated)" % len(items))
    return 1 if bad else 0
