"""Engine E2 `exprsmt` (DESIGN.md section 1): the scalar-conversion and bitcast
expressions every backend emits, decided under the target language's integer
semantics against the canonical ABI mapping.

  run("C14",  tier, seed)  -> scalar conversions, 7 backends x 24 instructions x {import, export}
  run("C04B", tier, seed)  -> backend half of C04: per-Bitcast coercions in their typed context + round trips
                               (role keys "C04/exprsmt/<backend>/<Bitcast>", to be merged into C04)

Routes: C -> CBMC on the generated w.c (no translator); C++, C#, Go, D, MoonBit,
Rust -> per-language expression grammar + semantics (exprsmt/langs.py,
SEMANTICS.md) -> QF_BV queries to z3 and cvc5; Rust and C++ expressions are also
compiled natively every run to validate the translator; Kani runs on the generated
Rust export glue (`_export_f_<T>_cabi`) as an independent second route for Rust.
"""
from __future__ import annotations

import json
import os
import re
import shutil
import sys
import time

HERE = os.path.dirname(os.path.abspath(__file__))
VERIF = os.path.dirname(HERE)
sys.path.insert(0, os.path.join(VERIF, "lib"))
sys.path.insert(0, VERIF)
import vlib  # noqa: E402
from exprsmt import probes, extract, decide, smt, langs, cback, native, terms as tm  # noqa: E402
from exprsmt import kani_route  # noqa: E402

WORK = os.environ.get("EXPRSMT_WORK") or os.path.join(vlib.WORK_DIR, "exprsmt")
DRIVER_SRC = os.path.join(VERIF, "exprsmt", "driver")
if os.path.realpath(vlib.REPO) == "/repo":
    DRIVER_DIR, TARGET_DIR = DRIVER_SRC, vlib.TARGET_DIR
else:
    # a different tree (VERIF_REPO, used by the mutation self-test on a scratch copy): private copy of the driver
    # with its path dependencies pointed there, and a private cargo target directory
    DRIVER_DIR, TARGET_DIR = os.path.join(WORK, "driver_alt"), os.path.join(WORK, "target_alt")
DRIVER_BIN = os.path.join(TARGET_DIR, "debug", "exprsmt-driver")
if DRIVER_DIR != DRIVER_SRC and not os.environ.get("EXPRSMT_KEEP_REPLAY_DIR"):
    # replays of a scratch / mutated tree must not land among the replays of /repo
    vlib.REPLAY_DIR = os.path.join(WORK, "replays")
BACKENDS = ["rust", "c", "cpp", "csharp", "go", "moonbit", "d"]
NO_TOOLCHAIN = {"csharp": "C#", "go": "Go", "moonbit": "MoonBit", "d": "D"}

SPANS = [
    ("crates/rust/src/bindgen.rs", "Instruction::I32FromChar", "Instruction::BoolFromI32 =>"),
    ("crates/rust/src/lib.rs", "fn emit_runtime_as_trait", None),
    ("crates/rust/src/lib.rs", "pub unsafe fn bool_lift", None),
    ("crates/rust/src/lib.rs", "pub unsafe fn char_lift", None),
    ("crates/rust/src/lib.rs", "fn perform_cast(", None),
    ("crates/c/src/lib.rs", "Instruction::U8FromI32 =>", "Instruction::BoolFromI32 | Instruction::I32FromBool"),
    ("crates/c/src/lib.rs", "fn perform_cast(", None),
    ("crates/cpp/src/lib.rs", "abi::Instruction::I32FromChar", "abi::Instruction::BoolFromI32"),
    ("crates/cpp/src/lib.rs", "fn perform_cast(", None),
    ("crates/csharp/src/function.rs", "Instruction::I32FromChar =>", "Instruction::BoolFromI32"),
    ("crates/csharp/src/function.rs", "fn perform_cast(", None),
    ("crates/go/src/lib.rs", "Instruction::BoolFromI32 =>", "Instruction::I32FromChar"),
    ("crates/go/src/lib.rs", "fn cast(op: &str, which: &Bitcast", None),
    ("crates/moonbit/src/lib.rs", "Instruction::CharFromI32 =>", "Instruction::BoolFromI32"),
    ("crates/moonbit/src/lib.rs", "fn perform_cast(", None),
    ("crates/moonbit/src/ffi.rs", "pub(crate) const EXTEND16", "pub(crate) const STORE8"),
    ("crates/d/src/lib.rs", "abi::Instruction::I32FromChar", "abi::Instruction::BoolFromI32"),
    ("crates/d/src/lib.rs", "fn perform_cast(", None),
]


def span_between(path, start_pat, end_pat):
    """Like vlib.source_span, for a run of match arms: first line containing start_pat .. first later line containing end_pat."""
    import hashlib
    full = os.path.join(vlib.REPO, path)
    try:
        lines = open(full, encoding="utf-8").read().split("\n")
    except OSError:
        return {"file": path, "item": start_pat, "missing": True}
    for i, l in enumerate(lines):
        if start_pat in l:
            for j in range(i + 1, min(len(lines), i + 200)):
                if end_pat in lines[j]:
                    # include the end arm up to the line where its braces close (or the line itself)
                    k = j
                    depth = lines[j].count("{") - lines[j].count("}")
                    while depth > 0 and k + 1 < len(lines) and k < j + 40:
                        k += 1
                        depth += lines[k].count("{") - lines[k].count("}")
                    text = "\n".join(lines[i:k + 1])
                    return {"file": path, "item": "%s .. %s" % (start_pat.strip(), end_pat.strip()), "lines": [i + 1, k + 1],
                            "sha256": hashlib.sha256(text.encode()).hexdigest()[:16]}
            break
    return {"file": path, "item": start_pat, "missing": True}


def hexw(v, w):
    return "0x%0*x" % (max(1, (w + 3) // 4), v & ((1 << w) - 1))


# --------------------------------------------------------------------------
# generation
# --------------------------------------------------------------------------
def build_driver(out):
    if DRIVER_DIR != DRIVER_SRC:
        os.makedirs(os.path.join(DRIVER_DIR, "src"), exist_ok=True)
        toml = open(os.path.join(DRIVER_SRC, "Cargo.toml")).read().replace("/repo/crates/", vlib.REPO.rstrip("/") + "/crates/")
        for rel, text in (("Cargo.toml", toml), ("src/main.rs", open(os.path.join(DRIVER_SRC, "src", "main.rs")).read())):
            dst = os.path.join(DRIVER_DIR, rel)
            if not os.path.exists(dst) or open(dst).read() != text:
                with open(dst, "w") as f:
                    f.write(text)
    shutil.copyfile(os.path.join(vlib.REPO, "Cargo.lock"), os.path.join(DRIVER_DIR, "Cargo.lock"))
    env = {"CARGO_NET_OFFLINE": "true", "CARGO_TARGET_DIR": TARGET_DIR, "CARGO_BUILD_JOBS": "4"}
    rc, txt, dt = vlib.run_cmd(["cargo", "build", "--quiet"], cwd=DRIVER_DIR, env=env, timeout=1500,
                               log=os.path.join(WORK, "driver_build.log"))
    out.extra["driver_build_s"] = round(dt, 1)
    if rc != 0 or not os.path.exists(DRIVER_BIN):
        out.inconclusive.append("exprsmt driver did not build against the current /repo tree (rc=%s): %s"
                                % (rc, txt.strip().splitlines()[-1:] if txt.strip() else ""))
        return False
    return True


def generate(out):
    os.makedirs(os.path.join(WORK, "wit"), exist_ok=True)
    wit = os.path.join(WORK, "wit", "probe.wit")
    with open(wit, "w") as f:
        f.write(probes.wit_text())
    ok = {}
    for b in BACKENDS:
        d = os.path.join(WORK, b)
        shutil.rmtree(d, ignore_errors=True)
        os.makedirs(d, exist_ok=True)
        rc, txt, dt = vlib.run_cmd([DRIVER_BIN, b, wit, "w", d], timeout=120, log=os.path.join(WORK, "gen_%s.log" % b))
        ok[b] = rc == 0
        if rc != 0:
            out.inconclusive.append("%s: the generator failed on the probe world (rc=%s): %s"
                                    % (b, rc, " ".join(txt.strip().splitlines()[-2:])[:300]))
    return ok


# --------------------------------------------------------------------------
# translator route
# --------------------------------------------------------------------------
class Translated:
    def __init__(self):
        self.obls = []          # decide.Obligation
        self.items = {}         # backend -> [Item]
        self.factories = {}
        self.problems = []      # (prop, text)
        self.native_log = []
        self.native = {}        # backend -> dict
        self.solver_s = {}
        self.queries = 0
        self.fp_notes = []
        self.fp_queries = 0


def translate_all(gen_ok, want_prop):
    tr = Translated()
    for b in ("cpp", "csharp", "go", "d", "moonbit", "rust"):
        if not gen_ok.get(b):
            continue
        try:
            be = extract.BACKENDS[b](os.path.join(WORK, b))
        except (OSError, extract.ExtractError) as e:
            tr.problems.append((None, "%s: generated files not in the expected layout: %s" % (b, e)))
            continue
        items = be.items()
        tr.items[b] = items
        fac = decide.LangFactory(b, be)
        fac.extractor = be
        tr.factories[b] = fac
        for e in fac.setup_errors:
            tr.problems.append((None, e))
        by_shape = {}
        for it in items:
            if it.prop != want_prop:
                continue
            if it.error:
                tr.problems.append((it.prop, "%s %s (%s): %s" % (b, it.instr, it.ctx, it.error)))
                continue
            try:
                obs = decide.obligations_for(fac, it)
                tr.obls += obs
                if it.prop == "C04B":
                    by_shape.setdefault(it.wit, {})[it.sense] = it
            except langs.Unsupported as e:
                tr.problems.append((it.prop, "%s %s (%s): expression `%s` is outside the supported subset: %s"
                                    % (b, it.instr, it.ctx, it.expr, e)))
            except (AssertionError, RecursionError, ValueError, KeyError, IndexError) as e:
                tr.problems.append((it.prop, "%s %s (%s): translator failed on `%s`: %s: %s"
                                    % (b, it.instr, it.ctx, it.expr, type(e).__name__, e)))
        if want_prop == "C04B":
            for shape, d in by_shape.items():
                if "lower" in d and "lift" in d:
                    try:
                        tr.obls.append(decide.roundtrip_obligation(fac, d["lower"], d["lift"]))
                    except langs.Unsupported as e:
                        tr.problems.append(("C04B", "%s round trip of shape %s: %s" % (b, shape, e)))
    return tr


def solve(tr, tier):
    """Pure bit-vector queries: z3 and cvc5 must agree (z3-new too in the thorough tier).  Queries containing
    floating-point conversion nodes (QF_BVFP): z3 decides; cvc5 and z3-new are second opinions -- a definite answer that
    differs makes the obligation inconclusive, a timeout/unknown of the second solver is recorded and z3 alone is accepted."""
    bv = [o for o in tr.obls if not o.negated_goal().uses_fp()]
    fp = [o for o in tr.obls if o.negated_goal().uses_fp()]
    solvers = ["z3", "cvc5"] + (["z3-new"] if tier == "thorough" and smt.available("z3-new") else [])
    for s in solvers:
        res, dt, _raw = smt.run_batch([o.query() for o in bv], s, timeout=240 if tier == "quick" else 900)
        tr.solver_s[s] = tr.solver_s.get(s, 0.0) + dt
        tr.queries += len(bv)
        for i, o in enumerate(bv):
            o.verdicts[s] = res[i]
    for o in bv:
        vs = set(o.verdicts.values())
        if vs == {"unsat"}:
            o.status = "holds"
        elif vs == {"sat"}:
            o.status = "sat"
        else:
            o.status = "inconclusive"
            o.detail = "solver verdicts differ or are not definite: %s" % o.verdicts
    if fp:
        fsolvers = ["z3", "cvc5"] + (["z3-new"] if smt.available("z3-new") else [])
        for s in fsolvers:
            res, dt, _raw = smt.run_batch([o.query() for o in fp], s, timeout=90 if tier == "quick" else 600)
            tr.solver_s[s + "(fp)"] = dt
            tr.queries += len(fp)
            for i, o in enumerate(fp):
                o.verdicts[s] = res[i]
        for o in fp:
            z = o.verdicts.get("z3")
            others = {k: v for k, v in o.verdicts.items() if k != "z3"}
            definite = {v for v in others.values() if v in ("sat", "unsat")}
            if z not in ("sat", "unsat") and len(definite) == 1:
                z = definite.pop()          # z3 gave up, the others agree
                definite = set()
            if z not in ("sat", "unsat") or (definite and definite != {z}):
                o.status = "inconclusive"
                o.detail = "floating-point query: solver verdicts differ or are not definite: %s" % o.verdicts
            else:
                o.status = "holds" if z == "unsat" else "sat"
                weak = sorted(k for k, v in others.items() if v not in ("sat", "unsat"))
                if weak:
                    tr.fp_notes.append("%s: decided by %s; no definite answer from %s within the cap" % (
                        o.name, sorted(k for k, v in o.verdicts.items() if v == z), weak))
        tr.fp_queries = len(fp)


def concrete(o, x):
    env = {"x": x}
    return {"pre": o.pre.ev(env), "trap": o.trap.ev(env), "emitted": o.emitted.ev(env), "expected": o.expected.ev(env),
            "bad": o.bad_term().ev(env)}


def fails_at(o, x):
    c = concrete(o, x)
    return bool(c["pre"]) and bool(c["bad"])


def exhaustive(tr, tier):
    """Narrow inputs: evaluate the same terms on every input (2^1, 2^8, 2^16); wide inputs: structured samples.
    Must agree with the solver verdict -- a disagreement means the encoder is wrong => inconclusive."""
    n_eval = 0
    for o in tr.obls:
        w = o.decls["x"]
        if o.status not in ("holds", "sat"):
            continue
        f = o.negated_goal().compile(["x"])
        if w <= 16:
            dom = range(1 << w)
            o.exhaustive = "all 2^%d inputs" % w
        else:
            base = native.samples(w, floats=o.in_lt.kind == "float")
            if tier == "thorough" and o.item.prop == "C14" and o.item.sense == "lift" and w == 32:
                n = decide.NBITS[o.item.wit]
                lows = range(1 << min(n, 16))
                highs = [0, 0xffff0000, 0x7fff0000, 0x00010000, 0x80000000, 0x12340000]
                dom = list(base) + [(h | l) & 0xffffffff for h in highs for l in lows]
                o.exhaustive = "all low-%d-bit patterns x %d high parts + %d samples" % (min(n, 16), len(highs), len(base))
            else:
                dom = base
                o.exhaustive = "%d boundary/seeded samples" % len(base)
        bad = None
        for x in dom:
            n_eval += 1
            if f(x):
                bad = x
                break
        o.small_witness = bad
        if o.status == "holds" and bad is not None:
            o.status = "inconclusive"
            o.detail = "solvers say unsat but the concrete evaluator finds a failing input %s: encoder error" % hexw(bad, w)
        if o.status == "sat" and w <= 16 and bad is None:
            o.status = "inconclusive"
            o.detail = "solvers say sat but no input of the exhaustive domain fails: encoder error"
    return n_eval


def native_validate(tr, tier, seed):
    """Compile the Rust and C++ expressions natively and compare with the evaluator on samples."""
    res = {}
    for b in ("rust", "cpp"):
        items = tr.items.get(b)
        if not items:
            continue
        # index obligations by item; one native function per item
        idx_items = [(i, it) for i, it in enumerate(items) if not it.error]
        wd = os.path.join(WORK, "native_" + b)
        info = {"compiled": 0, "samples": 0, "mismatches": []}
        if b == "rust":
            try:
                rt = tr.factories[b].extractor.rt_module()
            except extract.ExtractError as e:
                tr.problems.append((None, "rust: %s" % e))
                continue
            exes, included, log = native.build_rust(wd, rt, idx_items)
            tr.native_log.append(log)
            if not exes.get(True) or not exes.get(False):
                tr.problems.append((None, "rust: native harness of the extracted expressions did not compile (see %s)" % wd))
                with open(os.path.join(wd, "build.log"), "w") as f:
                    f.write(log)
                continue
            runners = {True: exes[True], False: exes[False]}
        else:
            exe, included, log = native.build_cpp(wd, idx_items)
            tr.native_log.append(log)
            if not exe:
                tr.problems.append((None, "cpp: native harness of the extracted expressions did not compile (see %s)" % wd))
                with open(os.path.join(wd, "build.log"), "w") as f:
                    f.write(log)
                continue
            runners = {None: exe}
        info["compiled"] = len(included)
        info["exes"] = runners
        info["index"] = {id(items[i]): i for i in included}
        # compare on samples
        for mode, exe in runners.items():
            pairs, expect = [], {}
            for o in tr.obls:
                if o.item.backend != b or o.kind != "main" or id(o.item) not in info["index"]:
                    continue
                if o.bad is not None or "#nan" in o.name:
                    continue          # same expression as the main obligation of the item
                if b == "rust" and o.note.startswith("debug_assertions="):
                    if (o.note == "debug_assertions=on") != mode:
                        continue
                i = info["index"][id(o.item)]
                for x in native.samples(o.decls["x"], seed, 8 if tier == "quick" else 32, floats=o.in_lt.kind == "float"):
                    c = concrete(o, x)
                    if o.in_lt.kind == "char" and not langs.valid_scalar(tm.const(x, 32)).ev({}):
                        continue
                    if o.in_lt.kind == "bool":
                        x &= 1
                        c = concrete(o, x)
                    if c["trap"] and not (b == "rust" and mode):
                        continue          # undefined behaviour in release mode: nothing to compare
                    if not c["pre"] and o.emitted.uses_fp():
                        continue          # NaN through a floating-point conversion: payload is not specified
                    pairs.append((i, x))
                    expect[(i, x)] = (c, o)
            got = native.run_native(exe, pairs)
            info["samples"] += len(got)
            for key, (c, o) in expect.items():
                g = got.get(key)
                if g is None:
                    info["mismatches"].append("%s: no native result for input %s" % (o.name, hexw(key[1], o.decls["x"])))
                    continue
                st, val = g
                val &= (1 << o.emitted.w) - 1
                if c["trap"]:
                    if st != "panic":
                        info["mismatches"].append("%s: evaluator predicts a panic at %s, native returned %s"
                                                  % (o.name, hexw(key[1], o.decls["x"]), hexw(val, o.emitted.w)))
                elif st != "ok" or val != c["emitted"]:
                    info["mismatches"].append("%s: at %s evaluator gives %s, natively compiled code gives %s (%s)"
                                              % (o.name, hexw(key[1], o.decls["x"]), hexw(c["emitted"], o.emitted.w),
                                                 hexw(val, o.emitted.w), st))
        for m in info["mismatches"][:10]:
            tr.problems.append((None, "translator semantics disagree with the %s compiler: %s" % ("rustc" if b == "rust" else "g++", m)))
        res[b] = info
    tr.native = res
    return res


def native_replay(tr, o, x):
    """Run a witness through natively compiled code; returns text or None when no toolchain / not compilable."""
    b = o.item.backend
    info = tr.native.get(b)
    if not info or id(o.item) not in info.get("index", {}) or o.kind != "main":
        return None
    i = info["index"][id(o.item)]
    mode = None
    if b == "rust":
        mode = False if o.note == "debug_assertions=off" else True
    exe = info["exes"].get(mode)
    got = native.run_native(exe, [(i, x)]).get((i, x))
    if got is None:
        return None
    st, val = got
    return {"status": st, "value": val & ((1 << o.emitted.w) - 1), "compiler": "rustc" if b == "rust" else "g++ -std=c++20"}


def describe_value(lt, v):
    w = lt.w
    s = hexw(v, w)
    if lt.kind == "float":
        import struct
        f = struct.unpack("<f", struct.pack("<I", v))[0] if w == 32 else struct.unpack("<d", struct.pack("<Q", v))[0]
        return "%s (%r)" % (s, f)
    if lt.kind == "int" and lt.signed:
        s += " (%d)" % tm.to_signed(v, w)
    elif lt.kind == "int":
        s += " (%d)" % v
    return s


def role_of(o):
    it = o.item
    if o.kind == "roundtrip":
        return "C04/exprsmt/%s/%s" % (it.backend, o.name.split("/", 2)[2])
    if it.prop == "C14":
        return "C14/exprsmt/%s/%s/%s%s" % (it.backend, it.instr, it.ctx, o.role_suffix)
    return "C04/exprsmt/%s/%s%s" % (it.backend, it.instr, o.role_suffix)


def report_sat(tr, o, out, prop_id):
    """A sat obligation: get the solver model, replay it, write the replay file, emit the Violation."""
    model = smt.get_model(o.query(), "z3") or smt.get_model(o.query(), "cvc5")
    w = o.decls["x"]
    if model is None:
        out.inconclusive.append("%s: solvers say sat but no model could be obtained" % o.name)
        return
    xm = model["x"]
    out.disagreements_checked += 1
    if not fails_at(o, xm):
        out.inconclusive.append("%s: the solver model x=%s does not reproduce in the concrete evaluator (encoder error)"
                                % (o.name, hexw(xm, w)))
        return
    x = o.small_witness if getattr(o, "small_witness", None) is not None else xm
    c = concrete(o, x)
    nat = native_replay(tr, o, x)
    it = o.item
    if nat is not None:
        agrees = (nat["status"] == "panic") if c["trap"] else (nat["status"] == "ok" and nat["value"] == c["emitted"])
        if not agrees:
            out.inconclusive.append("%s: witness %s: natively compiled code gives %s, evaluator %s -- not reported"
                                    % (o.name, hexw(x, w), nat, hexw(c["emitted"], o.emitted.w)))
            return
        replay_how = "replay: semantic evaluator and natively compiled expression (%s) agree" % nat["compiler"]
    else:
        lang = NO_TOOLCHAIN.get(it.backend)
        replay_how = ("replay: semantic evaluator only (no %s toolchain in the sandbox)" % lang) if lang else \
            "replay: semantic evaluator only (pointer-sized types are not compiled on the 64-bit host)"
    emitted_s = "traps/undefined" if c["trap"] else describe_value(o.out_lt, c["emitted"])
    payload = {
        "property": "C14" if it.prop == "C14" else "C04", "engine": "exprsmt", "backend": it.backend,
        "instruction": it.instr, "direction": it.ctx, "sense": it.sense, "kind": o.kind, "wit": it.wit,
        "expression": it.expr, "input_name": it.in_name, "input_type": it.in_type, "sink_types": it.sinks,
        "generated_file": it.file, "generated_line": it.line, "mode": o.note,
        "input": hexw(x, w), "solver_model_input": hexw(xm, w),
        "emitted_result": None if c["trap"] else hexw(c["emitted"], o.emitted.w), "emitted_traps": bool(c["trap"]),
        "canonical_result": hexw(c["expected"], o.expected.w),
        "smt_emitted": o.emitted.smt(), "smt_canonical": o.expected.smt(), "smt_precondition": o.pre.smt(),
        "obligation": o.name, "failure_class": o.role_suffix.strip("/") or "differs-from-canonical",
        "verdicts": o.verdicts, "native": nat, "replay": replay_how,
        "how_to_replay": "/verif/check %s --replay <this file>" % ("C14" if it.prop == "C14" else "C04B"),
    }
    role = role_of(o)
    tag = ("_" + o.note.replace("debug_assertions=", "dbg-")) if o.note.startswith("debug_assertions=") else ""
    path = vlib.write_replay("C14" if it.prop == "C14" else "C04", role.split("/", 2)[2] + tag, payload)
    if o.role_suffix == "/noncanonical-nonzero-lifts-false":
        what = ("%s %s (%s wrapper%s): emitted `%s` lifts the non-zero core value %s %s to false; the Component Model lifts every "
                "non-zero i32 to true (convert_int_to_bool) and the abi.rs doc comment allows only a trap instead. %s"
                % (it.backend, it.instr, it.ctx, (", " + o.note) if o.note else "", it.expr, it.in_type, hexw(x, w), replay_how))
    elif "#nan-stays-nan" in o.name:
        what = ("%s %s (%s wrapper): emitted `%s` turns the NaN %s into the non-NaN %s. %s"
                % (it.backend, it.instr, it.ctx, it.expr, hexw(x, w), emitted_s, replay_how))
    elif o.kind == "roundtrip":
        what = ("%s: lifting what was lowered does not give the payload back: %s; payload %s comes back as %s. %s"
                % (it.backend, o.note, hexw(x, w), emitted_s, replay_how))
    elif it.prop == "C14":
        what = ("%s %s (%s wrapper, %s): emitted `%s` maps %s %s to %s; canonical ABI: %s. %s"
                % (it.backend, it.instr, it.ctx, it.sense, it.expr, it.in_type, hexw(x, w), emitted_s,
                   describe_value(o.out_lt, c["expected"]), replay_how))
    else:
        what = ("%s Bitcast %s (%s, joined slot %s): emitted `%s` in typed context %s maps payload/slot %s to %s; "
                "canonical coercion (%s): %s. %s"
                % (it.backend, it.instr, it.sense, it.joined, it.expr, " -> ".join(it.sinks), hexw(x, w), emitted_s,
                   "zero-extend" if it.sense == "lower" else "wrap", hexw(c["expected"], o.expected.w), replay_how))
    out.violations.append(vlib.Violation(role=role, what=what, replay=path, witness={"input": hexw(x, w)}))


# --------------------------------------------------------------------------
# isolated shapes: "no valid WIT type produces a slot pair the generator
# cannot convert" -- each variant shape alone in a world, so that a helper
# (union, include, runtime item) pulled in by ANOTHER shape cannot mask a
# missing one; the generated C / C++ must at least be accepted by the compiler
# --------------------------------------------------------------------------
def isolated_shapes(out, tier):
    base = os.path.join(WORK, "isolated")
    shutil.rmtree(base, ignore_errors=True)
    os.makedirs(base, exist_ok=True)
    seen = set()
    n = 0
    for sh in probes.SHAPES + probes.C_ONLY_SHAPES:
        if sh["id"] in seen:
            continue
        seen.add(sh["id"])
        cases = ", ".join("%s(%s)" % (chr(ord("a") + i), c) for i, c in enumerate(sh["cases"]))
        wit = os.path.join(base, "%s.wit" % sh["id"])
        with open(wit, "w") as f:
            f.write("package probe:p;\n\ninterface vr {\n  variant v { %s }\n  g: func(x: v) -> v;\n}\n\n"
                    "world w {\n  import vr;\n  export vr;\n}\n" % cases)
        for backend, compiler, flags in (("c", "gcc", ["-std=gnu11"]), ("cpp", "g++", ["-std=c++20", "-fpermissive"])):
            # -fpermissive: pointer->int32 casts are exact on wasm32 but "lose precision" on the 64-bit host
            d = os.path.join(base, "%s_%s" % (backend, sh["id"]))
            os.makedirs(d, exist_ok=True)
            rc, txt, dt = vlib.run_cmd([DRIVER_BIN, backend, wit, "w", d], timeout=120)
            out.obligations += 1
            n += 1
            role = "C04/exprsmt/%s/isolated-shape/%s" % (backend, sh["id"])
            if rc != 0:
                path = vlib.write_replay("C04", "isolated_%s_%s_generator" % (backend, sh["id"]),
                                         {"engine": "exprsmt", "property": "C04", "backend": backend, "shape": sh, "wit": open(wit).read(),
                                          "generator_output": txt[-1500:]})
                out.violations.append(vlib.Violation(role=role + "/generator-fails",
                                                     what="%s generator fails on a world containing only variant { %s }: %s"
                                                     % (backend, cases, " ".join(txt.strip().splitlines()[-2:])[:300]), replay=path))
                continue
            srcs = [os.path.join(d, f) for f in sorted(os.listdir(d)) if f.endswith(".c" if backend == "c" else ".cpp")]
            if not srcs:
                out.inconclusive.append("%s isolated shape %s: no source file generated" % (backend, sh["id"]))
                continue
            inc = ["-I", d]
            if backend == "cpp":
                inc += ["-I", os.path.join(vlib.REPO, "crates/cpp/helper-types"), "-I", os.path.join(vlib.REPO, "crates/cpp/test_headers")]
            crc, ctxt, cdt = vlib.run_cmd([compiler, "-fsyntax-only", "-w"] + flags + inc + srcs, timeout=120)
            out.solver_s += cdt
            errors = [l for l in ctxt.splitlines() if " error" in l or "error:" in l]
            if crc != 0 and errors:
                path = vlib.write_replay("C04", "isolated_%s_%s_compile" % (backend, sh["id"]),
                                         {"engine": "exprsmt", "property": "C04", "backend": backend, "shape": sh, "wit": open(wit).read(),
                                          "compiler": compiler, "errors": errors[:10]})
                out.violations.append(vlib.Violation(role=role + "/does-not-compile",
                                                     what="%s bindings for a world containing only variant { %s } are rejected by %s: %s"
                                                     % (backend, cases, compiler, errors[0][:300]), replay=path))
            elif crc != 0:
                out.inconclusive.append("%s isolated shape %s: %s exited %s without an error line" % (backend, sh["id"], compiler, crc))
            else:
                out.discharged += 1
    out.extra["isolated_shape_compiles"] = n


# --------------------------------------------------------------------------
# C route
# --------------------------------------------------------------------------
def c_route(out, prop_id, tier, samples):
    cdir = os.path.join(WORK, "c")
    try:
        g, hpath = cback.generate(cdir)
    except OSError as e:
        out.inconclusive.append("c: generated files missing: %s" % e)
        return
    for p in g.problems:
        out.inconclusive.append(p)
    rc, txt, dt, cmd = cback.run_cbmc(cdir, hpath, "exprsmt_all", timeout=300 if tier == "quick" else 900)
    with open(os.path.join(WORK, "cbmc_all.log"), "w") as f:
        f.write("$ %s\n%s" % (cmd, txt))
    out.solver_s += dt
    out.queries += 1
    out.extra.setdefault("cbmc_s", 0.0)
    out.extra["cbmc_s"] += round(dt, 2)
    if not out.checker_cmd or "cbmc" not in out.checker_cmd:
        out.checker_cmd = (out.checker_cmd + " ; " if out.checker_cmd else "") + cmd
    res = cback.parse_results(txt)
    if rc not in (0, 10) or not res:
        out.inconclusive.append("c: cbmc did not complete (rc=%s): %s" % (rc, " ".join(txt.strip().splitlines()[-3:])[:300]))
        return
    if res.get(("exprsmt_all", "REACH|all")) != "FAILURE":
        out.inconclusive.append("c: vacuity witness failed: no execution runs every harness to its end (REACH|all = %s)"
                                % res.get(("exprsmt_all", "REACH|all")))
        return
    unwinding = [k for k, v in res.items() if "unwinding" in k[1] and v != "SUCCESS"]
    if unwinding:
        out.inconclusive.append("c: unwinding assertion not discharged: %s" % unwinding[:3])
    native_exe = os.path.join(cdir, "replay_native")
    nrc, nlog, ncmd = cback.build_native(cdir, hpath, native_exe)
    if nrc != 0:
        out.inconclusive.append("c: the native replay build of the harness failed: %s" % nlog[-300:])
        native_exe = None
    want = "C14|" if prop_id == "C14" else "C04B|"
    for h in g.harnesses:
        for lab in h["labels"]:
            if not lab.startswith(want):
                continue
            st = res.get((h["name"], lab))
            parts = lab.split("|")
            _p, instr, ctx = parts[:3]
            cls = ("/" + parts[3]) if len(parts) > 3 else ""
            if h["kind"] == "variant" and h["ctx"] != "roundtrip":
                san = res.get((h["name"], "SANITY|discriminant|%s" % h["shape"]))
                if san != "SUCCESS":
                    out.inconclusive.append("c: %s: the discriminant did not arrive as expected (harness mistake?)" % h["name"])
                    continue
            out.obligations += 1
            out.programs += 1
            if prop_id == "C14":
                role = "C14/exprsmt/c/%s/%s%s" % (instr, ctx, cls)
            elif ctx == "roundtrip":
                role = "C04/exprsmt/c/%s/roundtrip" % instr
            else:
                role = "C04/exprsmt/c/%s" % instr
            if st == "SUCCESS":
                out.discharged += 1
                if len([s for s in samples if s.get("backend") == "c"]) < 3:
                    samples.append({"backend": "c", "instruction": instr, "context": ctx, "function": h["fn"],
                                    "verdict": "cbmc --32: SUCCESS for all nondet inputs"})
                continue
            if st != "FAILURE":
                out.inconclusive.append("c: %s: cbmc status %s" % (lab, st))
                continue
            # counterexample: trace -> inputs -> native replay
            out.disagreements_checked += 1
            trc, ttxt, tdt, tcmd = cback.run_cbmc(cdir, hpath, h["name"], timeout=300, trace=True)
            out.solver_s += tdt
            out.queries += 1
            ins = cback.trace_inputs(ttxt, len(h["inputs"]))
            if ins is None:
                out.inconclusive.append("c: %s fails in cbmc but the trace inputs could not be read" % lab)
                continue
            how = "replay: cbmc trace only"
            nres = None
            if native_exe:
                _r, nres, nout = cback.run_native(native_exe, h["name"], ins)
                if nres.get(lab) == "FAIL":
                    how = "replay: the cbmc trace inputs fail the same check in the natively compiled (gcc -m64) generated code"
                elif nres.get(lab) == "PASS":
                    if h["kind"] == "variant" and ("*" in h["slot_t"] or h["slot_t"] == "size_t"):
                        how = "replay: cbmc trace only (pointer-sized slot; the 64-bit native build is not comparable)"
                    else:
                        out.inconclusive.append("c: %s: cbmc counterexample %s does not reproduce natively -- not reported"
                                                % (lab, [hex(v) for v in ins]))
                        continue
            payload = {"property": prop_id if prop_id == "C14" else "C04", "engine": "exprsmt", "backend": "c",
                       "instruction": instr, "direction": ctx, "function": h["fn"], "generated_file": os.path.join(cdir, "w.c"),
                       "generated_line": h["line"], "harness": h["name"], "harness_file": hpath,
                       "inputs": [{"what": w_[0], "bits": w_[1], "value": hexw(v, w_[1])} for w_, v in zip(h["inputs"], ins)],
                       "cbmc_cmd": tcmd, "native_cmd": ncmd, "native_result": nres, "replay": how,
                       "canonical": "lower = zero-extend the payload's core value into the joined slot; lift = low bits of the slot"
                       if prop_id != "C14" else "see exprsmt/SEMANTICS.md, canonical mapping",
                       "how_to_replay": "/verif/check %s --replay <this file>" % prop_id}
            path = vlib.write_replay(payload["property"], role.split("/", 2)[2], payload)
            what = ("c %s (%s, function %s): CBMC counterexample with %s; the generated C does not compute the canonical mapping. %s"
                    % (instr, ctx, h["fn"], ", ".join("%s = %s" % (w_[0], hexw(v, w_[1])) for w_, v in zip(h["inputs"], ins)), how))
            out.violations.append(vlib.Violation(role=role, what=what, replay=path, witness={"inputs": [hex(v) for v in ins]}))
    info = {k[1]: v for k, v in res.items() if k[1].startswith("INFO|")}
    out.extra["c_info"] = info


# --------------------------------------------------------------------------
# entry points
# --------------------------------------------------------------------------
def run(prop_id, tier, seed):
    if prop_id not in ("C14", "C04B"):
        raise ValueError("exprsmt serves C14 and C04B")
    os.makedirs(WORK, exist_ok=True)
    out = vlib.Outcome(level="translation_validation")
    out.bounds = {
        "probe_worlds": "one imported and one exported `f-T: func(xq7: T) -> T` per T in %s; variant shapes %s (+ C only: %s)"
                        % (probes.SCALARS, [s["id"] for s in probes.SHAPES], [s.get("name", s["id"]) for s in probes.C_ONLY_SHAPES]),
        "values": "all 2^32 / 2^64 inputs symbolically (QF_BV; CBMC for C); narrow inputs additionally evaluated exhaustively",
        "pointer_width": "wasm32: pointers, lengths, usize/size_t/uintptr/nint are 32 bits",
        "generator_options": "defaults of every backend (MoonBit gen_dir=gen, Rust generate_all)",
        "flat_direction_only": "conversions on flat parameters/results; the memory (load/store) direction belongs to C01/C10",
    }
    out.trusted_base = [
        "exprsmt/SEMANTICS.md: per-language conversion rules implemented in exprsmt/langs.py",
        "exprsmt/decide.py canon_lower/canon_lift: the canonical ABI mapping (oracle), written from the spec",
        "CBMC 6.11 C semantics with --32 --little-endian for the generated C",
        "exprsmt/cinc: 6-file libc header shim (no 32-bit libc headers in the image)",
        "z3 4.8.12 and cvc5 1.0.3 agree on every QF_BV query; QF_BVFP queries (floating-point conversions): z3 decides, cvc5/z3-new "
        "second opinions (see coverage.floating_point_queries)",
        "rustc / g++ as the reference for the Rust / C++ translator validation",
    ]
    out.assumptions = [
        "C#: default unchecked arithmetic context (no <CheckForOverflowUnderflow>)",
        "Go: uintptr is modelled at the wasm boundary width (32 bits)",
        "Rust MaybeUninit<u64> (PointerOrI64 slot) is modelled as its initialised u64 payload",
        "language types wider than the WIT type (MoonBit Int for s8/s16, UInt for u16): lowering is required only for in-range values",
        "bool lifting: 0 and 1 must map to false/true; any other non-zero core value must lift to true (spec convert_int_to_bool) "
        "or trap (abi.rs doc comment of BoolFromI32); lifting it to false is a violation (role suffix /noncanonical-nonzero-lifts-false)",
        "floating-point conversions inside an emitted expression: IEEE 754 round-to-nearest-even; the bit-exact goal is stated for inputs "
        "under which no conversion sees a NaN (NaN payloads of conversions are nondeterministic on wasm), plus NaN-in => NaN-out; "
        "out-of-range float->int is undefined/unspecified (trap) except Rust `as` (saturating)",
        "char: lifting/lowering required on Unicode scalar values only",
        "payload language types in variants are taken from the generated declarations of the same probe",
    ]
    t_all = time.time()
    if not build_driver(out):
        return out
    gen_ok = generate(out)
    out.functions_encoded = [span_between(f, s, e) if e else vlib.source_span(f, s, None, 120) for f, s, e in SPANS]
    samples = []

    # ---- translator route
    tr = translate_all(gen_ok, prop_id)
    for p, text in tr.problems:
        if p in (None, prop_id):
            out.inconclusive.append(text)
    solve(tr, tier)
    n_eval = exhaustive(tr, tier)
    before = len(tr.problems)
    native_validate(tr, tier, seed)
    for p, text in tr.problems[before:]:
        out.inconclusive.append(text)
    out.queries += tr.queries
    out.solver_s += sum(tr.solver_s.values())
    info_results = {}
    for o in tr.obls:
        if o.kind == "info":
            info_results[o.name] = "yes" if o.status == "holds" else ("no (e.g. x=%s)" % hexw(o.small_witness, o.decls["x"])
                                                                      if getattr(o, "small_witness", None) is not None else o.status)
            continue
        out.obligations += 1
        if o.kind == "main":
            out.programs += 1
        if o.status == "holds":
            out.discharged += 1
        elif o.status == "sat":
            report_sat(tr, o, out, prop_id)
        else:
            out.inconclusive.append("%s: %s" % (o.name, o.detail))
    # samples: a few per backend, violations first
    per_b = {}
    seen_bi = set()
    pref = ["S8FromI32", "I32FromS8", "U16FromI32", "I32FromChar", "BoolFromI32", "I32FromU8", "S16FromI32",
            "I32ToI64", "F32ToI64", "I64ToF32", "I64ToI32"]
    for o in sorted(tr.obls, key=lambda o: (o.status != "sat", pref.index(o.item.instr) if o.item.instr in pref else 99,
                                            o.item.ctx, o.name)):
        if o.kind == "info":
            continue
        k = o.item.backend
        if per_b.get(k, 0) >= 3 or (k, o.item.instr) in seen_bi:
            continue
        seen_bi.add((k, o.item.instr))
        per_b[k] = per_b.get(k, 0) + 1
        samples.append({"backend": k, "instruction": o.item.instr if o.kind != "roundtrip" else o.name.split("/")[2],
                        "context": o.item.ctx if o.kind != "roundtrip" else "roundtrip", "expression": o.item.expr,
                        "typed": "%s -> %s" % (o.item.in_type, " -> ".join(o.item.sinks)),
                        "smt_emitted": o.emitted.smt(), "smt_canonical": o.expected.smt(),
                        "verdict": " ".join("%s=%s" % kv for kv in sorted(o.verdicts.items())),
                        "concrete": getattr(o, "exhaustive", "")})

    # ---- C route
    if gen_ok.get("c"):
        c_route(out, prop_id, tier, samples)
    if prop_id == "C04B":
        isolated_shapes(out, tier)

    # ---- Kani route: generated Rust export glue (lift-args / lower-results) on the compiled bindings
    if gen_ok.get("rust") and prop_id == "C14":
        failed = kani_route.run(out, os.path.join(WORK, "rust"), os.path.join(WORK, "kani"), samples,
                                timeout=600 if tier == "quick" else 1800)
        reported = {v.role for v in out.violations}
        for t, labels in failed.items():
            lower_i, lift_i, _ = probes.INSTR[t]
            hit = [i for i in (lower_i, lift_i) if "C14/exprsmt/rust/%s/export" % i in reported]
            if hit:
                out.extra.setdefault("kani_confirms", []).append("%s: Kani also refutes %s" % (t, labels))
            else:
                out.inconclusive.append("rust/kani: the Kani harness for f-%s FAILED (%s) but the translator route reports no violation "
                                        "for the same instructions: the two routes do not agree -- see %s" % (t, labels, os.path.join(WORK, "kani", "kani.log")))

    out.samples = samples
    nat = {b: {"expressions_compiled": i["compiled"], "sample_runs": i["samples"], "mismatches": len(i["mismatches"])}
           for b, i in tr.native.items()}
    out.extra.update({
        "solver_seconds": {k: round(v, 2) for k, v in tr.solver_s.items()},
        "concrete_evaluations": n_eval,
        "translator_validation": nat,
        "bool_lift_of_other_nonzero_values": {o.name: ("true or trap (allowed)" if o.status == "holds" else "false for some input: " + o.status)
                                              for o in tr.obls if o.role_suffix == "/noncanonical-nonzero-lifts-false"},
        "floating_point_queries": {"count": tr.fp_queries, "notes": tr.fp_notes[:10],
                                   "encoding": "each conversion node = fresh bit-vector variable constrained via to_fp (QF_BVFP); "
                                               "bit-exact goal for non-NaN conversion inputs, NaN-in => NaN-out separately"},
        "expressions_per_backend": {b: {"extracted": len([i for i in its if i.prop == prop_id and not i.error]),
                                        "extraction_failed": len([i for i in its if i.prop == prop_id and i.error])}
                                    for b, its in tr.items.items()},
        "distinct_nontrivial": len({(o.item.backend, o.emitted.smt(), o.expected.smt()) for o in tr.obls
                                    if o.kind != "info" and o.emitted.smt() != o.expected.smt()}),
        "rule": "one evaluation per solver query (each obligation goes to every solver) plus one CBMC run; an obligation is "
                "non-trivial when the emitted term is not syntactically the canonical term; distinct by (backend, emitted term, canonical term)",
        "helper_bodies_read": sum((f.setup_notes for f in tr.factories.values()), [])[:40],
        "wall_s_engine": round(time.time() - t_all, 1),
    })
    if prop_id == "C04B":
        out.outside_claim += [
            "length-typed slots (I32ToL, LToI32, LToI64, I64ToL, LToP, PToL) and pointer-source casts (PToP64, P64ToP) are decided for the C "
            "backend only (CBMC executes the whole wrapper); for the other backends the payload is a string/tuple and no scalar "
            "expression is extracted",
            "the core `abi::cast` table itself is E1's half of C04",
        ]
    out.outside_claim += [
        "the memory direction (loads/stores of scalars in records, lists, return areas)",
        "non-default generator options",
        "whether the target compilers accept the generated code (C09/C12/C31)",
    ]
    cmds = "z3 -in / cvc5 --incremental on %d QF_BV queries" % len(tr.obls)
    out.checker_cmd = (out.checker_cmd + " ; " if out.checker_cmd else "") + cmds
    return out


def replay(prop_id, path):
    """Re-evaluate a replay file: C -> rerun the native binary / cbmc on the recorded inputs; others -> re-extract the
    expression from the current tree and evaluate it on the recorded input.  Exit 1 if the violation reproduces."""
    with open(path) as f:
        r = json.load(f)
    os.makedirs(WORK, exist_ok=True)
    out = vlib.Outcome()
    if not build_driver(out):
        print("INCONCLUSIVE driver build failed")
        return 2
    gen_ok = generate(out)
    b = r["backend"]
    if not gen_ok.get(b):
        print("INCONCLUSIVE generation failed for %s" % b)
        return 2
    if b == "c":
        cdir = os.path.join(WORK, "c")
        g, hpath = cback.generate(cdir)
        exe = os.path.join(cdir, "replay_native")
        rc, log, _ = cback.build_native(cdir, hpath, exe)
        ins = [int(i["value"], 16) for i in r["inputs"]]
        lab = None
        for h in g.harnesses:
            if h["name"] == r["harness"]:
                lab = h["labels"]
        if rc != 0 or lab is None:
            print("INCONCLUSIVE native replay build failed or harness vanished")
            return 2
        _rc, res, txt = cback.run_native(exe, r["harness"], ins)
        print(txt.strip())
        bad = [l for l in lab if res.get(l) == "FAIL" and r["instruction"] in l]
        if bad:
            print("REPRODUCED %s with inputs %s" % (bad, [hex(v) for v in ins]))
            return 1
        trc, ttxt, _, _ = cback.run_cbmc(cdir, hpath, r["harness"], trace=False)
        res2 = cback.parse_results(ttxt)
        bad2 = [k for k, v in res2.items() if k[0] == r["harness"] and v == "FAILURE" and r["instruction"] in k[1]]
        if bad2:
            print("REPRODUCED under cbmc --32 (not natively): %s" % bad2)
            return 1
        print("NOT REPRODUCED")
        return 0
    want = "C14" if r["property"] == "C14" else "C04B"
    tr = translate_all(gen_ok, want)
    x = int(r["input"], 16)
    for o in tr.obls:
        it = o.item
        if it.backend == b and it.instr == r["instruction"] and it.ctx == r["direction"] and o.kind == r.get("kind", "main") \
                and o.note == r.get("mode", o.note) and o.name == r.get("obligation", o.name):
            c = concrete(o, x)
            print("expression now: `%s`; input %s -> emitted %s%s, canonical %s"
                  % (it.expr, r["input"], hexw(c["emitted"], o.emitted.w), " (traps)" if c["trap"] else "",
                     hexw(c["expected"], o.expected.w)))
            if fails_at(o, x):
                print("REPRODUCED")
                return 1
            print("NOT REPRODUCED")
            return 0
    print("INCONCLUSIVE the expression could not be re-extracted")
    return 2
