"""E3 rtkani: C18-C21, C24 -- Kani (CBMC) proof harnesses over the real Rust
async runtime of wit-bindgen (crates/guest-rust/src/rt/**), DESIGN.md section 1/E3.

The harness crate lives in /verif/rtkani (sources only).  At run time a build
directory /verif/work/rtkani/crate_<key>/ is generated whose Cargo.toml points
the `wit-bindgen` path dependency at vlib.REPO (so VERIF_REPO=<scratch copy>
checks a mutated tree), with <REPO>/Cargo.lock copied next to it and a snapshot
of /verif/rtkani/src copied to `src`.  Every harness is one `cargo kani` run in its
own worker slot (own --target-dir), under an address-space cap and a timeout.

Verdict per harness:
  VERIFICATION:- SUCCESSFUL and every kani::cover! SATISFIED  -> discharged
  VERIFICATION:- FAILED with a failed (non-unwinding) check     -> candidate
      violation, re-run with concrete playback; the printed witness is stored
      under /verif/replays and the violation is reported only if the second
      run fails the same check again
  timeout / out of memory / build error / unsatisfied cover /
  unwinding assertion / unsupported construct                   -> inconclusive
"""
from __future__ import annotations

import concurrent.futures
import fcntl
import hashlib
import json
import os
import re
import shutil
import threading
import time

import vlib

CRATE_SRC = os.path.join(vlib.VERIF, "rtkani")
WORK = os.path.join(vlib.WORK_DIR, "rtkani")
MAX_PARALLEL = int(os.environ.get("VERIF_RTKANI_JOBS", "6"))
MEM_GB = 12
TIMEOUT = {"quick": 1200, "thorough": 1800}
NSLOTS = 12

RT = "crates/guest-rust/src/rt/"
AS = RT + "async_support/"

# --------------------------------------------------------------------------
# Harness tables.  name -> (module, scenario, est_cost_s, opts)
#   opts: leak=True  -> CBMC --memory-leak-check (every heap block allocated
#                       during the harness must be freed when it ends)
#         stubs=False -> harness uses no kani::stub, so a failing run can also
#                       be replayed natively (cargo kani playback)
# --------------------------------------------------------------------------

def H(name, scenario, est=120, leak=False, stubs=True, covers=None, needs=None, forbid=None):
    """forbid: for #[kani::should_panic] harnesses -- a failed check whose description contains this marker is a
    violation even though Kani prints SUCCESSFUL (should_panic is satisfied by a single panicking input)."""
    return {"name": name, "module": name.split("_", 1)[0], "scenario": scenario, "est": est,
            "leak": leak, "stubs": stubs, "covers": covers, "needs": needs, "forbid": forbid}


_C21_SCRIPTS = {
    "d": ("future dropped before its first poll", 40),
    "pd": ("poll; drop (import returned at once / STARTING / STARTED, then cancel with every answer the host may give)", 70),
    "ped": ("poll; host event; drop with the event still queued (STARTED -> cancel follows, RETURNED -> no cancel)", 110),
    "pepd": ("poll; event; poll; drop (STARTED seen then cancel, or RETURNED polled to completion)", 190),
    "peped": ("poll; event; poll; event; drop (STARTED polled, RETURNED queued at drop)", 250),
    "pepepd": ("poll; event; poll; event; poll (STARTING -> STARTED -> RETURNED polled to completion)", 310),
    "ppd": ("poll; spurious re-poll (re-registration); drop -> cancel", 150),
    "ppepd": ("poll; spurious re-poll; event; poll; drop", 230),
}


def _c21(tier):
    hs = []
    flat = ["pd", "ped", "pepepd"] if tier == "quick" else list(_C21_SCRIPTS)
    for k in _C21_SCRIPTS:
        d, est = _C21_SCRIPTS[k]
        hs.append(H("c21_ind_" + k, "indirect parameters (2-byte abi_layout, results at offset 1), task ABI v1/v2 symbolic: " + d,
                    est, leak=True))
        if k in flat:
            hs.append(H("c21_flat_" + k, "flat parameters (empty abi_layout), task ABI v1/v2 symbolic: " + d, est, leak=True))
    if tier == "thorough":
        for k in ("pepepd", "peped", "ppepd", "pppd", "peppd", "ppeped"):
            hs.append(H("c21_deep_" + k, "8-byte abi_layout with results at offset 4 (unwind 9), script " + k.upper(), 400, leak=True))
    return hs


def _c24(tier):
    return [
        H("c24_realloc_model", "cabi_realloc: two consecutive requests (alloc n1 <= 16 at align 2^k, k <= 16; then realloc/alloc to n2 <= 16) "
          "against Kani's heap model: non-null, zero size returns `align`, contents preserved up to min(n1, n2), block writable for its "
          "size, freed by the caller with (n2, align); leak check on", 140, leak=True, stubs=False),
        H("c24_realloc_ledger", "cabi_realloc: same two requests with sizes up to 2^20; alloc/realloc replaced by recording shims: the Layout "
          "passed to the global allocator has exactly the requested size and alignment, zero-sized requests never reach the allocator", 70),
        H("c24_cleanup_ledger", "Cleanup::new/drop/forget, size <= 16, align 2^k: pointer null <=> size 0 <=> no guard; alloc once with the "
          "layout; drop frees once with the same pointer and layout; forget frees nothing", 70),
        H("c24_cleanup_model", "Cleanup::new/drop/forget against Kani's heap model: block writable for `size` bytes, dropped guard leaves no "
          "leak, forgotten guard leaves the block allocated (the harness frees it: a double free would be flagged)", 40, leak=True, stubs=False),
        H("c24_cabi_dealloc_ledger", "generated cabi_dealloc(ptr, size, align) on a block from cabi_realloc, size up to 2^20: dealloc called "
          "once with (ptr, size, align) iff size > 0", 50, needs="cabi_dealloc"),
        H("c24_cabi_dealloc_model", "generated cabi_dealloc against Kani's heap model, size <= 16: no leak, no free of the dangling zero-size pointer",
          50, leak=True, stubs=False, needs="cabi_dealloc"),
    ]


_C18_ONE = {
    "d": "operation dropped unstarted (start_cancelled)", "c": "cancel() on an unstarted operation",
    "pd": "poll; drop (start answers PENDING/PROGRESS/DONE; drop cancels with either answer)", "pc": "poll; explicit cancel()",
    "ped": "poll; event; drop with the event queued", "pec": "poll; event; cancel() with the event queued",
    "pepd": "poll; event; poll; drop", "pepc": "poll; event; poll; cancel()",
    "pepepd": "poll; event; poll; event; poll (two events polled to completion)",
    "ppd": "poll; spurious re-poll (re-registration, v2: re-clone); drop", "ppepd": "poll; spurious re-poll; event; poll; drop",
}
_C18_TWO = {
    "v2v2_pa_pb_d": "registered under task A, re-polled under task B (no event), dropped under B",
    "v2v2_pa_e_pb_d": "registered under A, event delivered by A, re-polled under B, dropped",
    "v2v2_pa_pb_e_pb": "registered under A, moved to B, event delivered by B, polled under B",
    "v2v2_pa_pb_da": "registered under A, moved to B, dropped while A is current again",
    "v2v2_pa_db": "registered under A, dropped while B is current",
    "v2v2_pa_pb_pa_d": "A, B, A again, dropped",
    "v2v2_pa_e_pa_pb_d": "v2/v2: a NON-FINAL event is delivered and re-polled under A (re-registration with the same task), then the pending operation moves to B",
    "v2v1_pa_e_pa_pb_d": "A on v2, B on v1: non-final event re-polled under A, then the pending operation moves to B",
    "v2v2_pa_e_pa_pb_e_pb": "v2/v2: non-final event re-polled under A, moved to B, final event delivered by B and polled",
    "v2v2_pa_e_pa_db": "v2/v2: non-final event re-polled under A, dropped while B is current",
    "v1v1_pa_pb_d": "both tasks on the v1 C ABI: registered under A, re-polled under B",
    "v1v2_pa_pb_d": "task A on the v1 C ABI, task B on v2: registered under A, re-polled under B",
    "v2v1_pa_pb_d": "task A on v2, task B on the v1 C ABI: registered under A, re-polled under B",
    "v1v1_pa_e_pb_d": "v1/v1: registered under A, event delivered by A, re-polled under B, dropped",
    "v1v1_pa_db": "v1/v1: registered under A, dropped while B is current",
}
_C18_DEEP = {
    "one_pppd": "poll; two spurious re-polls; drop", "one_peppd": "poll; event; poll; spurious re-poll; drop",
    "one_pepec": "poll; event; poll; event; cancel() with the second event queued", "one_ppepepd": "spurious re-poll, then two events polled to completion",
    "two_v2v2_abab": "v2/v2: polled under A, B, A, B, then dropped", "two_v2v2_a_e_b_e_a": "v2/v2: event from A consumed under B, event from B consumed under A",
    "two_v2v2_pa_pb_e_pa": "v2/v2: registered under A, moved to B, event from B consumed under A",
}


def _c18(tier):
    pre = "generic waitable operation (minimal WaitableOp), one task, C ABI v1/v2 and clone behaviour symbolic: "
    hs = [H("c18_one_" + k, pre + d, 45) for k, d in _C18_ONE.items()]
    hs += [H("c18_two_" + k, "generic waitable operation, two tasks: " + d, 50) for k, d in _C18_TWO.items()]
    if tier == "thorough":
        hs += [H("c18_deep_" + k, "generic waitable operation: " + d, 60) for k, d in _C18_DEEP.items()]
    return hs


def _c20(tier):
    w = "future write, raw API (RawFutureWriter::write / RawFutureWrite), host answers COMPLETED/DROPPED/BLOCKED, events COMPLETED/DROPPED, cancel answers COMPLETED/DROPPED/CANCELLED: "
    r = "future read (RawFutureReader::into_future / RawFutureRead), host answers COMPLETED/BLOCKED, cancel answers COMPLETED/CANCELLED: "
    t = "typed API (FutureWriter / FutureWrite, default value; write_and_forget replaced by a harness-driven deferred write): "
    hs = [
        H("c20_rawwrite_c", w + "cancel() before the first poll", 40),
        H("c20_rawwrite_pc", w + "poll; cancel()", 80, leak=True),
        H("c20_rawwrite_pec", w + "poll; event; cancel() with the event queued", 100, leak=True),
        H("c20_rawwrite_pep", w + "poll; event; poll", 200, leak=True),
        H("c20_rawwrite_zst_pc", w + "zero-sized payload (no buffer): poll; cancel()", 50),
        H("c20_typed_writer_dropped_unwritten", t + "FutureWriter dropped without writing -> default value written; writable end released only afterwards", 80),
        H("c20_typed_write_dropped_unpolled", t + "FutureWrite dropped before its first poll -> value dropped, default written", 80),
        H("c20_typed_write_dropped_midflight", t + "FutureWrite polled once and dropped mid-flight -> cancel; if cancelled the default value is written", 420),
        H("c20_typed_cancel", t + "FutureWrite::cancel(): AlreadySent / Dropped(value) / Cancelled(value, writer) match what the host answered", 300),
        H("c20_read_d", r + "reader future dropped unpolled", 40),
        H("c20_read_c", r + "cancel() before the first poll: reader handed back", 40),
        H("c20_read_pd", r + "poll; drop mid-flight", 60, leak=True),
        H("c20_read_ped", r + "poll; event; drop with the completion queued", 90, leak=True),
        H("c20_read_pepd", r + "poll; event; poll", 120, leak=True),
        H("c20_read_pc", r + "poll; cancel()", 90, leak=True),
        H("c20_read_pec", r + "poll; event; cancel() with the completion queued", 100, leak=True),
        H("c20_read_zst_pd", r + "zero-sized payload: poll; drop", 50),
    ]
    if tier == "thorough":
        hs += [H("c20_deep_rawwrite_ppc", w + "poll; spurious re-poll; cancel()", 150, leak=True),
               H("c20_deep_read_ppd", r + "poll; spurious re-poll; drop", 100, leak=True)]
    return hs


def _c19(tier):
    wu = "stream write of 2 items, canonical payload (u8: buffer is the vector itself), host answers COMPLETED(k)/DROPPED(k)/BLOCKED, events, cancel answers incl. CANCELLED(k): "
    wv = "stream write of 2 items, lifted payload with lists (lower at start; per-item ownership ledger): "
    ru = "stream read into capacity 2, canonical payload (u8), host stores k items: "
    rv = "stream read into capacity 2, lifted payload (scratch buffer + lift per item; ownership ledger): "
    ab = "AbiBuffer one-step from every valid state (new; advance(a); advance(b); abi_ptr_and_len; remaining; into_vec or drop), "
    hs = [
        H("c19_return_code_valid", "ReturnCode::decode on all valid encodings of the 2^32 inputs: BLOCKED, (amount << 4) | {COMPLETED, DROPPED, CANCELLED}", 30, stubs=False),
        H("c19_return_code_invalid_traps", "ReturnCode::decode on every other input: must panic, never return", 30, stubs=False, forbid="INVALID-CODE-ACCEPTED"),
        H("c19_abibuf_u8_len0", ab + "u8, empty vector", 30, stubs=False, leak=True),
        H("c19_abibuf_u8_len1", ab + "u8, 1 item", 30, stubs=False, leak=True),
        H("c19_abibuf_u8_len3", ab + "u8, 3 items", 40, stubs=False, leak=True),
        H("c19_abibuf_u32_len3", ab + "u32 (canonical payload 4 bytes wide: pointer steps are ELEMENTS), 3 items", 30, stubs=False, leak=True),
        H("c19_abibuf_u64_len2", ab + "u64 (8 bytes wide), 2 items", 30, stubs=False, leak=True),
        H("c19_abibuf_val_len0", ab + "lifted payload, empty vector", 30, stubs=False, leak=True),
        H("c19_abibuf_val_len1", ab + "lifted payload, 1 item", 40, stubs=False, leak=True),
        H("c19_abibuf_val_len3", ab + "lifted payload, 3 items", 60, stubs=False, leak=True),
        H("c19_write_u8_pc", wu + "poll; cancel()", 150, leak=True),
        H("c19_write_u8_pec", wu + "poll; event; cancel() racing the queued completion", 300, leak=True),
        H("c19_write_u8_pep", wu + "poll; event; poll", 350, leak=True),
        H("c19_write_u8_pd", wu + "poll; write future dropped mid-flight", 150, leak=True),
        H("c19_write_u8_ped", wu + "poll; event; dropped with the completion queued", 200, leak=True),
        H("c19_write_val_pd", wv + "poll; dropped mid-flight (every untransferred value lifted back and dropped once)", 400, leak=True),
        H("c19_write2_u8", "two consecutive stream writes (u8, 2 items; host answers at once): write -> COMPLETED(k)/DROPPED(k) -> the same buffer resumed "
          "with write_buf; after DROPPED (also DROPPED with k > 0, which the caller sees as Complete(k)) the intrinsic must not be called again", 160, leak=True),
        H("c19_write2_u32", "the same with a 4-byte canonical payload: the resumed buffer must start at the first unsent ELEMENT", 160, leak=True),
        H("c19_read2_u8", "two consecutive stream reads into one vector (capacity 2): after DROPPED(k > 0) the next read is refused without calling the host", 70, leak=True),
        H("c19_maxlen_write_zst", "per-copy length clamp: write of a vector of zero-sized items whose length is symbolic over all of usize; the host must be "
          "offered min(len, 2^28 - 1) items", 15, stubs=False),
        H("c19_maxlen_read_zst", "per-copy length clamp: read into a vector of zero-sized items (capacity usize::MAX) with symbolic length", 15, stubs=False),
        H("c19_read_u8_pc", ru + "poll; cancel()", 150, leak=True),
        H("c19_read_u8_pec", ru + "poll; event; cancel() racing the queued completion", 200, leak=True),
        H("c19_read_u8_pep", ru + "poll; event; poll", 150, leak=True),
        H("c19_read_u8_pd", ru + "poll; read future dropped mid-flight", 120, leak=True),
        H("c19_read_u8_ped", ru + "poll; event; dropped with the completion queued", 100, leak=True),
        H("c19_read_val_pd", rv + "poll; dropped mid-flight (every received item lifted once and dropped once)", 300, leak=True),
    ]
    if tier == "thorough":
        w3 = "stream write of 3 items, canonical payload: "
        r3 = "stream read into capacity 3, canonical payload: "
        hs += [
            H("c19_write_u8_len0_pc", "zero-length stream write (u8): poll; cancel()", 150, leak=True),
            H("c19_next_u8", "RawStreamReader::next (capacity 1): item, or None at end of stream", 450, leak=True),
            H("c19_deep_write2_u64_len3", "two consecutive stream writes, u64 payload, 3 items", 300, leak=True),
            H("c19_deep_abibuf_u8_len2", ab + "u8, 2 items", 40, stubs=False, leak=True),
            H("c19_deep_abibuf_val_len2", ab + "lifted payload, 2 items", 50, stubs=False, leak=True),
            H("c19_write_val_pc", wv + "poll; cancel() (needs ~10 GB)", 900, leak=True),
            H("c19_deep_write_u8_len3_pc", w3 + "poll; cancel()", 300, leak=True),
            H("c19_deep_write_u8_len3_pec", w3 + "poll; event; cancel()", 500, leak=True),
            H("c19_deep_write_u8_len3_pep", w3 + "poll; event; poll", 600, leak=True),
            H("c19_deep_write_u8_len3_pd", w3 + "poll; dropped mid-flight", 300, leak=True),
            H("c19_deep_write_val_len3_pd", "stream write of 3 items, lifted payload: poll; dropped mid-flight", 500, leak=True),
            H("c19_deep_read_u8_cap3_pc", r3 + "poll; cancel()", 200, leak=True),
            H("c19_deep_read_u8_cap3_pec", r3 + "poll; event; cancel()", 250, leak=True),
            H("c19_deep_read_u8_cap3_pep", r3 + "poll; event; poll", 250, leak=True),
            H("c19_deep_read_u8_cap3_pd", r3 + "poll; dropped mid-flight", 150, leak=True),
        ]
    return hs


HARNESSES = {
    "C18": _c18,
    "C19": _c19,
    "C20": _c20,
    "C21": _c21,
    "C24": _c24,
}

ENCODED = {
    "C21": [(AS + "subtask.rs", "fn call(&mut self, params: Self::Params)"), (AS + "subtask.rs", "fn start(&mut self, state: Self::Start)"),
            (AS + "subtask.rs", "fn start_cancelled("), (AS + "subtask.rs", "fn in_progress_update("),
            (AS + "subtask.rs", "fn in_progress_waitable("), (AS + "subtask.rs", "fn in_progress_cancel("),
            (AS + "subtask.rs", "impl Drop for SubtaskHandle"), (AS + "subtask.rs", "fn flag_started("),
            (AS + "subtask.rs", "fn ptr_results("),
            (AS + "waitable.rs", "unsafe fn new(task: *mut cabi::wasip3_task_v2)"), (AS + "waitable.rs", "fn unregister(&mut self, waitable: u32)"),
            (AS + "waitable.rs", "impl Drop for CabiTask"), (AS + "waitable.rs", "pub fn register_waker("),
            (AS + "waitable.rs", "pub fn unregister_waker("), (AS + "waitable.rs", "pub fn poll_complete("),
            (AS + "waitable.rs", "fn poll_complete_with_code("), (AS + "waitable.rs", "pub fn cancel(mut self: Pin<&mut Self>)"),
            (AS + "waitable.rs", "impl<S: WaitableOp> Drop for WaitableOperation<S>"),
            (RT + "mod.rs", "pub fn new(layout: Layout) -> (*mut u8, Option<Cleanup>)"), (RT + "mod.rs", "impl Drop for Cleanup")],
    "C18": [(AS + "waitable.rs", "unsafe fn new(task: *mut cabi::wasip3_task_v2)"), (AS + "waitable.rs", "fn unregister(&mut self, waitable: u32)"),
            (AS + "waitable.rs", "impl Drop for CabiTask"), (AS + "waitable.rs", "pub fn new(op: S, state: S::Start)"),
            (AS + "waitable.rs", "pub fn register_waker("), (AS + "waitable.rs", "unsafe extern \"C\" fn cabi_wake("),
            (AS + "waitable.rs", "pub fn unregister_waker("), (AS + "waitable.rs", "pub fn poll_complete("),
            (AS + "waitable.rs", "fn poll_complete_with_code("), (AS + "waitable.rs", "pub fn cancel(mut self: Pin<&mut Self>)"),
            (AS + "waitable.rs", "pub fn is_done("), (AS + "waitable.rs", "impl<S: WaitableOp> Drop for WaitableOperation<S>"),
            (AS + "cabi.rs", "pub struct wasip3_task {"), (AS + "cabi.rs", "pub struct wasip3_task_vtable {")],
    "C19": [(AS + "stream_support.rs", "pub fn write(&mut self, values: Vec<O::Payload>)"), (AS + "stream_support.rs", "pub fn write_buf("),
            (AS + "stream_support.rs", "pub async fn write_all("), (AS + "stream_support.rs", "pub async fn write_one("),
            (AS + "stream_support.rs", "impl<O> Drop for RawStreamWriter<O>"), (AS + "stream_support.rs", "unsafe impl<'a, O> WaitableOp for StreamWriteOp<'a, O>"),
            (AS + "stream_support.rs", "pub fn read(&mut self, buf: Vec<O::Payload>)"), (AS + "stream_support.rs", "pub async fn next("),
            (AS + "stream_support.rs", "impl<O: StreamOps> Drop for RawStreamReader<O>"),
            (AS + "stream_support.rs", "unsafe impl<'a, O: StreamOps> WaitableOp for StreamReadOp<'a, O>"),
            (AS + "abi_buffer.rs", "pub(crate) fn new(mut vec: Vec<O::Payload>, mut ops: O)"), (AS + "abi_buffer.rs", "pub(crate) fn abi_ptr_and_len("),
            (AS + "abi_buffer.rs", "pub fn into_vec(mut self)"), (AS + "abi_buffer.rs", "pub fn remaining(&self)"),
            (AS + "abi_buffer.rs", "pub(crate) fn advance(&mut self, amt: usize)"), (AS + "abi_buffer.rs", "fn take_vec(&mut self)"),
            (RT + "async_support.rs", "fn decode(val: u32) -> ReturnCode"),
            (AS + "waitable.rs", "pub fn register_waker("), (AS + "waitable.rs", "pub fn unregister_waker("), (AS + "waitable.rs", "fn poll_complete_with_code("),
            (AS + "waitable.rs", "pub fn cancel(mut self: Pin<&mut Self>)"), (RT + "mod.rs", "pub fn new(layout: Layout) -> (*mut u8, Option<Cleanup>)"),
            (RT + "mod.rs", "impl Drop for Cleanup")],
    "C20": [(AS + "future_support.rs", "pub unsafe fn future_new<T>("), (AS + "future_support.rs", "pub unsafe fn raw_future_new<O>("),
            (AS + "future_support.rs", "pub fn write(mut self, value: T) -> FutureWrite<T>"), (AS + "future_support.rs", "impl<T> Drop for FutureWriter<T>"),
            (AS + "future_support.rs", "pub fn cancel(self: Pin<&mut Self>) -> FutureWriteCancel<T>"), (AS + "future_support.rs", "impl<T: 'static> Drop for FutureWrite<T>"),
            (AS + "future_support.rs", "pub fn write(self, value: O::Payload) -> RawFutureWrite<O>"), (AS + "future_support.rs", "impl<O: FutureOps> Drop for RawFutureWriter<O>"),
            (AS + "future_support.rs", "unsafe impl<O: FutureOps> WaitableOp for FutureWriteOp<O>"), (AS + "future_support.rs", "impl<O: FutureOps> Future for RawFutureWrite<O>"),
            (AS + "future_support.rs", "impl<O: FutureOps> IntoFuture for RawFutureReader<O>"), (AS + "future_support.rs", "impl<O: FutureOps> Drop for RawFutureReader<O>"),
            (AS + "future_support.rs", "unsafe impl<O: FutureOps> WaitableOp for FutureReadOp<O>"), (AS + "future_support.rs", "impl<O: FutureOps> Future for RawFutureRead<O>"),
            (AS + "future_support.rs", "impl<T> FutureOps for &FutureVtable<T>"),
            (AS + "waitable.rs", "pub fn register_waker("), (AS + "waitable.rs", "pub fn unregister_waker("), (AS + "waitable.rs", "fn poll_complete_with_code("),
            (AS + "waitable.rs", "pub fn cancel(mut self: Pin<&mut Self>)"), (RT + "mod.rs", "pub fn new(layout: Layout) -> (*mut u8, Option<Cleanup>)"),
            (RT + "mod.rs", "impl Drop for Cleanup")],
    "C24": [(RT + "mod.rs", "pub unsafe fn cabi_realloc("), (RT + "mod.rs", "pub fn new(layout: Layout) -> (*mut u8, Option<Cleanup>)"),
            (RT + "mod.rs", "pub fn forget(self)"), (RT + "mod.rs", "impl Drop for Cleanup"),
            ("crates/rust/src/lib.rs", "RuntimeItem::CabiDealloc =>")],
}

BOUNDS = {
    "C21": {
        "quick": {"calls": 1, "host_status_events": "<= 2 (STARTING -> STARTED -> RETURNED is the longest legal sequence)",
                  "polls": "<= 3, incl. one spurious re-poll", "drop_points": "before the first poll, after every poll, with an event queued",
                  "abi_layout_size": [0, 2], "unwind": 3, "task_abi": ["v1", "v2 (clone returns same pointer)", "v2 (clone returns fresh pointer)"],
                  "subtask_handle": "symbolic in [1, 2^28)"},
        "thorough": {"calls": 1, "host_status_events": "<= 2", "polls": "<= 4, incl. two spurious re-polls",
                     "abi_layout_size": [0, 2, 8], "unwind": "3 / 9", "task_abi": ["v1", "v2 same-pointer clone", "v2 fresh-pointer clone"],
                     "subtask_handle": "symbolic in [1, 2^28)"},
    },
}

BOUNDS["C18"] = {
    "quick": {"operations": 1, "tasks": "1 or 2", "host_events": "<= 2", "polls": "<= 3", "schedules": "26 fixed scripts over {poll, event, cancel(), switch task, drop}",
              "task_abi": "one task: v1/v2 symbolic, clone returns same or fresh pointer (symbolic); two tasks: v2/v2, v1/v1, v1/v2, v2/v1", "unwind": 2},
    "thorough": {"operations": 1, "tasks": "1 or 2", "host_events": "<= 2", "polls": "<= 4", "schedules": "33 fixed scripts", "unwind": 2},
}
BOUNDS["C19"] = {
    "quick": {"streams": 1, "ends_per_harness": 1, "vector_len": "0, 1, 3 (AbiBuffer u8/lifted), 3 (u32), 2 (u64) / 0, 2 (write) / capacity 2 (read) / symbolic over usize for zero-sized items",
              "host_events": "<= 1 per operation", "transfer_counts": "symbolic k <= remaining", "item_width": "1 byte",
              "payload": ["canonical u8", "lifted with lists (ownership ledger)"], "task_abi": "v1/v2 symbolic", "unwind": 5,
              "return_code": "all 2^32 inputs"},
}
BOUNDS["C19"]["thorough"] = dict(BOUNDS["C19"]["quick"], vector_len="0..3 (AbiBuffer) / 0, 2, 3 (write) / capacity 2, 3 (read)")
BOUNDS["C20"] = {
    "quick": {"futures": 1, "ends_per_harness": 1, "host_events": "<= 1 per operation", "polls": "<= 2", "payload": "1-byte buffer, or zero-sized",
              "task_abi": "raw/read scenarios: v1/v2 symbolic; typed scenarios: v2", "unwind": 3},
}
BOUNDS["C20"]["thorough"] = dict(BOUNDS["C20"]["quick"], polls="<= 3")
BOUNDS["C24"] = {
    "quick": {"requests": 2, "alignment": "2^k, k in 0..=16 (symbolic)", "sizes_bytewise": "0..=16 (contents compared bytewise, unwind 18)",
              "sizes_ledger": "0..=2^20 (Layout arguments only)", "cleanup_size": "0..=16"},
}
BOUNDS["C24"]["thorough"] = BOUNDS["C24"]["quick"]

OUTSIDE = {
    "C21": ["the code *generated* for params_lower / params_dealloc_lists / results_lift (the Subtask trait is implemented by the harness; "
            "the generated implementations are C05/C06's subject)",
            "more than one import call in flight at a time; async (BLOCKED) subtask.cancel (the runtime only uses the sync form)",
            "the executor (start_task/callback/TaskState): events are delivered by the harness the way TaskState::deliver_waitable_event does "
            "(remove the registration, then invoke the callback)",
            "abi_layout sizes other than 0, 2 (quick) and 8 (thorough); the size only feeds Cleanup::new / the poisoning loop of Cleanup::drop"],
}

ASSUMPTIONS_COMMON = [
    "stub: cabi::wasip3_task_set is replaced by a single global cell (mock_task::stub_task_set) -- the weak C symbol of the real build",
    "mock exporting task: waitable_register stores (callback, ptr) for one waitable and returns the previous ptr; waitable_unregister removes and "
    "returns it; clone/drop count references (v2); an event is delivered by removing the registration and then calling the callback "
    "(= TaskState::deliver_waitable_event)",
    "the harness polls with Waker::noop(); wake-ups are not observed",
    "mock task trap: waitable_register / waitable_unregister naming a handle that the operation (or its owner) has already released (subtask.drop, "
    "drop-readable/-writable ran) -- waitable.join on a closed index",
    "kani: --no-assertion-reach-checks (vacuity is guarded by explicit kani::cover! witnesses instead); default Kani checks otherwise "
    "(pointer validity, overflow, unwinding assertions ON)",
    "alias lint after every run (rtkani/alias_lint.py): no function outside the harness crate touches a harness static (guards against a Kani 0.68 "
    "quirk that compiles a constant as a read of a `static mut` with the same initial bytes); a finding makes the harness inconclusive",
]

OUTSIDE["C18"] = [
    "SharedTaskState::waitable_register / waitable_unregister / cabi_clone / cabi_drop and TaskState::deliver_waitable_event themselves: they sit on a "
    "BTreeMap<u32, _> that CBMC cannot take (one insert + one remove exhausts 16 GB); the 'runtime waitable map' half of the property is claimed only "
    "through the wasip3_task C ABI contract these functions implement (the mock exporting task), not through their code",
    "symbolic (solver-chosen) schedules: a loop of 5 symbolic steps over this operation runs CBMC out of 12 GB; the schedules are the enumerated fixed scripts",
    "more than one operation per task; more than two tasks; wake-ups across tasks (C23)",
    "the concrete stream/future/subtask operations are exercised against the same mock task in C19/C20/C21",
]
OUTSIDE["C19"] = [
    "write_all / write_one (several rendezvous inside one async fn): CBMC's symbolic execution does not finish within 900 s even for one item "
    "(each unwinding of the `while let` loop re-instantiates a whole write operation); the single-write harnesses cover each rendezvous",
    "lifted payload combined with host events or with cancel of a read (write_val_pep, read_val_pep, read_val_pc, ...): CBMC exceeds the 12 GB cap even "
    "with one item (AbiBuffer::take_vec's lift loop is re-instantiated at every drop site of the operation state); the lifted payload is covered by the "
    "AbiBuffer one-step harnesses (all states), by write/read dropped mid-flight, and (thorough tier) by write + cancel; the event paths are payload-"
    "independent and are covered with the canonical payload",
    "RawStreamReader::collect (Vec growth over several reads) and the futures-stream adapter (pulls in the `futures` crate)",
    "vectors longer than 3 items; items wider than one byte; more than one stream; both ends inside one component instance",
    "the inter-task / unit-stream helpers",
    "code generated for lower/lift/dealloc_lists (the StreamOps callbacks are the harness's ledger functions)",
    "StreamVtable-based StreamOps (&'static StreamVtable<T>): the harness implements StreamOps directly; the vtable adapter is 12 one-line forwarders",
]
OUTSIDE["C20"] = [
    "DeferredWrite's own Arc/Wake mechanics inside RawFutureWriter::write_and_forget: with the real code CBMC's symbolic execution does not terminate "
    "(> 20 min; every waker drop may be the Arc's last reference, whose destructor drops the write, which cancels, which drops a waker ...); the typed "
    "harnesses replace write_and_forget by a harness-driven deferred write with the same protocol",
    "both ends of one future inside the same component instance; more than one future",
    "the error-context / unit-stream helpers; futures of futures",
    "code generated for lower/lift/dealloc_lists (the vtable entries are the harness's ledger functions)",
]
OUTSIDE["C24"] = [
    "alignment of the returned ADDRESS: not observable in CBMC's object/offset pointer model; the check shows instead that the Layout handed to the "
    "global allocator carries the requested alignment, and relies on GlobalAlloc's contract for the address",
    "allocation failure (allocator returns null -> handle_alloc_error / unreachable): Kani runs with --no-malloc-may-fail",
    "request histories longer than 2 (cabi_realloc keeps no state of its own; each request only depends on the block it is given)",
    "bytewise content comparison for sizes above 16 (the code path does not depend on the size beyond zero / non-zero)",
    "the wasm export shim cabi_realloc_wit_bindgen_<version> (a one-line forwarder, only compiled for wasm) and the prebuilt libwit_bindgen_cabi_realloc.a",
    "requests (old_len > 0, new_len == 0): excluded by the canonical ABI and rejected by a debug_assert in cabi_realloc",
]

ASSUMPTIONS = {
    "C21": [
        "stub: subtask::cancel ([subtask-cancel]) and subtask::drop ([subtask-drop]) are the mock host (c21.rs) carrying the trap conditions as assertions",
        "assume: call_import answers RETURNED (no handle) or STARTING/STARTED with a handle in [1, 2^28)",
        "assume: host events are monotone -- after STARTING: STARTED or RETURNED; after STARTED: RETURNED; only while the subtask is registered",
        "assume: subtask.cancel answers STARTED_CANCELLED | RETURNED_CANCELLED | RETURNED when the guest last saw STARTING, "
        "RETURNED_CANCELLED | RETURNED when it last saw STARTED",
        "the host writes the result area right before it reports RETURNED and reads the parameter area during the call (byte accesses)",
        "CBMC --memory-leak-check: a block still allocated when the harness ends is a failure (parameter/result area freed)",
    ],
}

ASSUMPTIONS["C18"] = [
    "the operation is a minimal WaitableOp (c18.rs): start answers PENDING | PROGRESS | DONE; events carry PROGRESS | DONE and are delivered only while "
    "the waitable is registered and unresolved; the sync cancel intrinsic answers DONE | CANCELLED",
    "assume: waitable handle in [1, 2^28)",
    "mock traps (assertions): cancel intrinsic / handle drop while the waitable is registered with any task, after resolution, or twice; registration "
    "with a second task while still registered with the first; registration of a different callback pointer for the same pinned operation; event "
    "delivery after the operation's memory is gone",
    "counting waker (RawWakerVTable of the harness): each delivered event wakes once; clones balanced by drops",
]
ASSUMPTIONS["C19"] = [
    "mock host = a direct StreamOps implementation (c19.rs): stream.write(h, ptr, n) answers COMPLETED(k), 1 <= k <= n (k = 0 only when n = 0), DROPPED(k), "
    "0 <= k <= n (and DROPPED(0) forever after), or BLOCKED; events COMPLETED(k >= 1) | DROPPED(k); cancel answers COMPLETED(k) | DROPPED(k) | "
    "CANCELLED(k); stream.read mirrors this",
    "the host copies k items out of / into the buffer at the moment it reports them (dangling-pointer check); written items are 0x10, 0x11, ..., "
    "items the host produces are 0x40, 0x41, ... (so order, duplication and loss are observable)",
    "mock traps (assertions): cancel without an operation in progress or while registered; drop of an end while an operation is in progress or while "
    "registered; a second concurrent read/write on one end; ANY stream.read/write on an end whose previous copy answered DROPPED (CopyState.DONE); a "
    "copy of more than Buffer.MAX_LENGTH = 2^28 - 1 items",
    "wide canonical payloads (u32, u64): items are the little-endian values 0x10, 0x11, ...; the host checks the low byte of every element at stride "
    "size_of::<T>() and that the neighbouring bytes are zero",
    "zero-sized payload (a `stream` without element type) for the length clamp: a Vec<()> has any length without storage, so the length is symbolic over usize",
    "c19_write2_* / c19_read2_u8: the host does not answer BLOCKED (assume) -- both rendezvous complete at once",
    "assume: handles in [1, 2^28), distinct",
    "should_panic harness c19_return_code_invalid_traps: a check placed after the call fails iff decode returns for an invalid code; the runner treats "
    "that failure as a violation",
    "CBMC --memory-leak-check on all stream harnesses (Vec storage, Cleanup scratch buffers)",
]
ASSUMPTIONS["C20"] = [
    "mock host = the FutureVtable the generator would emit (c20.rs): future.write answers COMPLETED | DROPPED | BLOCKED (DROPPED forever once the reader is "
    "gone), events COMPLETED | DROPPED, cancel-write answers COMPLETED | DROPPED | CANCELLED; future.read answers COMPLETED | BLOCKED, event COMPLETED, "
    "cancel-read answers COMPLETED | CANCELLED",
    "mock traps (assertions): drop-writable before a write COMPLETED or answered DROPPED; drop/cancel while an operation is in progress resp. not in progress; "
    "any intrinsic on an end that is still registered with a task; a second value taken from one future",
    "assume: handles in [1, 2^28), distinct",
    "stub: std::alloc::alloc is a shim that asserts the request is the 1-byte element layout and serves it with a constant-size request (keeps the buffer "
    "size concrete for CBMC; for the zero-sized payload it asserts that nothing is allocated)",
    "stub (typed harnesses): RawFutureWriter::write_and_forget -> harness-driven deferred write (start + poll; if blocked the completion event is delivered "
    "at once and the write polled again; result dropped) -- see outside_claim",
    "the host reads/writes the value buffer exactly when it completes the operation (dangling-pointer check)",
    "CBMC --memory-leak-check on the raw write/read harnesses",
]
ASSUMPTIONS["C24"] = [
    "assume: align = 2^k with k <= 16; sizes <= 16 (model harnesses) / <= 2^20 (ledger harnesses); a non-empty block is never resized to 0",
    "stub (ledger harnesses only): std::alloc::{alloc, realloc, dealloc} are recording shims (c24.rs rec_alloc/rec_realloc/rec_dealloc) that serve "
    "blocks from alloc_zeroed; the model harnesses stub nothing",
    "GlobalAlloc contract: a block obtained for Layout(size, align) is aligned to `align` (alignment of addresses is delegated to it)",
    "the generated `cabi_dealloc` item is the text between the quotes of RuntimeItem::CabiDealloc in crates/rust/src/lib.rs, extracted at run time",
    "CBMC --memory-leak-check on the *_model harnesses",
]

TRUSTED = [
    "Kani 0.68 / CBMC 6.11 (CaDiCaL): Rust MIR -> goto translation, CBMC's memory model (object/offset pointers, malloc/free, dangling and double-free checks)",
    "the mock host contract in /verif/rtkani/src (my reading of the component-model canonical ABI: async lower, subtask.cancel/drop, "
    "stream/future read/write/cancel/drop, waitable events)",
    "the mock exporting task (mock_task.rs) as a model of the wasip3_task C ABI documented in cabi.rs",
]

_slot_guard = threading.Lock()


def _crate_dir() -> str:
    """One build directory per (repository path, harness source text): concurrent `check` runs never see a
    half-updated snapshot, identical inputs share the directory."""
    h = hashlib.md5(os.path.abspath(vlib.REPO).encode())
    srcdir = os.path.join(CRATE_SRC, "src")
    for n in sorted(os.listdir(srcdir)):
        if n.endswith(".rs"):
            h.update(n.encode())
            h.update(open(os.path.join(srcdir, n), "rb").read())
    h.update(open(os.path.join(CRATE_SRC, "Cargo.toml"), "rb").read())
    return os.path.join(WORK, "crate_" + h.hexdigest()[:10])


def _gc_crate_dirs(keep: str) -> None:
    """Drop build directories of older harness sources (unused for more than 6 hours)."""
    now = time.time()
    for n in os.listdir(WORK):
        d = os.path.join(WORK, n)
        if n.startswith("crate_") and d != keep and os.path.isdir(d):
            try:
                if now - os.path.getmtime(os.path.join(d, "Cargo.toml")) > 6 * 3600:
                    shutil.rmtree(d, ignore_errors=True)
            except OSError:
                pass


GEN_NOTES = {}


def extract_cabi_dealloc():
    """Text of the `cabi_dealloc` runtime item the Rust backend emits."""
    try:
        src = open(os.path.join(vlib.REPO, "crates/rust/src/lib.rs"), encoding="utf-8").read()
    except OSError:
        return None
    m = re.search(r'RuntimeItem::CabiDealloc\s*=>\s*\{.*?push_str\(\s*"\\\n(.*?)\n\s*",', src, re.S)
    if not m or "fn cabi_dealloc" not in m.group(1) or "\\" in m.group(1):
        return None
    return m.group(1)


def prepare_crate() -> str:
    """(Re)generate the build directory for vlib.REPO."""
    d = _crate_dir()
    os.makedirs(d, exist_ok=True)
    _gc_crate_dirs(d)
    cargo = open(os.path.join(CRATE_SRC, "Cargo.toml")).read()
    cargo = cargo.replace('path = "/repo/crates/guest-rust"', 'path = "%s/crates/guest-rust"' % os.path.abspath(vlib.REPO))
    tmp = os.path.join(d, "Cargo.toml.tmp")
    with open(tmp, "w") as f:
        f.write(cargo)
    os.replace(tmp, os.path.join(d, "Cargo.toml"))
    # snapshot of the harness sources (so that editing /verif/rtkani/src during a run cannot break it)
    src = os.path.join(d, "src")
    if os.path.islink(src):
        os.unlink(src)
    os.makedirs(src, exist_ok=True)
    names = [n for n in os.listdir(os.path.join(CRATE_SRC, "src")) if n.endswith(".rs")]
    for n in names:
        a, b = os.path.join(CRATE_SRC, "src", n), os.path.join(src, n)
        if not os.path.exists(b) or open(a, "rb").read() != open(b, "rb").read():
            shutil.copy2(a, b + ".tmp")
            os.replace(b + ".tmp", b)
    for n in os.listdir(src):
        if n not in names:
            os.unlink(os.path.join(src, n))
    gen = extract_cabi_dealloc()
    GEN_NOTES["cabi_dealloc"] = gen is not None
    if gen is not None:
        text = "// extracted by engines/rtkani.py from %s/crates/rust/src/lib.rs (RuntimeItem::CabiDealloc)\n%s\n" % (vlib.REPO, gen)
        b = os.path.join(src, "gen_cabi_dealloc.rs")
        if open(b).read() != text:
            with open(b, "w") as f:
                f.write(text)
    shutil.copy(os.path.join(vlib.REPO, "Cargo.lock"), os.path.join(d, "Cargo.lock"))
    # settle Cargo.lock once (adds the `rtkani` package) so that parallel cargo runs do not race on it
    vlib.run_cmd(["cargo", "metadata", "--format-version", "1", "--offline"], cwd=d, timeout=120,
                 log=os.path.join(WORK, "logs", "metadata.log"))
    return d


class Slot:
    """Exclusive use of /verif/work/rtkani/slot<k> (flock), so that parallel
    `check` invocations never share a cargo target directory."""

    def __enter__(self):
        os.makedirs(WORK, exist_ok=True)
        while True:
            for k in range(NSLOTS):
                f = open(os.path.join(WORK, "slot%d.lock" % k), "w")
                try:
                    fcntl.flock(f, fcntl.LOCK_EX | fcntl.LOCK_NB)
                except OSError:
                    f.close()
                    continue
                self.f = f
                self.dir = os.path.join(WORK, "slot%d" % k)
                return self
            time.sleep(2)

    def __exit__(self, *a):
        fcntl.flock(self.f, fcntl.LOCK_UN)
        self.f.close()


def kani_cmd(h: dict, target_dir: str, playback: bool = False) -> list:
    cmd = ["/usr/bin/time", "-f", "RTKANI_RUSAGE user=%U sys=%S wall=%e maxrss_kb=%M",
           "cargo", "kani", "-Z", "stubbing", "--harness", "%s::%s" % (h["module"], h["name"]), "--exact",
           "--target-dir", target_dir, "--no-assertion-reach-checks"]
    if playback:
        cmd += ["-Z", "concrete-playback", "--concrete-playback=print"]
    if h.get("leak"):
        cmd += ["-Z", "unstable-options", "--cbmc-args", "--memory-leak-check"]
    return cmd


CHECK_RE = re.compile(r"^Check (\d+): (.+)\n\t - Status: (\w+)\n\t - Description: \"(.*)\"\n\t - Location: (.*)$", re.M)


def parse(out: str, rc: int) -> dict:
    r = {"status": "inconclusive", "reason": "", "checks": 0, "failed": [], "covers": (0, 0), "cpu_s": None, "rss_gb": None,
         "unsat_covers": []}
    m = re.search(r"RTKANI_RUSAGE user=([\d.]+) sys=([\d.]+) wall=([\d.]+) maxrss_kb=(\d+)", out)
    if m:
        r["cpu_s"] = float(m.group(1)) + float(m.group(2))
        r["rss_gb"] = round(int(m.group(4)) / 1048576.0, 2)
    m = re.search(r"\*\* (\d+) of (\d+) failed", out)
    if m:
        r["checks"] = int(m.group(2))
    m = re.search(r"\*\* (\d+) of (\d+) cover properties satisfied", out)
    if m:
        r["covers"] = (int(m.group(1)), int(m.group(2)))
    for cm in CHECK_RE.finditer(out):
        num, pid, status, desc, loc = cm.groups()
        desc = desc.strip('"')
        if status == "FAILURE":
            r["failed"].append({"id": pid, "description": desc, "location": loc})
        elif status in ("UNSATISFIABLE", "UNREACHABLE") and ".cover." in pid:
            r["unsat_covers"].append(desc)
    if rc == -9:
        r["reason"] = "timeout"
        return r
    if "Status: ERROR" in out or "out of memory" in out or "std::bad_alloc" in out:
        r["reason"] = "CBMC ran out of memory (cap %d GB)" % MEM_GB
        return r
    if "VERIFICATION:- SUCCESSFUL" in out:
        sat, tot = r["covers"]
        if sat < tot or r["unsat_covers"]:
            r["reason"] = "vacuity guard: %d of %d cover witnesses satisfied (%s)" % (sat, tot, "; ".join(r["unsat_covers"])[:200])
            return r
        r["status"] = "ok"
        return r
    if "VERIFICATION:- FAILED" in out:
        real = [f for f in r["failed"] if not is_model_limit(f)]
        if not r["failed"]:
            r["reason"] = "VERIFICATION FAILED without a failed check (CBMC error?)"
        elif not real:
            r["reason"] = "only model-limit checks failed: " + "; ".join(sorted({f["description"] for f in r["failed"]}))[:300]
        else:
            r["status"] = "failed"
            r["failed_real"] = real
        return r
    errs = [l for l in out.split("\n") if l.startswith("error")]
    r["reason"] = "no verdict (build error?): " + (" | ".join(errs)[:300] if errs else "rc=%s" % rc)
    return r


def is_model_limit(f: dict) -> bool:
    d = f["description"]
    return (".unwind." in f["id"] or d.startswith("unwinding assertion") or "unsupported_construct" in f["id"]
            or "is not currently supported by Kani" in d or "recursion unwinding" in d
            # assertions about the harness itself (its own bounds / script sanity), not about the code under test
            or d.startswith("harness bound") or d.startswith("harness:") or d.startswith("harness error"))


def norm(desc: str) -> str:
    s = re.sub(r"0x[0-9a-fA-F]+|\d+", "N", desc)
    s = re.sub(r"[^A-Za-z0-9_.:<>*!=&|+-]+", "_", s).strip("_")
    return s[:90]


def role_of(prop: str, h: dict, f: dict) -> str:
    return "%s/rtkani/%s/%s" % (prop, h["name"], norm(f["description"]))


PLAYBACK_RE = re.compile(r"Concrete playback unit test for `[^`]*`:\n```\n(.*?)\n```", re.S)


def alias_lint(slot_dir: str, h: dict):
    """Kani 0.68 quirk guard (rtkani/alias_lint.py): a constant of the code under test whose bytes equal the
    initializer of a harness `static mut` is compiled as a read of that static.  Returns a list of findings."""
    import glob
    import importlib.util
    cands = glob.glob(os.path.join(slot_dir, "kani", "*", "debug", "build", "rtkani", "*", "out", "*%d%s.out" % (len(h["name"]), h["name"])))
    if not cands:
        return None
    path = max(cands, key=os.path.getmtime)
    spec = importlib.util.spec_from_file_location("alias_lint", os.path.join(CRATE_SRC, "alias_lint.py"))
    mod = importlib.util.module_from_spec(spec)
    spec.loader.exec_module(mod)
    return ["%s touches %s" % (fn, sym) for (fn, sym) in sorted(mod.lint(path))]


def native_playback(slot_dir: str, crate: str, h: dict, test_src: str, env: dict) -> dict:
    """Compile the concrete-playback unit test Kani printed into a scratch copy of the harness crate and run it
    NATIVELY (`cargo kani playback`; kani::any() then yields the recorded values).  kani::stub attributes do not
    exist in a native build, so a run that reaches a stubbed function diverges (panics in the library's shim)."""
    m = re.search(r"fn (kani_concrete_playback_\w+)\(", test_src or "")
    if not m:
        return {"verdict": "none", "detail": "no playback test printed"}
    name = m.group(1)
    pb = slot_dir + "_pb"
    os.makedirs(os.path.join(pb, "src"), exist_ok=True)
    for n in ("Cargo.toml", "Cargo.lock"):
        shutil.copy(os.path.join(crate, n), os.path.join(pb, n))
    for n in os.listdir(os.path.join(crate, "src")):
        shutil.copy(os.path.join(crate, "src", n), os.path.join(pb, "src", n))
    with open(os.path.join(pb, "src", h["module"] + ".rs"), "a") as f:
        f.write("\n// appended by engines/rtkani.py: native replay of a Kani counterexample\n" + test_src[test_src.index("#[test]"):] + "\n")
    log = os.path.join(WORK, "logs", "%s.native.log" % h["name"])
    rc, out, dt = vlib.run_cmd(["cargo", "kani", "playback", "-Z", "concrete-playback", "--", name], cwd=pb, env=env, timeout=900,
                               mem_gb=MEM_GB, log=log)
    if re.search(r"test result: ok\. 1 passed", out):
        return {"verdict": "pass", "detail": "native run of the recorded inputs completes without panic", "test": name}
    pm = re.search(r"panicked at ([^\n]*):\n([^\n]*)", out)
    if "test result: FAILED" in out or pm:
        return {"verdict": "panic", "detail": (pm.group(2) if pm else "test failed")[:300], "where": pm.group(1) if pm else "", "test": name}
    return {"verdict": "none", "detail": "native playback did not run (rc=%s)" % rc, "test": name}


def run_harness(prop: str, h: dict, crate: str, timeout: int, env: dict) -> dict:
    with Slot() as slot:
        log = os.path.join(WORK, "logs", "%s.log" % h["name"])
        cmd = kani_cmd(h, slot.dir)
        rc, out, dt = vlib.run_cmd(cmd, cwd=crate, env=env, timeout=timeout, mem_gb=MEM_GB, log=log)
        res = parse(out, rc)
        if h.get("forbid") and res["status"] == "ok":
            bad = [f for f in res["failed"] if h["forbid"] in f["description"]]
            if bad:
                res["status"] = "failed"
                res["failed_real"] = bad
        res.update({"harness": h["name"], "wall_s": round(dt, 1), "cmd": " ".join(cmd[3:])})
        if res["status"] in ("ok", "failed"):
            al = alias_lint(slot.dir, h)
            res["alias_lint"] = al
            if al:
                res["status"] = "inconclusive"
                res["reason"] = "Kani constant/static aliasing quirk would distort this run: " + "; ".join(al)[:300]
            elif al is None:
                res["status"] = "inconclusive"
                res["reason"] = "alias lint could not find the goto binary of the harness"
        if res["status"] == "failed":
            # candidate violation: second, independent run with concrete playback
            log2 = os.path.join(WORK, "logs", "%s.playback.log" % h["name"])
            cmd2 = kani_cmd(h, slot.dir, playback=True)
            rc2, out2, dt2 = vlib.run_cmd(cmd2, cwd=crate, env=env, timeout=timeout, mem_gb=MEM_GB, log=log2)
            res2 = parse(out2, rc2)
            if h.get("forbid") and res2["status"] == "ok":
                bad = [f for f in res2["failed"] if h["forbid"] in f["description"]]
                if bad:
                    res2["status"] = "failed"
                    res2["failed_real"] = bad
            # Kani prints one unit test per failed check AND per satisfied cover: take the one that belongs to a failed check
            tests = PLAYBACK_RE.findall(out2)
            wanted = [f["description"] for f in res.get("failed_real", [])]
            pick = [t for t in tests if any(d in t.split("#[test]")[0] for d in wanted)]
            if not pick:
                pick = [t for t in tests if "Check for `cover`" not in t.split("#[test]")[0]]
            res["playback_test"] = pick[0] if pick else None
            res["playback_status"] = res2["status"]
            res["playback_failed"] = res2.get("failed_real", [])
            if res2["status"] == "failed" and res["playback_test"]:
                try:
                    res["native"] = native_playback(slot.dir, crate, h, res["playback_test"], env)
                except Exception as e:  # noqa: BLE001
                    res["native"] = {"verdict": "none", "detail": "native playback error: %r" % e}
            res["wall_s"] = round(dt + dt2, 1)
            if res2.get("cpu_s") and res.get("cpu_s"):
                res["cpu_s"] += res2["cpu_s"]
    return res


def _write_replay(prop_id: str, name: str, payload: dict) -> str:
    """Counterexamples found on a scratch copy of the repository (VERIF_REPO=..., i.e. mutation self-tests) go to
    /verif/work/mut_replays, not to /verif/replays."""
    if os.path.abspath(vlib.REPO) == "/repo":
        return vlib.write_replay(prop_id, name, payload)
    d = os.path.join(vlib.WORK_DIR, "mut_replays")
    os.makedirs(d, exist_ok=True)
    path = os.path.join(d, "%s_%s.json" % (prop_id, name))
    with open(path, "w") as f:
        json.dump(payload, f, indent=1, sort_keys=True, default=str)
    return path


def _env() -> dict:
    env = vlib.cargo_env()
    env.pop("CARGO_TARGET_DIR", None)
    return env


def run(prop_id: str, tier: str, seed: int) -> vlib.Outcome:
    out = vlib.Outcome(level="model_checking")
    out.trusted_base = list(TRUSTED)
    if prop_id not in HARNESSES:
        out.inconclusive.append("no harness yet")
        out.explanation = "rtkani: no harness for %s yet" % prop_id
        return out
    hs = HARNESSES[prop_id](tier)
    if os.environ.get("VERIF_RTKANI_ONLY"):
        pat = re.compile(os.environ["VERIF_RTKANI_ONLY"])
        hs = [h for h in hs if pat.search(h["name"])]
    os.makedirs(os.path.join(WORK, "logs"), exist_ok=True)
    crate = prepare_crate()
    env = _env()
    timeout = TIMEOUT[tier]
    out.obligations = len(hs)
    out.bounds = dict(BOUNDS.get(prop_id, {}).get(tier, {}))
    out.bounds.update({"per_harness_timeout_s": timeout, "memory_cap_gb": MEM_GB, "parallel": MAX_PARALLEL})
    out.outside_claim = list(OUTSIDE.get(prop_id, []))
    out.assumptions = ASSUMPTIONS_COMMON + ASSUMPTIONS.get(prop_id, [])
    out.functions_encoded = [vlib.source_span(f, pat) for f, pat in ENCODED.get(prop_id, [])]
    out.checker_cmd = ("cd %s && RUSTFLAGS='%s' cargo kani -Z stubbing --harness <module>::<name> --exact --target-dir %s/slot<k> "
                       "--no-assertion-reach-checks [-Z unstable-options --cbmc-args --memory-leak-check]"
                       % (crate, env["RUSTFLAGS"], WORK))
    results = {}
    for h in hs:
        if h.get("needs") and not GEN_NOTES.get(h["needs"]):
            results[h["name"]] = {"status": "inconclusive", "reason": "could not extract the generated `%s` item from the repository" % h["needs"],
                                  "checks": 0, "covers": (0, 0), "wall_s": 0, "cpu_s": None, "harness": h["name"]}
    hs_sorted = sorted([h for h in hs if h["name"] not in results], key=lambda h: -h["est"])
    with concurrent.futures.ThreadPoolExecutor(max_workers=min(MAX_PARALLEL, max(1, len(hs)))) as ex:
        futs = {ex.submit(run_harness, prop_id, h, crate, timeout, env): h for h in hs_sorted}
        for fu in concurrent.futures.as_completed(futs):
            h = futs[fu]
            try:
                results[h["name"]] = fu.result()
            except Exception as e:  # noqa: BLE001
                results[h["name"]] = {"status": "inconclusive", "reason": "runner error: %r" % e, "checks": 0, "covers": (0, 0),
                                      "wall_s": 0, "cpu_s": None, "harness": h["name"]}
    cpu = 0.0
    rss = 0.0
    covers_total = 0
    for h in hs:
        r = results[h["name"]]
        out.queries += r.get("checks", 0) + r.get("covers", (0, 0))[1]
        out.solver_s += r.get("wall_s", 0)
        cpu += r.get("cpu_s") or 0
        rss = max(rss, r.get("rss_gb") or 0)
        covers_total += r.get("covers", (0, 0))[0]
        sample = {"harness": h["name"], "scenario": h["scenario"], "verdict": r["status"], "checks": r.get("checks", 0),
                  "cover_witnesses": "%d/%d" % r.get("covers", (0, 0)), "wall_s": r.get("wall_s"), "cpu_s": round(r.get("cpu_s") or 0, 1),
                  "max_rss_gb": r.get("rss_gb")}
        out.samples.append(sample)
        if r["status"] == "ok":
            out.discharged += 1
        elif r["status"] == "failed":
            first = {f["description"]: f for f in r["failed_real"]}
            again = {f["description"] for f in r.get("playback_failed", [])}
            if r.get("playback_status") != "failed" or not (set(first) & again):
                out.inconclusive.append("%s: failed (%s) but the playback run did not reproduce it (%s)"
                                        % (h["name"], "; ".join(first)[:160], r.get("playback_status")))
                continue
            payload = {"property": prop_id, "engine": "rtkani", "harness": "%s::%s" % (h["module"], h["name"]),
                       "scenario": h["scenario"], "repo": os.path.abspath(vlib.REPO), "failed_checks": r["failed_real"],
                       "reproduced_checks": sorted(set(first) & again), "kani_concrete_playback_test": r.get("playback_test"),
                       "cmd": r.get("cmd"), "leak_check": bool(h.get("leak")),
                       "how_to_replay": "/verif/check %s --replay <this file>" % prop_id}
            path = _write_replay(prop_id, "rtkani_" + h["name"], payload)
            nat = r.get("native") or {"verdict": "none", "detail": "not attempted"}
            common = sorted(set(first) & again)
            user_asserts = all(".assertion." in first[d]["id"] and not first[d]["location"].startswith("../") for d in common)
            if nat["verdict"] == "panic" and any(d in nat["detail"] for d in common):
                native = "replay: reproduced natively (cargo kani playback, test %s panics with the same assertion)" % nat.get("test")
            elif nat["verdict"] == "panic":
                native = ("replay: kani trace only (the native run of the recorded inputs diverges -- stubs do not exist natively -- and panics with: %s)"
                          % nat["detail"][:120])
            elif nat["verdict"] == "pass" and user_asserts:
                out.inconclusive.append("%s: Kani fails \"%s\" twice, but a native run of the recorded inputs (cargo kani playback) passes the same "
                                        "assertion -- model artefact suspected, not reported as a violation" % (h["name"], "; ".join(common)[:160]))
                continue
            elif nat["verdict"] == "pass":
                native = "replay: kani trace only (a native run of the recorded inputs completes; the failed check is a memory-model check that a native run cannot observe)"
            else:
                native = "replay: kani trace only (%s)" % nat["detail"][:100]
            payload["native_playback"] = nat
            with open(path, "w") as f:
                json.dump(payload, f, indent=1, sort_keys=True, default=str)
            for d in common[:4]:
                f = first[d]
                out.violations.append(vlib.Violation(
                    role=role_of(prop_id, h, f),
                    what="%s [%s] fails \"%s\" at %s; scenario: %s; %s (second Kani run with concrete playback failed the same check; witness values in the replay file)"
                         % (h["name"], prop_id, d, f["location"], h["scenario"], native),
                    replay=path, witness={"failed": f, "playback_test": r.get("playback_test")}))
        else:
            out.inconclusive.append("%s: %s" % (h["name"], r.get("reason", "?")))
    out.extra = {"evaluations": out.queries, "distinct_nontrivial": out.discharged,
                 "cpu_s": round(cpu, 1), "max_rss_gb": rss, "cover_witnesses_satisfied": covers_total,
                 "rule": "one evaluation per property Kani/CBMC checked (assertions, pointer/overflow/unwinding checks, cover witnesses, "
                         "summed over harnesses); an obligation is one proof harness; it is discharged when Kani reports VERIFICATION "
                         "SUCCESSFUL and all of its cover witnesses are SATISFIED",
                 "harness_results": {k: {kk: vv for kk, vv in v.items() if kk in ("status", "reason", "checks", "covers", "wall_s", "cpu_s", "rss_gb")}
                                     for k, v in results.items()}}
    return out


def replay(prop_id: str, path: str) -> int:
    """Re-run the harness named in a replay file against vlib.REPO's current
    tree.  Exit 1 if the recorded check still fails, 0 if the harness now
    verifies, 2 otherwise."""
    with open(path) as f:
        p = json.load(f)
    mod, name = p["harness"].split("::")
    h = {"name": name, "module": mod, "leak": p.get("leak_check", False), "stubs": True}
    os.makedirs(os.path.join(WORK, "logs"), exist_ok=True)
    crate = prepare_crate()
    res = run_harness(prop_id, h, crate, TIMEOUT["thorough"], _env())
    want = set(p.get("reproduced_checks") or [f["description"] for f in p.get("failed_checks", [])])
    if res["status"] == "failed":
        got = {f["description"] for f in res.get("failed_real", [])}
        if got & want:
            print("REPLAY property=%s harness=%s: still fails: %s" % (prop_id, p["harness"], "; ".join(sorted(got & want))))
            if res.get("playback_test"):
                print(res["playback_test"])
            return 1
        print("REPLAY property=%s harness=%s: fails differently: %s" % (prop_id, p["harness"], "; ".join(sorted(got))))
        return 2
    if res["status"] == "ok":
        print("REPLAY property=%s harness=%s: verifies now (not reproduced)" % (prop_id, p["harness"]))
        return 0
    print("REPLAY property=%s harness=%s: inconclusive: %s" % (prop_id, p["harness"], res.get("reason")))
    return 2
