"""Engine E4 `cgen` (DESIGN.md section 1): CBMC over the REAL generated C guest
bindings, linked with a harness generated per world.

  run("C10", tier, seed)  C guest bindings carry every value across the boundary unchanged
  run("C11", tier, seed)  C guest bindings release exactly the memory and handles they own

For every world of the enumerated corpus (cgen/wit.py) and every generator option
set the C backend of the current tree produces w.c / w.h (driver:
exprsmt/driver, `exprsmt-driver c <wit> w <dir> [key=value ...]`); cgen/hgen.py
binds the WIT types to the C types of the header by name conventions and writes
harness.c (reference encoder / decoder / comparer generated from the WIT type
and cgen/canon.py -- the oracle); `cbmc --32 --little-endian` decides every
assertion for ALL values within the bounds.  A failed assertion is replayed
(native gcc -m64 build of the same harness with the trace inputs, else CBMC with
the inputs fixed as constants) before a VIOLATION is reported.
"""
from __future__ import annotations

import concurrent.futures
import hashlib
import json
import os
import re
import shutil
import sys
import time

HERE = os.path.dirname(os.path.abspath(__file__))
VERIF = os.path.dirname(HERE)
sys.path.insert(0, os.path.join(VERIF, "lib"))
sys.path.insert(0, VERIF)
import vlib  # noqa: E402
from cgen import wit, chdr, hgen, runc, resources  # noqa: E402

WORK = os.environ.get("CGEN_WORK") or os.path.join(vlib.WORK_DIR, "cgen")
DRIVER_SRC = os.path.join(VERIF, "exprsmt", "driver")
ALT = os.path.realpath(vlib.REPO) != "/repo"
DRIVER_DIR = os.path.join(WORK, "driver_alt") if ALT else DRIVER_SRC
TARGET_DIR = vlib.TARGET_DIR
DRIVER_BIN = os.path.join(TARGET_DIR, "debug", "exprsmt-driver")
JOBS = int(os.environ.get("VERIF_JOBS_CGEN", "6"))
CBMC_TIMEOUT = 120
CBMC_MEM_GB = 6

SPANS = [
    ("crates/c/src/lib.rs", "fn import(&mut self, interface_name"),
    ("crates/c/src/lib.rs", "fn import_body_sync("),
    ("crates/c/src/lib.rs", "fn export(&mut self, func"),
    ("crates/c/src/lib.rs", "fn print_sig("),
    ("crates/c/src/lib.rs", "fn print_sig_params("),
    ("crates/c/src/lib.rs", "fn return_single("),
    ("crates/c/src/lib.rs", "fn emit("),
    ("crates/c/src/lib.rs", "fn load("),
    ("crates/c/src/lib.rs", "fn load_ext("),
    ("crates/c/src/lib.rs", "fn store(&mut self, ty"),
    ("crates/c/src/lib.rs", "fn return_pointer("),
    ("crates/c/src/lib.rs", "fn perform_cast("),
    ("crates/c/src/lib.rs", "fn type_resource("),
    ("crates/c/src/lib.rs", "fn define_dtor("),
    ("crates/c/src/lib.rs", "fn free(&mut self, ty"),
    ("crates/c/src/lib.rs", "fn print_intrinsics("),
    ("crates/c/src/lib.rs", "pub fn flags_repr("),
    ("crates/c/src/lib.rs", "pub fn is_arg_by_pointer("),
]


def lmax_of(tier):
    return 2 if tier == "quick" else 3


# --------------------------------------------------------------------------
# driver
# --------------------------------------------------------------------------
def build_driver(out):
    if ALT:
        os.makedirs(os.path.join(DRIVER_DIR, "src"), exist_ok=True)
        toml = open(os.path.join(DRIVER_SRC, "Cargo.toml")).read().replace("/repo/crates/", vlib.REPO.rstrip("/") + "/crates/")
        for rel, text in (("Cargo.toml", toml), ("src/main.rs", open(os.path.join(DRIVER_SRC, "src", "main.rs")).read())):
            dst = os.path.join(DRIVER_DIR, rel)
            if not os.path.exists(dst) or open(dst).read() != text:
                with open(dst, "w") as f:
                    f.write(text)
    lock_src, lock_dst = os.path.join(vlib.REPO, "Cargo.lock"), os.path.join(DRIVER_DIR, "Cargo.lock")
    if not os.path.exists(lock_dst) or open(lock_src).read() != open(lock_dst).read():
        shutil.copyfile(lock_src, lock_dst)
    env = {"CARGO_NET_OFFLINE": "true", "CARGO_TARGET_DIR": TARGET_DIR, "CARGO_BUILD_JOBS": "4"}
    rc, txt, dt = vlib.run_cmd(["cargo", "build", "--quiet"], cwd=DRIVER_DIR, env=env, timeout=1800,
                               log=os.path.join(WORK, "driver_build.log"))
    out.extra["driver_build_s"] = round(dt, 1)
    if rc != 0 or not os.path.exists(DRIVER_BIN):
        out.inconclusive.append("the generator driver did not build against %s (rc=%s): %s"
                                % (vlib.REPO, rc, " ".join(txt.strip().splitlines()[-3:])[:400]))
        return False
    return True


def sha(*texts):
    h = hashlib.sha256()
    for t in texts:
        h.update(t.encode())
        h.update(b"\0")
    return h.hexdigest()[:16]


class Unit:
    """one (world, option set): generated bindings + harness file + harness descriptors"""

    def __init__(self, world, osn, lmax=2):
        self.world, self.osn = world, osn
        self.lmax = lmax
        self.opts = wit.OPTION_SETS[osn]
        self.dir = os.path.join(WORK, "gen", osn, world.type_class)
        self.harness_c = os.path.join(self.dir, "harness.c")
        self.hs = []
        self.problems = []
        self.same_as = None
        self.digest = None
        self.native_exe = None
        self.refused = None


def generate_unit(u: Unit, lmax=None):
    lmax = u.lmax
    shutil.rmtree(u.dir, ignore_errors=True)
    os.makedirs(u.dir, exist_ok=True)
    wpath = os.path.join(u.dir, "w.wit")
    with open(wpath, "w") as f:
        f.write(u.world.wit_text())
    rc, txt, dt = vlib.run_cmd([DRIVER_BIN, "c", wpath, "w", u.dir] + u.opts, timeout=120)
    if rc != 0:
        m = re.search(r"Unable to autodrop borrows in `\w+` values, please disable autodrop", txt)
        if m and u.world.borrow_in_list() and "autodrop_borrows=yes" in u.opts:
            # the generator declares the world unsupported: borrows that live in list memory cannot be recorded by the trampoline
            u.refused = m.group(0)
            return u
        u.problems.append("the C generator failed on this world (rc=%s): %s" % (rc, " ".join(txt.strip().splitlines()[:3])[:300]))
        return u
    try:
        htxt, ctxt = open(os.path.join(u.dir, "w.h")).read(), open(os.path.join(u.dir, "w.c")).read()
        hdr = chdr.Header(htxt, ctxt)
        u.hs, probs = hgen.write_harness(u.harness_c, hdr, u.world, lmax, u.opts)
        u.problems += probs
        u.digest = sha(htxt, ctxt, open(u.harness_c).read())
    except (chdr.CParseError, hgen.Mismatch, OSError, KeyError, IndexError, AssertionError) as e:
        u.problems.append("generated header could not be matched: %s: %s" % (type(e).__name__, e))
    return u


# --------------------------------------------------------------------------
# deciding
# --------------------------------------------------------------------------
def members_of(u, prop_id):
    return [h for h in u.hs if not (prop_id == "C10" and h["direction"] == "free-helper")]


def entries_of(u, prop_id):
    """[(cbmc entry function, [harnesses it runs])].  One CBMC run decides every harness of the unit: a nondet selector picks
    which one runs (the CBMC front end and library are paid once).  CGEN_SPLIT=1 runs one CBMC process per harness instead."""
    ms = members_of(u, prop_id)
    if not ms:
        return []
    if os.environ.get("CGEN_SPLIT") or (u.lmax >= 3 and u.world.heap_depth() >= 2):
        # nested heap values at length bound 3 are the largest instances: one CBMC process (and one 120 s cap) per harness
        return [(h["name"], [h]) for h in ms]
    return [("h_all_c10" if prop_id == "C10" else "h_all_c11", ms)]


def defines_of(prop_id):
    return ["CGEN_NO_C10"] if prop_id == "C11" else []


def run_job(job):
    u, entry, members, unwind, defines = job
    log = os.path.join(u.dir, "%s.cbmc.log" % entry)
    rc, txt, dt, cmd = runc.run_cbmc(u.harness_c, entry, unwind, timeout=CBMC_TIMEOUT, mem_gb=CBMC_MEM_GB, log=log, defines=defines)
    return {"unit": u, "entry": entry, "members": members, "rc": rc, "txt": txt, "dt": dt, "cmd": cmd, "res": runc.parse_results(txt)}


def aclass_key(s):
    return re.sub(r"[^a-z0-9]+", "-", s.lower()).strip("-")


def label_direction(p):
    d = p["desc"]
    if d.startswith("C10|") or d.startswith("C11|"):
        return d.split("|")[1]
    return None


def replay_failure(out, u, entry, members, p, prop_id, acls, unwind):
    """-> (how, inputs, harness descriptor, native info) or None (then an inconclusive entry was added)"""
    out.disagreements_checked += 1
    tag = "%s/%s" % (u.osn, u.world.type_class)
    rc, txt, dt, cmd = runc.run_cbmc(u.harness_c, entry, unwind, timeout=CBMC_TIMEOUT * 2, mem_gb=CBMC_MEM_GB,
                                     prop=p["id"], trace=True, log=os.path.join(u.dir, "trace.%s.log" % aclass_key(acls)), defines=defines_of(prop_id))
    out.queries += 1
    out.solver_s += dt
    sel = runc.trace_selector(txt) if len(members) > 1 else 0
    if sel is None or sel >= len(members):
        out.inconclusive.append("%s: `%s` fails in cbmc but the trace does not show which harness ran" % (tag, p["desc"][:80]))
        return None
    h = members[sel]
    ins = runc.trace_inputs(txt, h["nin"])
    if ins is None:
        if h["nin"] == 0:
            ins = []
        else:
            out.inconclusive.append("%s %s: `%s` fails in cbmc but the trace inputs could not be read" % (tag, h["name"], p["desc"][:80]))
            return None
    native = None
    # 1. native 64-bit build of the same harness
    if u.native_exe is None:
        exe = os.path.join(u.dir, "replay_native")
        nrc, nlog, ncmd = runc.build_native(u.dir, u.harness_c, exe)
        u.native_exe = exe if nrc == 0 else False
        if nrc != 0:
            with open(os.path.join(u.dir, "native_build.log"), "w") as f:
                f.write(nlog)
    if u.native_exe:
        nrc, nres, asan, nout = runc.run_native(u.native_exe, h["name"], ins)
        native = {"failed_labels": sorted(k for k, v in nres.items() if v == "FAIL"), "asan": asan, "exit": nrc}
        if p["desc"].startswith("C1"):
            same = nres.get(p["desc"]) == "FAIL"
        elif acls == "leak":
            same = any(k.startswith("C11|native|") and "leak" in k and v == "FAIL" for k, v in nres.items())
        elif acls in ("double-free", "invalid-free"):
            same = any(k.startswith("C11|native|free") and v == "FAIL" for k, v in nres.items()) or (asan or "") in ("attempting", "double-free", "bad-free")
        elif acls == "use-after-free":
            same = (asan or "") == "heap-use-after-free"
        else:
            same = asan is not None
        if same:
            return ("replay: the cbmc trace inputs fail the same check in the native gcc -m64 -fsanitize=address build of the harness + generated w.c "
                    "(pointer width 8)"), ins, h, native
    # 2. cbmc with the inputs fixed as constants
    runc.write_fixed_inputs(u.dir, 4096, ins, sel)
    rc2, txt2, dt2, cmd2 = runc.run_cbmc(u.harness_c, entry, unwind, timeout=CBMC_TIMEOUT * 2, mem_gb=CBMC_MEM_GB, defines=["CGEN_FIXED"] + defines_of(prop_id),
                                         log=os.path.join(u.dir, "fixed.%s.log" % aclass_key(acls)))
    out.queries += 1
    out.solver_s += dt2
    res2 = {q["id"]: q for q in runc.parse_results(txt2)}
    q = res2.get(p["id"])
    if q is not None and q["status"] == "FAILURE" and q["desc"] == p["desc"]:
        return "replay: cbmc with concrete inputs (wasm32 layout; %s)" % (
            "the native 64-bit build does not show it: layout- or model-dependent" if u.native_exe else "no native build"), ins, h, native
    out.inconclusive.append("%s %s: cbmc counterexample for `%s` does not reproduce with the inputs fixed (inputs %s) -- not reported"
                            % (tag, h["name"], p["desc"][:80], [hex(v) for v in ins][:8]))
    return None


def sig_text(w):
    return "f: func(%s)%s" % (", ".join("%s: %s" % (n, t.wit()) for n, t in w.params), "" if w.result is None else " -> " + w.result.wit())


def decide(out, prop_id, tier, units, lmax, samples):
    unwind = lmax + 2
    jobs = [(u, entry, ms, u.lmax + 2, defines_of(prop_id)) for u in units if u.same_as is None for entry, ms in entries_of(u, prop_id)]
    jobs.sort(key=lambda j: (0 if len(j[2]) == 1 else 1, -max(h["nin"] for h in j[2])))      # long-running first
    t0 = time.time()
    with concurrent.futures.ThreadPoolExecutor(max_workers=JOBS) as ex:
        results = list(ex.map(run_job, jobs))
    out.extra["cbmc_wall_s"] = round(time.time() - t0, 1)
    out.extra["cbmc_runs"] = len(jobs)
    if results:
        out.checker_cmd = results[0]["cmd"]
    failed = []       # (u, p, acls)
    per_dir = {}
    slow = []
    for r in results:
        u = r["unit"]
        tag = "%s/%s %s" % (u.osn, u.world.type_class, r["entry"])
        out.queries += 1
        out.solver_s += r["dt"]
        slow.append((round(r["dt"], 1), tag))
        res = r["res"]
        if r["rc"] not in (0, 10) or not res:
            why = "timeout" if r["rc"] == -9 else "rc=%s" % r["rc"]
            tail = " ".join(r["txt"].strip().splitlines()[-3:])[:240]
            out.inconclusive.append("%s: cbmc did not complete (%s): %s" % (tag, why, tail))
            continue
        members = r["members"]
        tag = "%s/%s %s" % (u.osn, u.world.type_class, r["entry"])
        ends = {p["fn"]: p["status"] for p in res if p["desc"] == "REACH|end of harness"}
        vacuous = [h["name"] for h in members if ends.get(h["name"]) != "FAILURE"]
        other_reach = [p for p in res if runc.classify(p)[0] == "REACH" and p["status"] != "FAILURE"]
        if vacuous or other_reach:
            out.inconclusive.append("%s: vacuity witness not reached: %s" % (tag, vacuous + [p["desc"] for p in other_reach]))
            continue
        bad_unwind = [p for p in res if runc.classify(p)[0] == "UNWIND" and p["status"] != "SUCCESS"]
        if bad_unwind:
            out.inconclusive.append("%s: unwinding assertion not discharged (bound %d too small or a length is corrupted): %s line %s"
                                    % (tag, u.lmax + 2, bad_unwind[0]["fn"], bad_unwind[0]["line"]))
        mine = [p for p in res if runc.classify(p)[0] == prop_id]
        other = [p for p in res if runc.classify(p)[0] in ("C10", "C11") and runc.classify(p)[0] != prop_id and p["status"] == "FAILURE"]
        if other:
            out.extra.setdefault("failures_of_the_sibling_property", []).append("%s: %s" % (tag, other[0]["desc"][:100]))
        out.programs += len(members)
        for h in members:
            d = per_dir.setdefault(h["direction"], {"harnesses": 0})
            d["harnesses"] += 1
        out.obligations += len(mine)
        nfail = 0
        seen_cls = set()
        for p in mine:
            if p["status"] == "SUCCESS":
                out.discharged += 1
            elif p["status"] == "FAILURE":
                nfail += 1
                acls = runc.classify(p)[1]
                key = (acls, label_direction(p))
                if key not in seen_cls:
                    seen_cls.add(key)
                    failed.append((u, p, acls, r["entry"], members))
            else:
                out.inconclusive.append("%s: property %s has status %s" % (tag, p["id"], p["status"]))
        if nfail == 0 and len(samples) < 12 and len([s for s in samples if s.get("group") == u.world.group]) < 1:
            samples.append({"group": u.world.group, "world": u.world.type_class, "signature": sig_text(u.world), "option_set": u.osn,
                            "harnesses": [h["name"] + ": " + h["function"] for h in members],
                            "cbmc_properties_for_%s" % prop_id: len(mine), "all_cbmc_properties": len(res), "seconds": round(r["dt"], 2),
                            "verdict": "cbmc --32: every assertion holds for all nondet values within the bounds; every REACH witness FAILED as required"})
    out.extra["per_direction"] = per_dir
    out.extra["slowest_cbmc_runs"] = sorted(slow, reverse=True)[:6]

    # ---- failures: replay each (unit, assertion class), then report one violation per role
    ran_osn = {}
    for u in units:
        ran_osn.setdefault(u.world.type_class, set()).add(u.osn if u.same_as is None else u.same_as)
    by_role = {}
    # one replay per (type class, class, labelled direction): the first option set that shows it; further option sets are listed
    groups = {}
    # a unit whose C element layout is not the canonical one (C10|layout|element-size) fails every value assertion that goes through
    # that list as a consequence: report the layout failure, mention the rest
    layout_units = {id(u) for u, p, acls, entry, members in failed if acls == "element-size"}
    consequences = {}
    kept = []
    for item in failed:
        u, p, acls = item[0], item[1], item[2]
        if id(u) in layout_units and acls != "element-size" and prop_id == "C10":
            consequences.setdefault(id(u), []).append(acls)
            continue
        kept.append(item)
    failed = kept
    for u, p, acls, entry, members in failed:
        ld = label_direction(p) or (members[0]["direction"] if len(members) == 1 else None)
        groups.setdefault((u.world.type_class, acls, ld), []).append((u, p, entry, members))
    ordered = sorted(groups.items(), key=lambda kv: (kv[0][0], kv[0][1], kv[0][2] or ""))
    # replays of different units run in parallel; those of one unit share its directory (fixed_inputs.h) and stay sequential
    by_unit = {}
    for key, items in ordered:
        by_unit.setdefault(id(items[0][0]), []).append((key, items))

    def replay_unit(entries):
        res = []
        for (cls, acls, _ld), items in entries:
            u, p, entry, members = items[0]
            res.append(((cls, acls, _ld), items, replay_failure(out, u, entry, members, p, prop_id, acls, u.lmax + 2)))
        return res
    with concurrent.futures.ThreadPoolExecutor(max_workers=JOBS) as ex:
        replayed = [x for chunk in ex.map(replay_unit, by_unit.values()) for x in chunk]
    replayed.sort(key=lambda x: (x[0][0], x[0][1], x[0][2] or ""))
    for (cls, acls, _ld), items, rep in replayed:
        u, p, entry, members = items[0]
        if rep is None:
            continue
        how, ins, h, native = rep
        direction = h["direction"]
        osns = sorted({x[0].osn for x in items})
        role = "%s/cgen/%s/%s/%s" % (prop_id, direction, cls, aclass_key(acls))
        if set(osns) != ran_osn.get(cls, set()):
            role += "@" + "+".join(osns)
        if role in by_role:
            continue
        payload = {
            "engine": "cgen", "property": prop_id, "world": cls, "wit": u.world.wit_text(), "signature": sig_text(u.world),
            "function": h["function"], "direction": direction, "harness": h["name"], "option_set": u.osn, "options": u.opts,
            "option_sets_failing": osns, "list_length_bound": u.lmax, "unwind": u.lmax + 2,
            "inputs": ["0x%x" % v for v in ins], "input_layout": h.get("input_doc"),
            "failed_assertion": {"id": p["id"], "description": p["desc"], "class": acls, "file": p["file"], "function": p["fn"], "line": p["line"]},
            "consequential_failures_not_reported_separately": sorted(set(consequences.get(id(u), []))),
            "cbmc_cmd": " ".join(runc.cbmc_cmd(u.harness_c, h["name"], u.lmax + 2, defines_of(prop_id))), "replay": how, "native": native,
            "how_to_replay": "/verif/check %s --replay <this file>" % prop_id,
        }
        path = vlib.write_replay(prop_id, "cgen_%s_%s_%s" % (direction, cls, aclass_key(acls)), payload)
        what = ("%s of `%s` (%s; option set %s%s): cbmc refutes `%s` (%s line %s) for the inputs %s%s. %s"
                % (direction, sig_text(u.world), cls, u.osn, "" if len(osns) == 1 else "; also " + ", ".join(o for o in osns if o != u.osn),
                   p["desc"], p["fn"], p["line"], ["0x%x" % v for v in ins][:10],
                   ("; consequential failures in the same world: %s" % sorted(set(consequences[id(u)]))) if id(u) in consequences else "", how))
        by_role[role] = vlib.Violation(role=role, what=what, replay=path, witness={"inputs": ["0x%x" % v for v in ins]})
    out.violations += list(by_role.values())


# --------------------------------------------------------------------------
# entry points
# --------------------------------------------------------------------------
def base_outcome(prop_id, tier):
    lmax = lmax_of(tier)
    out = vlib.Outcome(level="translation_validation")
    out.bounds = {
        "worlds": "enumerated (cgen/wit.py corpus(%s)): one world per type class, each with an imported and an exported `f`" % tier,
        "values": "every C value / every reference-encoded core argument and return area: nondet (all bit patterns; floats as bit patterns incl. NaN payloads)",
        "list_string_length": "nondet <= %d at every nesting level; contents nondet" % lmax,
        "unwind": "length bound + 2 with --unwinding-assertions",
        "data_layout": "cbmc --32 --little-endian: sizeof(void*) == 4, uint64_t 8-aligned (wasm32)",
        "option_sets": wit.option_sets(tier),
        "cbmc_limits": "%d s / %d GB per harness, %d parallel" % (CBMC_TIMEOUT, CBMC_MEM_GB, JOBS),
    }
    out.outside_claim = [
        "`as judged by an independent component-model host`: there is no wasm toolchain or host here -- the oracle is the reference encoder "
        "generated by cgen/hgen.py from cgen/canon.py",
        "code compiled by clang for wasm32 is modelled by CBMC's C semantics (incl. pointer<->integer casts; alignment of buffers is not observable)",
        "--async glue, futures, streams, error-context, fixed-length lists, maps",
        "worlds / types not in the enumerated corpus; lists and strings longer than the bound",
        "UTF-8 / UTF-16 well-formedness of string contents (code units are opaque)",
        "widening of a linear-memory address >= 2^31 into a 64-bit joined slot (implementation-defined pointer->int64 conversion)",
    ]
    out.trusted_base = [
        "cgen/canon.py: reference of CanonicalABI.md (alignment, size, discriminant size, payload offset, flattening + join, 16/1 flat limits)",
        "cgen/hgen.py: reference encoder/decoder/comparer generator (mk/eqi/sti/eqmi/lwi/eqfi/fre per type, driven by the abstract input stream) "
        "and the harness conventions",
        "CBMC 6.11 (--32 --little-endian --pointer-check --bounds-check --memory-leak-check, malloc never fails)",
        "exprsmt/cinc: libc header shim for the 32-bit data model",
        "gcc -m64 -fsanitize=address for native replays",
    ]
    out.assumptions = [
        "values: bool in {0,1}, char is a Unicode scalar value, enum/variant discriminants < number of cases, flags have only defined bits, list lengths <= bound, "
        "handle indices != 0 (index 0 of a canonical-ABI handle table is reserved)",
        "the host encodes exactly what the specification's lowering produces (zero padding of unused variant slots, zero-extended joins)",
        "host allocations: parameter records through the generated cabi_realloc; list/string buffers are fresh blocks of n * sizeof(C element) bytes "
        "(asserted equal to the canonical element size); for n == 0 a non-null address that is not a heap block (cabi_realloc returns the integer `align`; "
        "the harness hands out the address of a static dummy, see cgen/hgen.py); malloc never returns NULL",
        "an empty list/string owns no heap block (C backend README: `len == 0` => nothing to free)",
    ]
    out.functions_encoded = [vlib.source_span(f, pat, None, 1200) for f, pat in SPANS]
    return out, lmax


def prepare_units(out, tier, lmax, only=None, prop_id=None):
    worlds = wit.corpus(tier)
    osns = wit.option_sets(tier)
    only_env = os.environ.get("CGEN_ONLY")
    if only_env:       # debugging aid (mutation self-test): restrict the corpus; such a run is never a success
        import fnmatch
        pats = [x for x in only_env.split(",") if x]
        worlds = [w for w in worlds if any(fnmatch.fnmatch(w.type_class, p) for p in pats)]
        out.inconclusive.append("corpus restricted by CGEN_ONLY=%s (debug run: %d worlds)" % (only_env, len(worlds)))
    units = []
    for w in worlds:
        for osn in osns:
            if only and (w.type_class, osn) not in only:
                continue
            units.append(Unit(w, osn, lmax))
    t0 = time.time()
    with concurrent.futures.ThreadPoolExecutor(max_workers=JOBS) as ex:
        list(ex.map(lambda u: generate_unit(u, lmax), units))
    out.extra["generate_s"] = round(time.time() - t0, 1)
    seen = {}
    for u in units:
        tag = "%s/%s" % (u.osn, u.world.type_class)
        for p in u.problems:
            out.inconclusive.append("%s: %s" % (tag, p))
        if u.digest is not None:
            key = (u.world.type_class, u.digest)
            if key in seen:
                u.same_as = seen[key]
            else:
                seen[key] = u.osn
    refused = [u for u in units if u.refused]
    if refused:
        out.extra["declared_unsupported_by_generator"] = [
            {"world": u.world.type_class, "signature": sig_text(u.world), "option_set": u.osn, "generator_message": u.refused,
             "verdict": "holds: no bindings are generated, so no lent borrow can be left undropped"} for u in refused]
        if prop_id == "C11":
            out.obligations += len(refused)
            out.discharged += len(refused)
    out.extra["corpus"] = {"worlds": len(worlds), "option_sets": osns, "world_x_option_set": len(units),
                           "distinct_bindings": len([u for u in units if u.same_as is None and u.digest]),
                           "identical_to_another_option_set": len([u for u in units if u.same_as is not None])}
    return units


def run(prop_id, tier, seed):
    if prop_id not in ("C10", "C11"):
        raise ValueError("cgen serves C10 and C11")
    os.makedirs(WORK, exist_ok=True)
    out, lmax = base_outcome(prop_id, tier)
    t_all = time.time()
    if not build_driver(out):
        return out
    units = prepare_units(out, tier, lmax, prop_id=prop_id)
    samples = []
    decide(out, prop_id, tier, units, lmax, samples)
    if prop_id == "C11":
        resources.run(out, tier, DRIVER_BIN, os.path.join(WORK, "gen"), samples, CBMC_TIMEOUT, CBMC_MEM_GB)
    out.samples = samples
    out.extra["distinct_nontrivial"] = out.discharged
    out.extra["rule"] = ("one evaluation per CBMC run; an obligation = one CBMC property of the class owned by this check "
                         "(C10: value assertions of the harness + pointer/bounds checks; C11: ownership assertions + free/leak/use-after-free checks); "
                         "programs = (world, function, direction, option set) harnesses whose CBMC run completed and whose REACH witnesses failed as required")
    out.extra["wall_s_engine"] = round(time.time() - t_all, 1)
    return out


def replay(prop_id, path):
    with open(path) as f:
        r = json.load(f)
    os.makedirs(WORK, exist_ok=True)
    out = vlib.Outcome()
    if not build_driver(out):
        print("INCONCLUSIVE driver build failed: %s" % out.inconclusive)
        return 2
    if r.get("kind") == "static-dtor-export-name":
        return resources.replay_static(r, DRIVER_BIN, os.path.join(WORK, "gen"))
    if r.get("kind") == "resource-harness":
        return resources.replay_harness(r, DRIVER_BIN, os.path.join(WORK, "gen"), CBMC_TIMEOUT, CBMC_MEM_GB)
    lmax = int(r.get("list_length_bound", 2))
    world = {w.type_class: w for w in wit.corpus("thorough")}.get(r["world"])
    if world is None:
        print("INCONCLUSIVE world %s is not in the corpus any more" % r["world"])
        return 2
    u = Unit(world, r["option_set"], lmax)
    u.lmax = lmax
    u = generate_unit(u)
    h = next((x for x in u.hs if x["name"] == r["harness"]), None)
    if u.problems or h is None:
        print("INCONCLUSIVE cannot regenerate the harness: %s" % u.problems)
        return 2
    ins = [int(x, 16) for x in r["inputs"]]
    runc.write_fixed_inputs(u.dir, 4096, ins, 0)
    rc, txt, dt, cmd = runc.run_cbmc(u.harness_c, h["name"], lmax + 2, timeout=CBMC_TIMEOUT * 2, mem_gb=CBMC_MEM_GB, defines=["CGEN_FIXED"] + defines_of(prop_id))
    res = runc.parse_results(txt)
    if rc not in (0, 10) or not res:
        print("INCONCLUSIVE cbmc did not complete (rc=%s)" % rc)
        return 2
    want_cls = r["failed_assertion"]["class"]
    bad = [p for p in res if p["status"] == "FAILURE" and runc.classify(p)[0] == prop_id and runc.classify(p)[1] == want_cls]
    print("$ %s" % cmd)
    if bad:
        print("REPRODUCED with the recorded inputs %s: %s (%s line %s)" % (r["inputs"][:10], bad[0]["desc"], bad[0]["fn"], bad[0]["line"]))
        return 1
    print("NOT REPRODUCED (%d properties checked with the recorded inputs; none of class %s fails)" % (len(res), want_cls))
    return 0
