"""E5 rustgen: C05, C06, C07 -- Kani (CBMC) over the REAL generated Rust bindings.

For every generator configuration of the tier the Rust backend (crates/rust, current
working tree of vlib.REPO, built with the verif guard so that non-wasm import shims
forward to `crate::verif_host`) is run on the enumerated corpus world; the generated
`w.rs` is dropped into a harness crate (path dependency on crates/guest-rust) whose
`#[kani::proof]`s call `_export_<f>_cabi::<G>` / `__post_return_<f>` natively with
kani::any() core values and argument memory and a recording `Guest` impl returning
kani::any()-built values.  Oracles: an independently written canonical-ABI reference
at pointer width 8 (rustgen/spec.py + hgen.py), a heap ledger fed by stubbed allocator
entry points + Kani's memory model, and a handle ledger fed by the resource intrinsics.

One Kani run per harness decides C05, C06 and C07 obligations together; results are
cached under work/rustgen/cache keyed by sha256(generated bindings + harness text),
so `check C05` followed by `check C06` does not repeat identical CBMC runs and any
change of the generated text invalidates the entry.
"""
from __future__ import annotations

import hashlib
import json
import os
import re
import shutil
import sys
import threading
import time

HERE = os.path.dirname(os.path.abspath(__file__))
VERIF = os.path.dirname(HERE)
sys.path.insert(0, os.path.join(VERIF, "lib"))
sys.path.insert(0, VERIF)
import vlib  # noqa: E402
from rustgen import corpus, assemble, kani, spec  # noqa: E402

WORK = kani.WORK
MAIN = os.path.realpath(vlib.REPO) == "/repo"
TAG = "main" if MAIN else "alt"
DRIVER_SRC = os.path.join(VERIF, "exprsmt", "driver")
DRIVER_DIR = os.path.join(WORK, "driver_" + TAG)
DRIVER_TARGET = os.path.join(WORK, "target_hook" if MAIN else "target_hook_alt")
DRIVER_BIN = os.path.join(DRIVER_TARGET, "debug", "exprsmt-driver")
JOBS = int(os.environ.get("VERIF_RUSTGEN_JOBS", "5"))      # CBMC processes at a time (<= 6 cores incl. the driver)

TITLE = {"C05": "values", "C06": "heap", "C07": "handles"}

SPANS = [
    ("crates/rust/src/bindgen.rs", "Instruction::FlagsLower", "Instruction::FlagsLift"),
    ("crates/rust/src/bindgen.rs", "Instruction::RecordLower", "Instruction::TupleLift"),
    ("crates/rust/src/bindgen.rs", "Instruction::HandleLower", "Instruction::HandleLift"),
    ("crates/rust/src/bindgen.rs", "Instruction::VariantLower", "Instruction::EnumLift"),
    ("crates/rust/src/bindgen.rs", "Instruction::ListCanonLower", "Instruction::IterBasePointer"),
    ("crates/rust/src/bindgen.rs", "Instruction::CallInterface", "Instruction::Flush"),
    ("crates/rust/src/bindgen.rs", "Instruction::Return", "Instruction::GuestDeallocateVariant"),
    ("crates/rust/src/lib.rs", "fn emit_runtime_item", None),
    ("crates/rust/src/lib.rs", "fn perform_cast(", None),
    ("crates/rust/src/lib.rs", "fn verif_hook_declare_import", None),
    ("crates/rust/src/interface.rs", "fn type_resource", None),
    ("crates/rust/src/interface.rs", "fn generate_guest_export", None),
    ("crates/rust/src/interface.rs", "pub fn is_list_canonical", None),
    ("crates/guest-rust/src/rt/mod.rs", "macro_rules! bitflags", None),
    ("crates/guest-rust/src/rt/mod.rs", "impl Cleanup", None),
    ("crates/guest-rust/src/resource.rs", "unsafe impl<T> ResourceRep<T> for Option<T>", None),
]


def span_between(path, start_pat, end_pat):
    full = os.path.join(vlib.REPO, path)
    try:
        lines = open(full, encoding="utf-8").read().split("\n")
    except OSError:
        return {"file": path, "item": start_pat, "missing": True}
    for i, l in enumerate(lines):
        if start_pat in l:
            for j in range(i + 1, min(len(lines), i + 900)):
                if end_pat in lines[j]:
                    k, depth = j, lines[j].count("{") - lines[j].count("}")
                    while depth > 0 and k + 1 < len(lines) and k < j + 80:
                        k += 1
                        depth += lines[k].count("{") - lines[k].count("}")
                    text = "\n".join(lines[i:k + 1])
                    return {"file": path, "item": "%s .. %s" % (start_pat.strip(), end_pat.strip()), "lines": [i + 1, k + 1],
                            "sha256": hashlib.sha256(text.encode()).hexdigest()[:16]}
            break
    return {"file": path, "item": start_pat, "missing": True}


# --------------------------------------------------------------------------
# build + generate
# --------------------------------------------------------------------------
def build_driver(out):
    """exprsmt's driver, Rust backend only (--no-default-features), generator built WITH the verif guard."""
    os.makedirs(os.path.join(DRIVER_DIR, "src"), exist_ok=True)
    toml = open(os.path.join(DRIVER_SRC, "Cargo.toml")).read().replace("/repo/crates/", vlib.REPO.rstrip("/") + "/crates/")
    for rel, text in (("Cargo.toml", toml), ("src/main.rs", open(os.path.join(DRIVER_SRC, "src", "main.rs")).read())):
        dst = os.path.join(DRIVER_DIR, rel)
        if not os.path.exists(dst) or open(dst).read() != text:
            with open(dst, "w") as f:
                f.write(text)
    shutil.copyfile(os.path.join(vlib.REPO, "Cargo.lock"), os.path.join(DRIVER_DIR, "Cargo.lock"))
    env = {"CARGO_NET_OFFLINE": "true", "CARGO_TARGET_DIR": DRIVER_TARGET, "CARGO_BUILD_JOBS": "5",
           "RUSTFLAGS": "--cfg %s" % vlib.GUARD}
    rc, txt, dt = vlib.run_cmd(["cargo", "build", "--quiet", "--no-default-features"], cwd=DRIVER_DIR, env=env, timeout=2400,
                               log=os.path.join(WORK, "driver_build_%s.log" % TAG))
    out.extra["driver_build_s"] = round(dt, 1)
    if rc != 0 or not os.path.exists(DRIVER_BIN):
        out.inconclusive.append("the Rust generator (with the verif guard) did not build against %s (rc=%s): %s"
                                % (vlib.REPO, rc, " ".join(txt.strip().splitlines()[-3:])[:400]))
        return False
    return True


def generate(cfg, out):
    d = os.path.join(WORK, TAG, cfg["name"])
    os.makedirs(d, exist_ok=True)
    world = corpus.world(cfg)
    wit = os.path.join(d, "w.wit")
    with open(wit, "w") as f:
        f.write(world.wit_text())
    gen = os.path.join(d, "out")
    shutil.rmtree(gen, ignore_errors=True)
    os.makedirs(gen)
    cmd = [DRIVER_BIN, "rust", wit, "w", gen] + ["%s=%s" % kv for kv in sorted(cfg["opts"].items())]
    rc, txt, dt = vlib.run_cmd(cmd, timeout=300, log=os.path.join(d, "gen.log"))
    if rc != 0 or not os.path.exists(os.path.join(gen, "w.rs")):
        out.inconclusive.append("[%s] the Rust generator failed on the corpus world (rc=%s): %s"
                                % (cfg["name"], rc, " ".join(txt.strip().splitlines()[-2:])[:300]))
        return None
    return world, open(os.path.join(gen, "w.rs")).read(), d, " ".join(cmd)


# --------------------------------------------------------------------------
# classification of failed checks
# --------------------------------------------------------------------------
MEM_PAT = re.compile(r"dereference failure|pointer (NULL|invalid|outside|relation)|deallocated|dead object|free argument|double free|"
                     r"rust_dealloc must be called|rust_realloc|memcpy|memmove|memset|misaligned|out of bounds|invalid pointer|"
                     r"same object|alignment|uninitialized|free called|pointer to unallocated", re.I)


def norm(desc):
    d = re.sub(r"[`'\"]", "", desc)
    d = re.sub(r"\d+", "N", d)
    return re.sub(r"\s+", " ", d).strip()[:70]


def classify(desc, meta):
    """-> (property | 'H' | 'U', check class)"""
    m = re.match(r"^(C0[567]|H)\|([^|]*)\|(.*)$", desc)
    if m:
        what = m.group(3).split(":")[0].strip() if m.group(1) == "C05" else ""
        cls = m.group(2) + ("-" + what if what and len(what) < 12 else "")
        return m.group(1), cls
    if "unwinding assertion" in desc:
        return "U", "unwind"
    if "never freed" in desc:
        return "C06", "leak"
    if "rust_dealloc must be called" in desc:
        return "C06", "bad-layout-size"
    if MEM_PAT.search(desc):
        return "C06", "memory-safety:" + norm(desc)
    return ("C05" if "C05" in meta["props"] else "C07"), "trap:" + norm(desc)


def relevant(prop, meta):
    return prop in meta["props"]


# --------------------------------------------------------------------------
# run
# --------------------------------------------------------------------------
def plan(tier, seed, out):
    """-> [unit]; unit = {cfg, world, w_rs, dir, lib, harnesses{name: meta}, gen_cmd}"""
    units = []
    b = corpus.bounds(tier)
    for cfg in corpus.configs(tier, seed):
        g = generate(cfg, out)
        if g is None:
            continue
        world, w_rs, d, gen_cmd = g
        try:
            lib, hs, problems = assemble.build_lib(world, w_rs, cfg["opts"], b["L"], b["S"], tier, nl=10 if tier == "thorough" else 6)
        except Exception as e:  # noqa: BLE001  -- a generator change the parser does not understand is inconclusive, not a pass
            out.inconclusive.append("[%s] harness generation failed: %r" % (cfg["name"], e))
            continue
        for p in problems:
            out.inconclusive.append("[%s] %s" % (cfg["name"], p))
        keep = {}
        for n, m in hs.items():
            if cfg["classes"] is not None and m["class"] not in cfg["classes"]:
                continue
            if not cfg["resources"] and n.startswith("k_res_"):
                continue
            keep[n] = m
        units.append({"cfg": cfg, "world": world, "w_rs": w_rs, "dir": d, "lib": lib, "harnesses": keep, "gen_cmd": gen_cmd})
    return units


def run_units(units, prop, tier, out, use_cache=True):
    """fills unit['results'] = {harness: result} (cache first, then cargo kani on the rest)"""
    ht = 600 if tier != "thorough" else 1800
    todo = []
    for u in units:
        u["results"] = {}
        need = []
        for n, m in u["harnesses"].items():
            if not relevant(prop, m):
                continue
            c = kani.cache_get(m["key"]) if use_cache else None
            if c is not None:
                c["cached"] = True
                u["results"][n] = c
            else:
                need.append(n)
        if need:
            todo.append((u, need))
    # one cargo-kani invocation at a time (one compilation per crate), JOBS CBMC processes inside it
    t_kani = [0.0]
    for u, need in todo:
        crate = os.path.join(u["dir"], "crate")
        kani.write_crate(crate, u["lib"], u["cfg"]["std"], bitflags=u["cfg"]["bitflags"])
        res, dt, txt = kani.run_harnesses(crate, need, 0, JOBS, timeout=ht * (2 + len(need) // max(1, JOBS)), harness_timeout=ht,
                                          log=os.path.join(u["dir"], "kani_%s.log" % prop))
        t_kani[0] += dt
        for n in need:
            r = res[n]
            r["cached"] = False
            if r["status"] == "failed" and not r["failed"]:
                r["status"] = "error"
                r["detail"] = "FAILED without a failed check (CBMC killed: memory/time cap)"
            u["results"][n] = r
            if r["status"] in ("ok", "failed"):
                kani.cache_put(u["harnesses"][n]["key"], {k: v for k, v in r.items() if k != "cached"})
    out.extra["kani_wall_s"] = round(t_kani[0], 1)


def role_of(prop, meta, check_cls):
    return "%s/rustgen/%s/%s/%s" % (prop, meta["direction"], meta["class"], check_cls)


def confirm(u, name, meta, prop, fails, tier):
    """concrete playback of a failed harness -> (replay payload, native verdict text)"""
    crate = os.path.join(u["dir"], "crate")
    kani.write_crate(crate, u["lib"], u["cfg"]["std"], bitflags=u["cfg"]["bitflags"])
    key = u["harnesses"][name]["key"] + "_pb"
    pb = kani.cache_get(key)
    if pb is None:
        pb = kani.playback(crate, u["lib"], name, 0, 900 if tier != "thorough" else 1800, os.path.join(u["dir"], "playback_%s" % name),
                           descs=[f["desc"] for _, f in fails])
        if pb.get("test"):
            kani.cache_put(key, pb)
    return pb


def run(prop_id: str, tier: str, seed: int) -> vlib.Outcome:
    out = vlib.Outcome(level="model_checking")
    os.makedirs(WORK, exist_ok=True)
    if not shutil.which("cargo-kani"):
        out.inconclusive.append("cargo-kani is not on PATH")
        return out
    # concurrent `check C05` / `check C06` / `check C07` share the generated crates, the worker slot and the result cache:
    # they are serialised here (the later ones then find their harness results in the cache)
    import fcntl
    lock = open(os.path.join(WORK, "lock_" + TAG), "w")
    fcntl.flock(lock, fcntl.LOCK_EX)
    try:
        if not build_driver(out):
            return out
        units = plan(tier, seed, out)
        if not units:
            return out
        t0 = time.time()
        run_units(units, prop_id, tier, out)
        return _report(prop_id, tier, units, out)
    finally:
        fcntl.flock(lock, fcntl.LOCK_UN)
        lock.close()


def _report(prop_id, tier, units, out):
    b = corpus.bounds(tier)
    assumptions, stubs = set(), set(assemble.STUB_DOC)
    replayed = {}
    for u in units:
        cname = u["cfg"]["name"]
        for n, m in u["harnesses"].items():
            if not relevant(prop_id, m):
                continue
            r = u["results"].get(n)
            out.obligations += 1
            assumptions.update(m.get("assumes", []))
            stubs.update(m.get("stubs", []))
            label = "[%s] %s (%s)" % (cname, n, m["class"])
            if r is None or r["status"] not in ("ok", "failed"):
                out.inconclusive.append("%s: no verdict (%s) -- see %s" % (label, (r or {}).get("detail", "not run"),
                                                                          os.path.join(u["dir"], "kani_%s.log" % prop_id)))
                continue
            out.queries += r.get("checks", 0)
            out.solver_s += 0.0 if r.get("cached") else r.get("time_s", 0.0)
            out.extra["kani_time_incl_cached_s"] = round(out.extra.get("kani_time_incl_cached_s", 0.0) + r.get("time_s", 0.0), 1)
            mine, other, bound = [], [], []
            for f in r["failed"]:
                p, cls = classify(f["desc"], m)
                (mine if p == prop_id else bound if p in ("H", "U") else other).append((cls, f))
            cov = r.get("covers")
            if bound:
                out.inconclusive.append("%s: harness bound hit (%s)" % (label, "; ".join(sorted({c + ": " + f["desc"] for c, f in bound}))[:200]))
                continue
            if cov is not None and cov[0] != cov[1] and not mine:
                out.inconclusive.append("%s: vacuity witness unsatisfied (%d of %d cover properties)" % (label, cov[0], cov[1]))
                continue
            if not mine:
                out.discharged += 1
                if len(out.samples) < 24:
                    out.samples.append({"config": cname, "harness": n, "class": m["class"], "function": m["function"],
                                        "kani_checks": r.get("checks"), "obligations_in_harness": m.get("obligations"),
                                        "covers": cov, "seconds": round(r.get("time_s", 0), 1), "cached": bool(r.get("cached")),
                                        "other_property_failures": sorted({c for c, _ in other}) or None})
                continue
            # violation(s) of this property: one Violation per role, replayed (a role already replayed in another
            # configuration is not replayed again: same generated glue, same harness)
            by_role = {}
            for cls, f in mine:
                by_role.setdefault(role_of(prop_id, m, cls), []).append(f)
            if os.environ.get("VERIF_RUSTGEN_NO_PLAYBACK"):
                pb = {"native": "not run: concrete playback switched off by VERIF_RUSTGEN_NO_PLAYBACK (mutation self-test)", "values": None, "test": None}
            elif all(r_ in replayed for r_ in by_role):
                pb = {"native": "not run: this role was replayed in configuration %s" % replayed[next(iter(by_role))], "values": None, "test": None}
            else:
                pb = confirm(u, n, m, prop_id, mine, tier)
            for role in by_role:
                replayed.setdefault(role, cname)
            for role, fs in by_role.items():
                native = pb.get("native", "not run")
                what = ("[%s] %s: %s -- %s" % (cname, m["function"], fs[0]["desc"],
                                             "replay: " + native if native.startswith("reproduced") else "replay: kani trace only (%s)" % native))
                payload = {"engine": "rustgen", "property": prop_id, "role": role, "tier": tier, "config": cname, "options": u["cfg"]["opts"],
                           "std_feature_of_harness_crate": u["cfg"]["std"], "bounds": b,
                           "world": u["world"].wit_text(), "function": m["function"], "type_class": m["class"], "harness": n,
                           "failed_checks": [{"description": f["desc"], "file": f["file"], "line": f["line"], "in": f["fn"]} for f in fs],
                           "concrete_values": pb.get("values"), "playback_test": pb.get("test"), "native_replay": native,
                           "harness_text": m["text"], "generate_cmd": u["gen_cmd"]}
                path = vlib.write_replay(prop_id, "rustgen_%s_%s_%s" % (cname, n, role.split("/")[-1]), payload)
                out.violations.append(vlib.Violation(role=role, what=what, replay=path, witness=pb.get("values")))
    out.solver_s = round(out.solver_s, 1)
    out.extra["distinct_nontrivial"] = out.discharged
    out.extra["rule"] = ("one obligation = one (generator configuration, harness); `queries` = CBMC checks (properties) Kani reports for the "
                         "harnesses of this property, each decided by the SAT back end; cached harness results (same generated text + "
                         "harness text) are counted but not re-timed")
    out.extra["configs"] = [{"name": u["cfg"]["name"], "options": u["cfg"]["opts"], "std": u["cfg"]["std"],
                             "harnesses": sum(1 for m in u["harnesses"].values() if relevant(prop_id, m)),
                             "bindings_sha256": hashlib.sha256(u["w_rs"].encode()).hexdigest()[:16]} for u in units]
    out.extra["cache_hits"] = sum(1 for u in units for r in u["results"].values() if r.get("cached"))
    out.checker_cmd = ("cargo kani --target-dir work/rustgen/slot<k> --output-format terse -Z stubbing -Z unstable-options "
                       "--harness-timeout %ds -j <n> --exact --harness b::h::<name>... --cbmc-args --memory-leak-check  "
                       "(Kani %s, CBMC, cadical; RLIMIT_AS 12 GB)"
                       % (600 if tier != "thorough" else 1800, kani.kani_version()))
    out.functions_encoded = [span_between(*s) if s[2] else vlib.source_span(s[0], s[1]) for s in SPANS]
    out.functions_encoded.append({"generated": "w.rs per configuration (the real output of crates/rust for the corpus world)",
                                  "sha256": [c["bindings_sha256"] for c in out.extra["configs"]]})
    out.bounds = {
        "direction": "export glue (_export_<f>_cabi, __post_return_<f>) for value types; import wrappers (through the generator hook) for: "
                     "resource calls (own/borrow parameters, own results, constructor, method), own handles inside list<own<r>> and "
                     "list<record { own<r>, u32 }> parameters (2 concrete elements), map<u32,u64> nested in option<..> / list<..> parameters (1 concrete entry)",
        "pointer_width": "8 only (host layout; generated code uses size_of::<*const u8>())",
        "corpus": "one function per type class, enumerated: %d classes in this tier (rustgen/corpus.py); the 12 scalar types are C14's" %
                  len({m["class"] for u in units for m in u["harnesses"].values()}),
        "list_len": "<= %d" % b["L"], "string_bytes": "<= %d" % b["S"], "handle_sequences": "<= 4 operations",
        "configs": [c["name"] for c in out.extra["configs"]],
        "unwind": "#[kani::unwind(max(L,S)+1)], unwinding assertions on",
    }
    out.outside_claim = [
        "wasm32 layout of the compiled code (pointer width 4): the same instruction stream at P=4 is covered by C01/abisym",
        "import direction of value types beyond the shapes listed under bounds.direction (lower-args / lift-results of the other import wrappers are not driven)",
        "'as judged by an independent component-model host': no wasm toolchain or host in the sandbox; the harness is the host",
        "borrow<exported resource> arguments and `self` of exported methods: the glue rebuilds the rep with `arg as u32 as usize`, "
        "which cannot carry a 64-bit host pointer; only 'nothing is dropped' is checked for them",
        "map<K,V> beyond four harnesses (default BTreeMap map type, CONCRETE entry count 0 or 1, symbolic key/value/padding: export round trip, "
        "import parameters option<map> and list<map>): "
        "measured here -- BTreeMap with a symbolic length <= 1 is killed at the 16 GB cap after 225 s of CBMC; "
        "map_type=std::collections::HashMap with one concrete entry times out at 600 s (RandomState/SipHash, 12 foreign functions)",
        "raw_strings with an exported function RETURNING a string: the generated text does not compile (`Vec<u8>::into_bytes` in StringLower; "
        "upstream TODO in tests/runtime/rust/raw-strings/test.rs), so the raw_strings worlds contain string parameters only",
        "lists whose elements own heap data with a SYMBOLIC length (list<string> with <= 2 elements of <= 2 bytes aborts CBMC at the 12 GB cap, measured): "
        "covered only as list<record { u64, string }> with exactly 2 elements and strings of <= 1 byte (parameter and result); "
        "heap data nested in records/variants/tuples/options/results is covered with symbolic lengths",
        "async, futures/streams, error-context handles",
        "types and option combinations outside the enumerated corpus; lists longer than the bound; strings longer than 2 bytes",
        "UTF-8 validation inside String::from_utf8 (stubbed, see assumptions)",
        "the ALIGNMENT passed to dealloc (Kani's __rust_dealloc model checks the size against the allocation, not the alignment; "
        "allocator stubs that could record it turned out unreliable in Kani 0.68 -- rustgen/assemble.py)",
        "which buffer leaked (argument vs result): CBMC's --memory-leak-check reports one 'never freed' property per harness",
    ]
    out.trusted_base = [
        "Kani %s / CBMC memory model and SAT back end" % kani.kani_version(),
        "rustgen/spec.py + hgen.py: the canonical-ABI reference (alignment, size, discriminant size, payload offset, flattening + join, lifting/lowering of scalars) at pointer width 8",
        "the generator built with --cfg bytecodealliance_wit_bindgen_verif differs from the production build only in the bodies of the "
        "#[cfg(not(target_arch = \"wasm32\"))] import shims (crates/rust/src/lib.rs verif_hook_declare_import)",
        "signature parsing of the generated text (fn names, parameter and return types only -- never expressions)",
        "the harness's view/build code per type (field access, match on cases, bits() & CONST.bits() for flags)",
    ]
    out.assumptions = sorted(assumptions) + sorted(stubs) + [
        "debug-assertions semantics (what Kani models): invalid discriminants / bool / char encodings panic instead of being UB, hence excluded by kani::assume",
        "zero-length lists and strings are passed with a dangling aligned non-null pointer (what cabi_realloc returns for size 0)",
        "C07: a borrow handle of an IMPORTED resource received by an export must be dropped by the guest exactly once before it returns "
        "(canonical ABI: the task traps on exit with borrows outstanding); the property's 'never dropped' is read as 'the lender's own handle is never dropped'",
    ]
    return out


def replay(prop_id: str, path: str) -> int:
    """re-generate the bindings for the recorded configuration, re-run the recorded harness under Kani (no cache)"""
    doc = json.load(open(path))
    tier = doc.get("tier", "quick")
    out = vlib.Outcome()
    if not build_driver(out):
        print("INCONCLUSIVE %s" % out.inconclusive)
        return 2
    units = [u for u in plan(tier, vlib.seed_from_env(), out) if u["cfg"]["name"] == doc.get("config")]
    if not units or doc["harness"] not in units[0]["harnesses"]:
        print("INCONCLUSIVE the recorded configuration/harness no longer exists")
        return 2
    u = units[0]
    name = doc["harness"]
    crate = os.path.join(u["dir"], "crate")
    kani.write_crate(crate, u["lib"], u["cfg"]["std"], bitflags=u["cfg"]["bitflags"])
    res, dt, txt = kani.run_harnesses(crate, [name], 0, 1, 3600, 1800, os.path.join(u["dir"], "replay_%s.log" % name))
    r = res[name]
    m = u["harnesses"][name]
    mine = [f for f in r.get("failed", []) if role_of(prop_id, m, classify(f["desc"], m)[1]) == doc.get("role")]
    if r["status"] == "failed" and mine:
        print("REPRODUCED role=%s harness=%s check=%s (%.0fs)" % (doc.get("role"), name, mine[0]["desc"], dt))
        return 1
    if r["status"] == "ok" or (r["status"] == "failed" and not mine):
        print("NOT REPRODUCED role=%s harness=%s status=%s" % (doc.get("role"), name, r["status"]))
        return 0
    print("INCONCLUSIVE %s" % r.get("detail"))
    return 2
