/* cgen shim for `cbmc --32` (no 32-bit libc headers in the image): <uchar.h> as the
   generated header needs it for --string-encoding=utf16.  C11 7.28: char16_t is
   uint_least16_t, char32_t is uint_least32_t. */
#ifndef CGEN_UCHAR_H
#define CGEN_UCHAR_H
typedef unsigned short char16_t;
typedef unsigned int char32_t;
#endif
