"""Reference of the canonical ABI (CanonicalABI.md), parameterised by the
pointer width P in {4, 8}.  Trusted base of engine E4.

Written from the specification's definitions (`alignment`, `elem_size`,
`discriminant_type`, `flatten_type`, `join`, `flatten_functype`,
MAX_FLAT_PARAMS = 16, MAX_FLAT_RESULTS = 1).  Uses nothing of wit-parser
(`SizeAlign`, `push_flat`, `wasm_signature`) or of wit-bindgen.

P = 8 (pointers and lengths are 8 bytes, 8-aligned, `i64` flat) is used only so
that a counterexample can additionally be replayed in a native 64-bit build;
the deciding CBMC run is P = 4 (wasm32).

Two deviations from the current specification text, both in favour of what
wit-bindgen documents it supports: `flags` may have up to 64 members (the spec
now caps at 32; layout = ceil(n/32) little-endian u32 words), and string
length is counted in code units of the selected encoding (utf8: bytes, utf16:
16-bit units; buffer alignment 1 resp. 2).
"""
from __future__ import annotations

from . import wit as W

MAX_FLAT_PARAMS = 16
MAX_FLAT_RESULTS = 1

PRIM_SIZE = {"bool": 1, "u8": 1, "s8": 1, "u16": 2, "s16": 2, "u32": 4, "s32": 4, "u64": 8, "s64": 8,
             "f32": 4, "f64": 8, "char": 4}
PRIM_FLAT = {"bool": "i32", "u8": "i32", "s8": "i32", "u16": "i32", "s16": "i32", "u32": "i32", "s32": "i32",
             "u64": "i64", "s64": "i64", "f32": "f32", "f64": "f64", "char": "i32"}


def align_to(x: int, a: int) -> int:
    return (x + a - 1) // a * a


def disc_size(ncases: int) -> int:
    """discriminant_type: u8 for <= 2^8 cases, u16 for <= 2^16, else u32."""
    if ncases <= 1 << 8:
        return 1
    if ncases <= 1 << 16:
        return 2
    return 4


def cases_of(t):
    """despecialize option / result / variant -> [(label, payload type or None)]."""
    if t.kind == "option":
        return [("none", None), ("some", t.elem)]
    if t.kind == "result":
        return [("ok", t.ok), ("err", t.err)]
    if t.kind == "variant":
        return list(t.cases)
    raise ValueError(t.kind)


def fields_of(t):
    if t.kind == "record":
        return list(t.fields)
    if t.kind == "tuple":
        return [("f%d" % i, x) for i, x in enumerate(t.elems)]
    raise ValueError(t.kind)


def flags_words(n: int) -> int:
    return (n + 31) // 32


def alignment(t, P: int) -> int:
    k = t.kind
    if k == "prim":
        return PRIM_SIZE[t.name]
    if k in ("string", "list"):
        return P
    if k in ("own", "borrow"):
        return 4
    if k == "enum":
        return disc_size(t.n)
    if k == "flags":
        return 1 if t.n <= 8 else 2 if t.n <= 16 else 4
    if k in ("record", "tuple"):
        return max([alignment(f, P) for _, f in fields_of(t)] or [1])
    if k in ("option", "result", "variant"):
        cs = cases_of(t)
        return max([disc_size(len(cs))] + [alignment(c, P) for _, c in cs if c is not None])
    raise ValueError(k)


def size(t, P: int) -> int:
    k = t.kind
    if k == "prim":
        return PRIM_SIZE[t.name]
    if k in ("string", "list"):
        return 2 * P
    if k in ("own", "borrow"):
        return 4
    if k == "enum":
        return disc_size(t.n)
    if k == "flags":
        return 1 if t.n <= 8 else 2 if t.n <= 16 else 4 * flags_words(t.n)
    if k in ("record", "tuple"):
        s = 0
        for _, f in fields_of(t):
            s = align_to(s, alignment(f, P)) + size(f, P)
        return align_to(s, alignment(t, P))
    if k in ("option", "result", "variant"):
        cs = cases_of(t)
        s = payload_offset(t, P) + max([size(c, P) for _, c in cs if c is not None] or [0])
        return align_to(s, alignment(t, P))
    raise ValueError(k)


def field_offsets(t, P: int):
    offs, s = [], 0
    for _, f in fields_of(t):
        s = align_to(s, alignment(f, P))
        offs.append(s)
        s += size(f, P)
    return offs


def payload_offset(t, P: int) -> int:
    cs = cases_of(t)
    amax = max([alignment(c, P) for _, c in cs if c is not None] or [1])
    return align_to(disc_size(len(cs)), amax)


def ptr_flat(P: int) -> str:
    return "i32" if P == 4 else "i64"


def join(a: str, b: str) -> str:
    if a == b:
        return a
    if {a, b} == {"i32", "f32"}:
        return "i32"
    return "i64"


def flatten(t, P: int):
    k = t.kind
    if k == "prim":
        return [PRIM_FLAT[t.name]]
    if k in ("string", "list"):
        return [ptr_flat(P), ptr_flat(P)]
    if k in ("own", "borrow", "enum"):
        return ["i32"]
    if k == "flags":
        return ["i32"] * max(1, flags_words(t.n))
    if k in ("record", "tuple"):
        out = []
        for _, f in fields_of(t):
            out += flatten(f, P)
        return out
    if k in ("option", "result", "variant"):
        flat = []
        for _, c in cases_of(t):
            if c is None:
                continue
            for i, ft in enumerate(flatten(c, P)):
                if i < len(flat):
                    flat[i] = join(flat[i], ft)
                else:
                    flat.append(ft)
        return ["i32"] + flat
    raise ValueError(k)


class FuncABI:
    """flatten_functype for a sync import (lower) / export (lift) of `func(params) -> result`."""

    def __init__(self, params, result, P: int):
        self.P = P
        self.params = params
        self.result = result
        self.param_tuple = W.Tuple([t for _, t in params])
        self.flat_params = [x for _, t in params for x in flatten(t, P)]
        self.indirect_params = len(self.flat_params) > MAX_FLAT_PARAMS
        self.flat_result = flatten(result, P) if result is not None else []
        self.indirect_result = len(self.flat_result) > MAX_FLAT_RESULTS

    def core_params(self, direction: str):
        ps = [ptr_flat(self.P)] if self.indirect_params else list(self.flat_params)
        if self.indirect_result and direction == "import":
            ps.append(ptr_flat(self.P))
        return ps

    def core_results(self, direction: str):
        if self.indirect_result:
            return [] if direction == "import" else [ptr_flat(self.P)]
        return list(self.flat_result)
