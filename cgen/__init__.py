"""Engine E4 `cgen`: CBMC over the generated C guest bindings (C10, C11).

  wit.py     WIT type model, the enumerated corpus of worlds, WIT text
  canon.py   reference of the Component Model canonical ABI (size, alignment,
             offsets, flattening with joins) -- trusted base, written from the
             specification, parameterised by pointer width
  chdr.py    reads the generated w.h / w.c (typedefs, prototypes, core symbols)
  hgen.py    binds WIT types to the C types of the header by name conventions
             and generates harness.c (reference encoder / decoder / comparer
             per type + one harness per function and direction)
  runc.py    CBMC invocation, result classification, trace -> inputs, replay
"""
