#!/usr/bin/env python3
"""Mutation self-test of engine E4 (not part of `check`; run by hand):

    python3 /verif/cgen/selftest.py [mutation-name ...]

Applies hand-made breaking mutations to a SCRATCH worktree of the repository
(never to /repo), runs `VERIF_REPO=<scratch> /verif/check C10|C11` restricted by
CGEN_ONLY to the worlds where the mutation can manifest, and expects exit 1 + a
VIOLATION line + a replay file.  Results: /verif/work/cgen/selftest_results.json
"""
from __future__ import annotations

import json
import os
import re
import subprocess
import sys
import time

WT = "/tmp/wt_cgen"
VERIF = os.path.dirname(os.path.dirname(os.path.abspath(__file__)))
ABI = "crates/core/src/abi.rs"
C = "crates/c/src/lib.rs"

# name -> (file, old text, new text, property, CGEN_ONLY worlds, description)
MUTATIONS = {
    "variant-payload-offset-8": (
        ABI,
        """        let payload_offset = offset + (self.bindgen.sizes().payload_offset(tag, cases.clone()));
        for (i, ty) in cases.into_iter().enumerate() {""",
        """        let po_mut = self.bindgen.sizes().payload_offset(tag, cases.clone());
        let payload_offset = offset + if po_mut.bytes == 8 { ArchitectureSize::new(4, 0) } else { po_mut };
        for (i, ty) in cases.into_iter().enumerate() {""",
        "C10", "variant-f32-s64,option-u64,option-u8", "variant payload written at offset 4 when its alignment demands 8"),
    "option-string-is-some-wrong-byte": (
        ABI,
        """        self.stack.push(addr.clone());
        self.load_intrepr(offset, tag);
        let payload_offset = offset + (self.bindgen.sizes().payload_offset(tag, cases.clone()));
        for ty in cases {
            self.push_block();
            if let Some(ty) = ty {
                self.read_from_memory(ty, addr.clone(), payload_offset);""",
        """        self.stack.push(addr.clone());
        let po_mut = self.bindgen.sizes().payload_offset(tag, cases.clone());
        self.load_intrepr(if po_mut.pointers == 1 && po_mut.bytes == 0 { offset + ArchitectureSize::new(1, 0) } else { offset }, tag);
        let payload_offset = offset + (self.bindgen.sizes().payload_offset(tag, cases.clone()));
        for ty in cases {
            self.push_block();
            if let Some(ty) = ty {
                self.read_from_memory(ty, addr.clone(), payload_offset);""",
        "C10", "option-string,option-u8", "discriminant of a variant with a pointer-aligned payload read from byte 1"),
    "post-return-skips-err-string": (
        ABI,
        """        let payload_offset = offset + (self.bindgen.sizes().payload_offset(tag, cases.clone()));
        for ty in cases {
            self.push_block();
            if let Some(ty) = ty {
                self.deallocate_indirect(ty, addr.clone(), payload_offset, what);
            }
            self.finish_block(0);
        }""",
        """        let payload_offset = offset + (self.bindgen.sizes().payload_offset(tag, cases.clone()));
        let n_mut = cases.clone().into_iter().count();
        for (i_mut, ty) in cases.into_iter().enumerate() {
            self.push_block();
            if let Some(ty) = ty {
                if !(n_mut == 2 && i_mut == 1 && matches!(ty, Type::String)) {
                    self.deallocate_indirect(ty, addr.clone(), payload_offset, what);
                }
            }
            self.finish_block(0);
        }""",
        "C11", "result-u8-string,result-string-u8", "post-return does not free the string in the second case of a two-case variant"),
    "list-length-in-pointer-slot": (
        ABI,
        """        self.emit(&Instruction::LengthStore {
            offset: offset + self.bindgen.sizes().align(ty).into(),
        });""",
        """        self.emit(&Instruction::LengthStore { offset });""",
        "C10", "record-u8-string,prim-string,list-u32", "list/string length stored into the pointer slot"),
    "flags33-loses-second-word": (
        C,
        """                    results.push(format!("({tmp} >> 32) & 0xffffffff"));""",
        """                    results.push(format!("0"));""",
        "C10", "flags-33,flags-17", "FlagsLower of a 33..64-member flags type drops the second word"),
    "import-wrapper-frees-argument-string": (
        C,
        """        let FunctionBindgen {
            src,
            import_return_pointer_area_size,
            import_return_pointer_area_align,
            ..
        } = f;
""",
        """        for (i, p) in func.params.iter().enumerate() {
            if matches!(p.ty, Type::String) {
                let n_mut = f.sig.params[i].1.clone();
                f.src.push_str(&format!("if ((*{n_mut}).len > 0) free((*{n_mut}).ptr);\\n"));
            }
        }
        let FunctionBindgen {
            src,
            import_return_pointer_area_size,
            import_return_pointer_area_align,
            ..
        } = f;
""",
        "C11", "prim-string,prim-u8", "import wrapper frees the caller's argument string"),
    "import-return-area-too-small": (
        C,
        """            self.import_return_pointer_area_size = self.import_return_pointer_area_size.max(size);""",
        """            self.import_return_pointer_area_size = self.import_return_pointer_area_size.max(
                if size.bytes >= 16 { ArchitectureSize::new(size.bytes - 8, size.pointers) } else { size });""",
        "C10", "params-15-flat,tuple-u8-u64", "stack return area of an import wrapper 8 bytes too small for a multi-value result"),
    "seed-C10-3-flags-u16-loaded-as-u8": (
        ABI, """                            self.stack.push(addr);
                            self.load_intrepr(offset, Int::U16);""", """                            self.stack.push(addr);
                            self.load_intrepr(offset, Int::U8);""",
        "C10", "mem-*,flags-9", "seeded C10-3: 9..16-member flags lifted from memory as one byte"),
    "seed-C11-3-droppable-borrow-record-all": (
        C, """                    .any(|f| self.contains_droppable_borrow(&f.ty)),""", """                    .all(|f| self.contains_droppable_borrow(&f.ty)),""",
        "C11", "handle-*", "seeded C11-3: autodrop guard misses list<record { u32, borrow }>; the trampoline drops none of the lent handles"),
    "revert-flags-lift-fix-934ab68": (
        C, None, None, "C10", "flags-33,flags-9", "git revert of 934ab68 (FlagsLift sign-extends the low word again)"),
    "revert-free-helper-fix-447cf63": (
        C, None, None, "C11", "variant-f32-list-u8,prim-u8", "git revert of 447cf63 (exports_*_free skips anonymous list members again)"),
    "revert-dtor-name-fix-50546d4": (
        C, None, None, "C11", "prim-u8", "git revert of 50546d4 ([dtor]multi_word export name again)"),
}


# roles that fail on the UNCHANGED tree (genuine findings not yet repaired / listed): never evidence that a mutation was caught
BASELINE_ROLES = ["mem-list-record-u32-fl33/element-size"]


def sh(cmd, **kw):
    return subprocess.run(cmd, shell=isinstance(cmd, str), stdout=subprocess.PIPE, stderr=subprocess.STDOUT, text=True, **kw)


def reset():
    sh(["git", "-C", WT, "checkout", "--", "."])


def apply(name):
    f, old, new, prop, only, desc = MUTATIONS[name]
    if old is None:
        commit = name.rsplit("-", 1)[1]
        r = sh("git -C %s show %s | git -C %s apply -R" % (WT, commit, WT))
        return r.returncode == 0, r.stdout
    path = os.path.join(WT, f)
    s = open(path).read()
    if s.count(old) != 1:
        return False, "pattern occurs %d times in %s" % (s.count(old), f)
    with open(path, "w") as fh:
        fh.write(s.replace(old, new))
    return True, ""


def main():
    names = sys.argv[1:] or list(MUTATIONS)
    if not os.path.isdir(WT):
        print(sh(["git", "-C", "/repo", "worktree", "add", "--detach", WT, "HEAD"]).stdout)
    res_path = os.path.join(VERIF, "work", "cgen", "selftest_results.json")
    results = json.load(open(res_path)) if os.path.exists(res_path) else {}
    for name in names:
        f, old, new, prop, only, desc = MUTATIONS[name]
        reset()
        ok, msg = apply(name)
        if not ok:
            results[name] = {"status": "not-applied", "why": msg}
            print(name, "NOT APPLIED", msg)
            continue
        env = dict(os.environ, VERIF_REPO=WT, VERIF_EVIDENCE_DIR=os.path.join(VERIF, "work", "mut_evidence"), CGEN_ONLY=only)
        t0 = time.time()
        r = sh([os.path.join(VERIF, "check"), prop], env=env)
        viol = re.findall(r"^VIOLATION property=\S+ replay=(\S+)\n\s+role=(\S+)", r.stdout, re.M)
        viol = [v for v in viol if not any(b in v[1] for b in BASELINE_ROLES)]      # findings of the unchanged tree do not count
        caught = r.returncode == 1 and bool(viol) and all(os.path.exists(v[0]) for v in viol)
        results[name] = {"status": "caught" if caught else "MISSED", "property": prop, "worlds": only, "what": desc, "exit": r.returncode,
                         "roles": [v[1] for v in viol], "replays": [v[0] for v in viol], "seconds": round(time.time() - t0, 1),
                         "tail": r.stdout.strip().splitlines()[-3:]}
        print(name, results[name]["status"], "exit", r.returncode, [v[1] for v in viol], "%.0fs" % (time.time() - t0))
        with open(res_path, "w") as fh:
            json.dump(results, fh, indent=1)
    reset()


if __name__ == "__main__":
    main()
