"""WIT type model, WIT text, and the enumerated corpus of worlds for engine E4.

The quantifier over worlds is ENUMERATED here (one world per type class with an
imported and an exported copy of the same function); the values are symbolic in
CBMC.  Restricted to what crates/test/src/c.rs does not declare unsupported for
the C backend (error-context; named fixed-length lists) -- and to the synchronous
ABI (futures/streams/--async are outside the claim).
"""
from __future__ import annotations

PRIMS = ["bool", "u8", "s8", "u16", "s16", "u32", "s32", "u64", "s64", "f32", "f64", "char"]


class T:
    kind = "?"

    def wit(self) -> str:
        raise NotImplementedError

    def named(self):
        """named type definitions needed (depth first, dependencies first)"""
        return []

    def has_list(self) -> bool:
        return any(c.has_list() for c in self.children())

    def children(self):
        return []

    def contains(self, kind) -> bool:
        return self.kind == kind or any(c.contains(kind) for c in self.children())

    def borrow_in_list(self) -> bool:
        """a borrow handle that lives in list memory (the C trampoline never sees it)"""
        if self.kind == "list":
            return self.elem.contains("borrow")
        return any(c.borrow_in_list() for c in self.children())

    def heap_depth(self) -> int:
        """nesting depth of heap buffers (string = 1, list<string> = 2, ...)"""
        d = max([c.heap_depth() for c in self.children()] or [0])
        return d + 1 if self.kind in ("list", "string") else d


class Prim(T):
    kind = "prim"

    def __init__(self, name):
        assert name in PRIMS
        self.name = name

    def wit(self):
        return self.name


class String(T):
    kind = "string"

    def wit(self):
        return "string"

    def has_list(self):
        return True


class List(T):
    kind = "list"

    def __init__(self, elem):
        self.elem = elem

    def wit(self):
        return "list<%s>" % self.elem.wit()

    def children(self):
        return [self.elem]

    def named(self):
        return self.elem.named()

    def has_list(self):
        return True


class Option(T):
    kind = "option"

    def __init__(self, elem):
        self.elem = elem

    def wit(self):
        return "option<%s>" % self.elem.wit()

    def children(self):
        return [self.elem]

    def named(self):
        return self.elem.named()


class Result(T):
    kind = "result"

    def __init__(self, ok, err):
        self.ok, self.err = ok, err

    def wit(self):
        if self.ok is None and self.err is None:
            return "result"
        if self.err is None:
            return "result<%s>" % self.ok.wit()
        return "result<%s, %s>" % ("_" if self.ok is None else self.ok.wit(), self.err.wit())

    def children(self):
        return [x for x in (self.ok, self.err) if x is not None]

    def named(self):
        return sum([c.named() for c in self.children()], [])


class Tuple(T):
    kind = "tuple"

    def __init__(self, elems):
        self.elems = list(elems)

    def wit(self):
        return "tuple<%s>" % ", ".join(e.wit() for e in self.elems)

    def children(self):
        return self.elems

    def named(self):
        return sum([c.named() for c in self.elems], [])


class Record(T):
    kind = "record"

    def __init__(self, name, fields):
        self.name, self.fields = name, list(fields)

    def wit(self):
        return self.name

    def children(self):
        return [t for _, t in self.fields]

    def named(self):
        return sum([c.named() for c in self.children()], []) + [self]

    def definition(self):
        return "record %s { %s }" % (self.name, ", ".join("%s: %s" % (n, t.wit()) for n, t in self.fields))


class Variant(T):
    kind = "variant"

    def __init__(self, name, cases):
        self.name, self.cases = name, list(cases)

    def wit(self):
        return self.name

    def children(self):
        return [t for _, t in self.cases if t is not None]

    def named(self):
        return sum([c.named() for c in self.children()], []) + [self]

    def definition(self):
        return "variant %s { %s }" % (self.name, ", ".join(n if t is None else "%s(%s)" % (n, t.wit()) for n, t in self.cases))


class Enum(T):
    kind = "enum"

    def __init__(self, name, n):
        self.name, self.n = name, n

    def wit(self):
        return self.name

    def named(self):
        return [self]

    def definition(self):
        return "enum %s { %s }" % (self.name, ", ".join("c%d" % i for i in range(self.n)))


class Flags(T):
    kind = "flags"

    def __init__(self, name, n):
        self.name, self.n = name, n

    def wit(self):
        return self.name

    def named(self):
        return [self]

    def definition(self):
        return "flags %s { %s }" % (self.name, ", ".join("b%d" % i for i in range(self.n)))


class Own(T):
    kind = "own"

    def __init__(self, res):
        self.res = res

    def wit(self):
        return self.res


class Borrow(T):
    kind = "borrow"

    def __init__(self, res):
        self.res = res

    def wit(self):
        return "borrow<%s>" % self.res


def P(n):
    return Prim(n)


class World:
    """One world: interface `api` with one function, imported and exported."""

    def __init__(self, type_class, params, result, group, resources=()):
        self.type_class = type_class          # stable key used in roles
        self.params = params                  # [(name, T)]
        self.result = result                  # T or None
        self.group = group                    # corpus family (for sampling / reporting)
        self.resources = list(resources)      # imported resources declared in interface `types`

    def types(self):
        ts = [t for _, t in self.params] + ([self.result] if self.result is not None else [])
        return ts

    def uses(self, kind):
        return any(t.contains(kind) for t in self.types())

    def heap_depth(self):
        return max([t.heap_depth() for t in self.types()] or [0])

    def borrow_in_list(self):
        return any(t.borrow_in_list() for _, t in self.params)

    def wit_text(self):
        defs, seen = [], set()
        for t in self.types():
            for d in t.named():
                if d.name not in seen:
                    seen.add(d.name)
                    defs.append(d.definition())
        sig = "f: func(%s)%s;" % (", ".join("%s: %s" % (n, t.wit()) for n, t in self.params),
                                  "" if self.result is None else " -> " + self.result.wit())
        out = ["package probe:p;", ""]
        if self.resources:
            out += ["interface types {"] + ["  resource %s;" % r for r in self.resources] + ["}", ""]
        out.append("interface api {")
        if self.resources:
            out.append("  use types.{%s};" % ", ".join(self.resources))
        out += ["  " + d for d in defs]
        out += ["  " + sig, "}", "", "world w {", "  import api;", "  export api;", "}", ""]
        return "\n".join(out)


def _id(t):
    return [("x", t)], t


def corpus(tier: str):
    """The enumerated worlds.  quick is a subset of thorough."""
    th = tier == "thorough"
    ws = []

    def add(cls, t, group):
        p, r = _id(t)
        ws.append(World(cls, p, r, group))

    # -- all primitives + string
    for p in PRIMS:
        add("prim-" + p, P(p), "prim")
    add("prim-string", String(), "prim")

    # -- records with padding, tuples
    add("record-u8-u64", Record("r1", [("a", P("u8")), ("b", P("u64"))]), "record")
    add("record-u8-u16-u8-u32", Record("r2", [("a", P("u8")), ("b", P("u16")), ("c", P("u8")), ("d", P("u32"))]), "record")
    add("record-u8-string", Record("r3", [("a", P("u8")), ("b", String())]), "record")
    add("tuple-u8-u64", Tuple([P("u8"), P("u64")]), "tuple")
    add("tuple-u8-string", Tuple([P("u8"), String()]), "tuple")
    if th:
        add("tuple-f32-f64-u8", Tuple([P("f32"), P("f64"), P("u8")]), "tuple")
        add("record-nested", Record("r5", [("a", P("u8")), ("b", Record("r4", [("a", P("u16")), ("b", P("f64"))])), ("c", P("bool"))]), "record")
        add("record-s8-s16-s64", Record("r6", [("a", P("s8")), ("b", P("s16")), ("c", P("s64"))]), "record")

    # -- enums, flags
    add("enum-2", Enum("e2", 2), "enum")
    add("enum-257", Enum("e257", 257), "enum")
    for n in (3, 9, 17, 33):
        add("flags-%d" % n, Flags("fl%d" % n, n), "flags")
    if th:
        for n in (8, 16, 32, 64):
            add("flags-%d" % n, Flags("fl%d" % n, n), "flags")
        add("enum-256", Enum("e256", 256), "enum")

    # -- option / result over {u8,u32,u64,f32,f64,string,list<u8>}
    pay = [("u8", P("u8")), ("u32", P("u32")), ("u64", P("u64")), ("f32", P("f32")), ("f64", P("f64")),
           ("string", String()), ("list-u8", List(P("u8")))]
    for n, t in pay:
        add("option-" + n, Option(t), "option")
    for n, t in pay:
        if n != "string":
            add("result-%s-string" % n, Result(t, String()), "result")
    add("result-string-u8", Result(String(), P("u8")), "result")
    add("result-none-u8", Result(None, P("u8")), "result")
    add("result-u64-none", Result(P("u64"), None), "result")
    if th:
        add("result-none-none", Result(None, None), "result")
        add("result-string-string", Result(String(), String()), "result")
        add("option-option-u8", Option(Option(P("u8"))), "option")
        add("option-record-u8-u64", Option(Record("r1", [("a", P("u8")), ("b", P("u64"))])), "option")

    # -- variants exercising every join pair
    def var(name, *cases):
        return Variant(name, [("c%d" % i, c) for i, c in enumerate(cases)])
    add("variant-f32-s64", var("v1", P("f32"), P("s64")), "variant")
    add("variant-u32-string", var("v2", P("u32"), String()), "variant")
    add("variant-f64-string", var("v3", P("f64"), String()), "variant")
    add("variant-f32-list-u8", var("v4", P("f32"), List(P("u8"))), "variant")
    add("variant-u64-u8", var("v5", P("u64"), P("u8")), "variant")
    add("variant-none-u8-f64", var("v6", None, P("u8"), P("f64")), "variant")
    add("variant-f32-u32", var("v7", P("f32"), P("u32")), "variant")
    # payload-less case BEFORE a heap-owning case: discriminant != index among payload cases (seed C11-4)
    add("variant-none-string-u32", var("v12", None, String(), P("u32")), "variant")
    if th:
        add("variant-s64-list-u8", var("v8", P("s64"), List(P("u8"))), "variant")
        add("variant-f32-f64", var("v9", P("f32"), P("f64")), "variant")
        add("variant-record-string", var("v10", Record("r1", [("a", P("u8")), ("b", P("u64"))]), String()), "variant")
        add("variant-tuple-f32-f32-u64", var("v11", Tuple([P("f32"), P("f32")]), P("u64")), "variant")

    # -- lists: scalar elements (canonical memcpy path), string / record elements, nested
    for n in (["u8", "u32", "u64", "f64"] if not th else ["bool", "u8", "s8", "u16", "s16", "u32", "s32", "u64", "s64", "f32", "f64", "char"]):
        add("list-" + n, List(P(n)), "list")
    add("list-string", List(String()), "list")
    add("list-record-u8-u64", List(Record("r1", [("a", P("u8")), ("b", P("u64"))])), "list")
    add("list-record-u8-string", List(Record("r3", [("a", P("u8")), ("b", String())])), "list")
    add("list-list-u8", List(List(P("u8"))), "list")
    if th:
        add("list-option-u8", List(Option(P("u8"))), "list")
        add("list-variant-u32-string", List(var("v2", P("u32"), String())), "list")
        add("list-tuple-u8-u64", List(Tuple([P("u8"), P("u64")])), "list")
        add("list-enum-257", List(Enum("e257", 257)), "list")
        add("list-flags-33", List(Flags("fl33", 33)), "list")

    # -- multi-parameter functions straddling the 16-flat-parameter limit; multi-value result through the return area
    def multi(nflat):
        # (nflat - 3) x u8, then u64, then string (2 flat)
        ps = [("a%d" % i, P("u8")) for i in range(nflat - 3)] + [("b", P("u64")), ("s", String())]
        return ps
    for n in (15, 16, 17):
        ws.append(World("params-%d-flat" % n, multi(n), Tuple([P("u8"), P("u64"), String()]), "params"))
    ws.append(World("params-mixed-2", [("a", P("f32")), ("b", Option(String()))], Tuple([P("f64"), P("u8")]), "params"))
    ws.append(World("params-none-result-none", [], None, "params"))
    if th:
        ws.append(World("params-17-u64", [("a%d" % i, P("u64")) for i in range(17)], P("u64"), "params"))
        ws.append(World("params-16-record", [("r", Record("r7", [("f%d" % i, P("u16")) for i in range(16)]))], P("u8"), "params"))
        ws.append(World("params-17-record", [("r", Record("r8", [("f%d" % i, P("u16")) for i in range(17)]))], P("u8"), "params"))

    # -- every scalar-like leaf through the MEMORY path in both directions (not only the flat path): flags of every
    #    representation (u8 / u16 / u32 / 2 x u32), a 257-case enum (u16 discriminant), bool, char, signed narrow ints, f32
    def leaves():
        return [("a", P("bool")), ("b", Flags("fl3", 3)), ("c", P("s8")), ("d", Flags("fl9", 9)), ("e", P("s16")),
                ("f", Flags("fl12", 12)), ("g", P("char")), ("h", Flags("fl16", 16)), ("i", P("f32")), ("j", Flags("fl17", 17)),
                ("k", Enum("e257", 257)), ("l", Flags("fl33", 33)), ("m", P("u8"))]
    rm = Record("rm", leaves())                                   # 14 flat values: flat parameters, result through the return area
    vm = Variant("vm", [("c%d" % i, t) for i, (_, t) in enumerate(leaves())])      # payload stored / loaded at the payload offset
    ws.append(World("mem-record-leaves", [("x", rm)], rm, "memory"))
    ws.append(World("mem-variant-leaves", [("x", vm)], vm, "memory"))
    # list elements are never lifted one by one by the C backend (the list memory is handed over as it is): what matters is that the
    # C struct layout IS the canonical element layout -- a smaller record with every alignment class is enough (and much cheaper)
    rl = Record("rl", [("a", P("bool")), ("d", Flags("fl9", 9)), ("c", P("s8")), ("h", Flags("fl16", 16)), ("k", Enum("e257", 257)),
                       ("j", Flags("fl17", 17)), ("e", P("s16")), ("g", P("char"))])
    ws.append(World("mem-list-record-leaves", [("x", List(rl))], List(rl), "memory"))
    # flags with 33..64 members: canonical layout = two u32 words (alignment 4); the C type is uint64_t (alignment 8)
    r33 = Record("r33", [("a", P("u32")), ("l", Flags("fl33", 33))])
    ws.append(World("mem-list-record-u32-fl33", [("x", List(r33))], List(r33), "memory"))
    # > 16 flat parameters: the parameter record itself goes through memory (export: lifted from it; import: lowered into it)
    ws.append(World("mem-params-indirect-record-leaves", [("x", rm), ("p", P("u64")), ("q", P("u64")), ("r", P("u64"))], rm, "memory"))
    ws.append(World("mem-params-indirect-variant-leaves", [("x", vm)] + [("a%d" % i, P("u8")) for i in range(14)], vm, "memory"))
    ws.append(World("mem-record-id-fl12-level", [], Record("rp", [("id", P("u32")), ("p", Flags("fl12", 12)), ("level", P("u8"))]), "memory"))
    if th:
        ws.append(World("mem-option-fl9", [("x", Option(Flags("fl9", 9)))], Option(Flags("fl9", 9)), "memory"))
        ws.append(World("mem-tuple-fl16-s8-e257", [("x", Tuple([Flags("fl16", 16), P("s8"), Enum("e257", 257)]))],
                        Tuple([Flags("fl16", 16), P("s8"), Enum("e257", 257)]), "memory"))
        vl = Variant("vl", [("c0", Flags("fl9", 9)), ("c1", P("s8")), ("c2", Enum("e257", 257)), ("c3", Flags("fl17", 17)), ("c4", P("bool"))])
        ws.append(World("mem-list-variant-leaves", [("x", List(vl))], List(vl), "memory"))
        ws.append(World("mem-result-s16-fl12", [("x", Result(P("s16"), Flags("fl12", 12)))], Result(P("s16"), Flags("fl12", 12)), "memory"))

    # -- own / borrow handles of an imported resource
    ws.append(World("handle-own", [("x", Own("res"))], Own("res"), "handle", resources=["res"]))
    ws.append(World("handle-borrow", [("x", Borrow("res"))], P("u32"), "handle", resources=["res"]))
    ws.append(World("handle-borrow-multi-word", [("x", Borrow("multi-word"))], P("u32"), "handle", resources=["multi-word"]))
    # borrows reachable through aggregates.  Under autodrop_borrows=yes the generator either REFUSES the world (borrows inside list
    # memory cannot be recorded by the trampoline: "declared unsupported by the generator") or every lent handle is dropped exactly once
    rb = Record("rb", [("id", P("u32")), ("h", Borrow("res"))])
    ws.append(World("handle-record-borrow", [("x", rb)], P("u32"), "handle", resources=["res"]))
    ws.append(World("handle-option-borrow", [("x", Option(Borrow("res")))], P("u8"), "handle", resources=["res"]))
    ws.append(World("handle-tuple-borrow-u32", [("x", Tuple([Borrow("res"), P("u32")]))], P("u32"), "handle", resources=["res"]))
    ws.append(World("handle-list-borrow", [("x", List(Borrow("res")))], P("u32"), "handle", resources=["res"]))
    ws.append(World("handle-list-record-borrow", [("x", List(rb))], P("u32"), "handle", resources=["res"]))
    if th:
        ws.append(World("handle-list-own", [("x", List(Own("res")))], List(Own("res")), "handle", resources=["res"]))
        ws.append(World("handle-two-borrows", [("x", Borrow("res")), ("y", Borrow("res"))], P("u8"), "handle", resources=["res"]))
        ws.append(World("handle-list-tuple-borrow", [("x", List(Tuple([P("u8"), Borrow("res")])))], P("u8"), "handle", resources=["res"]))
        ws.append(World("handle-variant-borrow-u32", [("x", Variant("vb", [("c0", Borrow("res")), ("c1", P("u32"))]))], P("u8"), "handle",
                        resources=["res"]))
    names = [w.type_class for w in ws]
    assert len(names) == len(set(names))
    return ws


OPTION_SETS = {
    "default": [],
    "no-sig-flattening": ["no_sig_flattening=true"],
    "autodrop-borrows": ["autodrop_borrows=yes"],
    "utf16": ["string_encoding=utf16"],
    "no-sig-flattening+utf16": ["no_sig_flattening=true", "string_encoding=utf16"],
    "no-sig-flattening+autodrop-borrows": ["no_sig_flattening=true", "autodrop_borrows=yes"],
    "autodrop-borrows+utf16": ["autodrop_borrows=yes", "string_encoding=utf16"],
    "all-alternatives": ["no_sig_flattening=true", "autodrop_borrows=yes", "string_encoding=utf16"],
}


def option_sets(tier: str):
    """quick: default + the combined alternative; thorough: the full 2x2x2 matrix."""
    if tier == "thorough":
        return list(OPTION_SETS)
    return ["default", "all-alternatives"]
