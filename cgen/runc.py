"""CBMC invocation, result classification, trace -> inputs, replays (engine E4)."""
from __future__ import annotations

import os
import re
import sys

HERE = os.path.dirname(os.path.abspath(__file__))
VERIF = os.path.dirname(HERE)
sys.path.insert(0, os.path.join(VERIF, "lib"))
import vlib  # noqa: E402

CINC = os.path.join(VERIF, "exprsmt", "cinc")     # stdint/stddef/stdbool/string/stdlib shim shared with engine E2
CINC2 = os.path.join(HERE, "cinc")                # + uchar.h (utf16 bindings)

_RES = re.compile(r"^\[(?P<id>[^\]]+)\] (?:line (?P<line>\d+) )?(?P<desc>.*): (?P<st>SUCCESS|FAILURE|UNKNOWN|ERROR)\s*$", re.M)
_FILEFN = re.compile(r"^(?P<file>\S+) function (?P<fn>\S+)\s*$")


def cbmc_cmd(harness_c, fn, unwind, defines=(), prop=None, trace=False):
    cmd = ["cbmc", "--32", "--little-endian", "-I", CINC, "-I", CINC2, "-I", os.path.dirname(harness_c), harness_c, "--function", fn,
           "--unwind", str(unwind), "--unwinding-assertions", "--no-standard-checks", "--pointer-check", "--bounds-check",
           "--memory-leak-check", "--no-malloc-may-fail", "--drop-unused-functions", "--object-bits", "10"]
    for d in defines:
        cmd += ["-D", d]
    if prop:
        cmd += ["--property", prop]
    if trace:
        cmd.append("--trace")
    return cmd


def run_cbmc(harness_c, fn, unwind, timeout=120, mem_gb=6, defines=(), prop=None, trace=False, log=None):
    cmd = cbmc_cmd(harness_c, fn, unwind, defines, prop, trace)
    rc, out, dt = vlib.run_cmd(cmd, cwd=os.path.dirname(harness_c), timeout=timeout, mem_gb=mem_gb, log=log)
    return rc, out, dt, " ".join(cmd)


def parse_results(out):
    """-> [ {id, file, fn, line, desc, status} ]  (file/fn = where the property sits)"""
    res, cur_file, cur_fn = [], None, None
    for line in out.splitlines():
        m = _FILEFN.match(line)
        if m:
            cur_file, cur_fn = m.group("file"), m.group("fn")
            continue
        m = _RES.match(line)
        if m:
            res.append({"id": m.group("id"), "file": cur_file, "fn": cur_fn, "line": int(m.group("line") or 0),
                        "desc": m.group("desc").strip(), "status": m.group("st")})
    return res


def classify(p):
    """-> (property 'C10'|'C11'|'REACH'|'UNWIND'|None, assertion class)"""
    d = p["desc"]
    if d.startswith("REACH|"):
        return "REACH", d[6:]
    if d.startswith("C10|") or d.startswith("C11|"):
        parts = d.split("|")
        return parts[0], parts[2] if len(parts) > 2 else "assertion"
    if d.startswith("unwinding assertion"):
        return "UNWIND", "unwinding"
    if "dynamically allocated memory never freed" in d:
        return "C11", "leak"
    if d.startswith("double free"):
        return "C11", "double-free"
    if d.startswith("free argument") or d.startswith("free called"):
        return "C11", "invalid-free"
    if "deallocated dynamic object" in d:
        return "C11", "use-after-free"
    if d.startswith("dereference failure") or "bounds" in d or d.startswith("pointer relation") or d.startswith("pointer arithmetic"):
        return "C10", "out-of-bounds-or-invalid-pointer"
    return "C10", "other-check"


def trace_inputs(out, nin):
    """values of in_[0..nin) in a CBMC text trace (`in_[3l]=5ull (0000 ...)`); last assignment wins; missing => 0"""
    vals, found = [], 0
    for i in range(nin):
        ms = re.findall(r"^\s*in_\[%d[a-z]*\]=\S+ \(([01 ]+)\)\s*$" % i, out, re.M)
        if ms:
            found += 1
            vals.append(int(ms[-1].replace(" ", ""), 2))
        else:
            vals.append(0)
    return vals if found else None


def trace_selector(out):
    ms = re.findall(r"^\s*sel_=(\d+)u? \(", out, re.M)
    return int(ms[-1]) if ms else None


def write_fixed_inputs(d, nin_max, vals, sel=0):
    v = list(vals) + [0] * (nin_max + 1 - len(vals))
    with open(os.path.join(d, "fixed_inputs.h"), "w") as f:
        f.write("static const unsigned fixed_sel_ = %du;\n" % sel)
        f.write("static const u64_ fixed_[%d] = { %s };\n" % (len(v), ", ".join("0x%xull" % x for x in v)))


def build_native(d, harness_c, exe):
    """gcc -m64 build of the same harness + generated w.c (pointer width 8: the reference adapts through PS_)"""
    cmd = ["gcc", "-m64", "-O0", "-w", "-fsanitize=address", "-fno-omit-frame-pointer", "-DCGEN_NATIVE", "-I", d, harness_c, "-o", exe]
    rc, out, dt = vlib.run_cmd(cmd, cwd=d, timeout=120)
    return rc, out, " ".join(cmd)


def run_native(exe, harness, vals):
    env = {"ASAN_OPTIONS": "detect_leaks=0:abort_on_error=0:exitcode=97"}
    rc, out, dt = vlib.run_cmd([exe, harness] + ["%d" % v for v in vals], timeout=30, env=env)
    res = {}
    for line in out.splitlines():
        m = re.match(r"^(PASS|FAIL) (.*)$", line)
        if m:
            # a label may be checked several times; FAIL wins
            if res.get(m.group(2)) != "FAIL":
                res[m.group(2)] = m.group(1)
    asan = None
    m = re.search(r"ERROR: AddressSanitizer: (\S+)", out)
    if m:
        asan = m.group(1)
    return rc, res, asan, out
