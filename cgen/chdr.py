"""Reads the generated w.h / w.c: typedefs, public prototypes, core import
declarations, core export definitions.  Purely syntactic; anything that does
not parse raises CParseError (=> the world is INCONCLUSIVE)."""
from __future__ import annotations

import re


class CParseError(Exception):
    pass


def strip_comments(s: str) -> str:
    s = re.sub(r"/\*.*?\*/", " ", s, flags=re.S)
    s = re.sub(r"//[^\n]*", " ", s)
    return s


def norm_type(t: str) -> str:
    t = re.sub(r"\bconst\b", " ", t)
    t = re.sub(r"\s+", " ", t.replace("*", " * ")).strip()
    return t


def split_decl(d: str):
    """'uint8_t*ptr' -> ('uint8_t *', 'ptr')"""
    d = d.strip()
    m = re.match(r"^(.*?)(\w+)$", d, re.S)
    if not m or not m.group(1).strip():
        raise CParseError("cannot split declaration %r" % d)
    return norm_type(m.group(1)), m.group(2)


def split_top(s: str, sep: str):
    out, depth, cur = [], 0, []
    for ch in s:
        if ch in "{(":
            depth += 1
        elif ch in "})":
            depth -= 1
        if ch == sep and depth == 0:
            out.append("".join(cur))
            cur = []
        else:
            cur.append(ch)
    if "".join(cur).strip():
        out.append("".join(cur))
    return out


class Struct:
    def __init__(self, name):
        self.name = name
        self.fields = []      # [(ctype, name)]
        self.union = None     # (member name, [(ctype, name)]) for the single anonymous union member, if any

    def field(self, name):
        for t, n in self.fields:
            if n == name:
                return t
        return None

    def ufield(self, name):
        if self.union:
            for t, n in self.union[1]:
                if n == name:
                    return t
        return None


class Func:
    def __init__(self, name, ret, params, text):
        self.name, self.ret, self.params, self.text = name, ret, params, text   # params: [(ctype, name or None)]


class Header:
    def __init__(self, h_text: str, c_text: str):
        self.h_raw, self.c_raw = h_text, c_text
        self.types = {}      # name -> Struct | ('alias', target ctype) | ('opaque',)
        self.funcs = {}      # public prototypes in w.h
        self.parse_header(strip_comments(h_text))
        self.c = strip_comments(c_text)

    # ---- w.h ----------------------------------------------------------
    def parse_header(self, s: str):
        s = "\n".join(l for l in s.split("\n") if not l.lstrip().startswith("#"))
        s = re.sub(r'extern\s+"C"\s*\{', " ", s)
        for stmt in split_top(s, ";"):
            st = stmt.strip()
            if not st or st == "}":
                continue
            st = st.lstrip("}").strip()
            if st.startswith("typedef"):
                self.parse_typedef(st)
            elif "(" in st:
                f = self.parse_proto(st)
                self.funcs[f.name] = f

    def parse_typedef(self, st: str):
        m = re.match(r"^typedef\s+struct\s*(\w+)?\s*\{(.*)\}\s*(\w+)$", st, re.S)
        if m:
            sd = Struct(m.group(3))
            for member in split_top(m.group(2), ";"):
                member = member.strip()
                if not member:
                    continue
                um = re.match(r"^union\s*\{(.*)\}\s*(\w+)$", member, re.S)
                if um:
                    if sd.union is not None:
                        raise CParseError("two unions in struct %s" % sd.name)
                    sd.union = (um.group(2), [split_decl(x) for x in split_top(um.group(1), ";") if x.strip()])
                else:
                    sd.fields.append(split_decl(member))
            self.types[sd.name] = sd
            return
        m = re.match(r"^typedef\s+struct\s+(\w+)\s+(\w+)$", st)
        if m:
            self.types.setdefault(m.group(2), ("opaque",))
            return
        m = re.match(r"^typedef\s+(.*?)(\w+)$", st, re.S)
        if m and m.group(1).strip():
            self.types[m.group(2)] = ("alias", norm_type(m.group(1)))
            return
        raise CParseError("unrecognised typedef: %s" % st[:80])

    def parse_proto(self, st: str) -> Func:
        st = re.sub(r"^extern\s+", "", st.strip())
        m = re.match(r"^(.*?)(\w+)\s*\((.*)\)$", st, re.S)
        if not m:
            raise CParseError("unrecognised prototype: %s" % st[:80])
        ret = norm_type(m.group(1))
        ps = []
        body = m.group(3).strip()
        if body and body != "void":
            for p in split_top(body, ","):
                ps.append(split_decl(p))
        return Func(m.group(2), ret, ps, re.sub(r"\s+", " ", st))

    def resolve(self, ctype: str) -> str:
        """follow typedef aliases down to a struct name / base type / pointer type"""
        seen = 0
        while ctype in self.types and isinstance(self.types[ctype], tuple) and self.types[ctype][0] == "alias":
            ctype = self.types[ctype][1]
            seen += 1
            if seen > 20:
                raise CParseError("alias cycle at %s" % ctype)
        return ctype

    def struct(self, ctype: str):
        r = self.resolve(ctype)
        s = self.types.get(r)
        return s if isinstance(s, Struct) else None

    # ---- w.c ----------------------------------------------------------
    def core_import(self, name: str):
        """extern RET __wasm_import_X(T, T, ...);  -> (ret ctype, [param ctypes]) or None"""
        m = re.search(r"\bextern\s+([^;()]*?)\b%s\s*\(([^)]*)\)\s*;" % re.escape(name), self.c)
        if not m:
            return None
        ps = m.group(2).strip()
        params = [] if ps in ("", "void") else [self._ptype(p) for p in ps.split(",")]
        return norm_type(m.group(1)), params

    @staticmethod
    def _ptype(p: str) -> str:
        p = p.strip()
        # "int32_t handle" (named) or "int32_t" / "uint8_t *" (unnamed)
        m = re.match(r"^(.*?[\s*])(\w+)$", p)
        if m and m.group(1).strip() and m.group(2) not in ("int32_t", "int64_t", "float", "double", "size_t", "uint8_t", "uint32_t"):
            return norm_type(m.group(1))
        return norm_type(p)

    def core_export(self, name: str):
        """RET __wasm_export_X(T a, T b) {  -> (ret, [(ctype, name)], export_name string) or None"""
        m = re.search(r"(?:__attribute__\(\(([^\n]*)\)\)\s*)?^([^\n;(){}]*?)\b%s\s*\(([^)]*)\)\s*\{" % re.escape(name), self.c, re.M)
        if not m:
            return None
        ps = m.group(3).strip()
        params = [] if ps in ("", "void") else [split_decl(p) for p in ps.split(",")]
        en = re.search(r'__export_name__\("([^"]*)"\)', m.group(1) or "")
        return norm_type(m.group(2)), params, (en.group(1) if en else None)

    def has_c_function(self, name: str) -> bool:
        return re.search(r"\b%s\s*\([^;{]*\)\s*\{" % re.escape(name), self.c) is not None
