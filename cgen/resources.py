"""C11, second half: resources.

World: interface `ri` with a single-word resource `res` and a multi-word
(kebab-case) resource `multi-word`, imported AND exported.

 * exported resources: the harness is the host's handle table behind the
   `[resource-new] / [resource-rep] / [resource-drop]` intrinsics; dropping an
   own handle makes the host call the exported destructor SYMBOL that w.c
   defines (`__wasm_export_<ns>_<res>_dtor`); bounded sequences (<= 3 operations,
   nondet choice of new / rep / drop_own) assert that `rep` returns the
   representation given to `new` and that the user destructor runs exactly once
   per dropped handle, on that representation;
 * static: the `__export_name__` string attached to that symbol must be the
   canonical `"<iface>#[dtor]<resource>"` (kebab-case, as in the WIT) -- this is
   the name a component-model host resolves; with another name the destructor is
   never wired to the resource;
 * imported resources: sequences over `*_drop_own / *_drop_borrow / <ns>_borrow_<res>`
   with a counting `[resource-drop]` stub.
"""
from __future__ import annotations

import os
import re
import shutil
import sys

HERE = os.path.dirname(os.path.abspath(__file__))
VERIF = os.path.dirname(HERE)
sys.path.insert(0, os.path.join(VERIF, "lib"))
import vlib  # noqa: E402
from . import chdr, runc  # noqa: E402

RESOURCES = [("res", "single-word"), ("multi-word", "multi-word")]
IFACE = "probe:p/ri"
WIT = """package probe:p;

interface ri {
  resource res { constructor(a: u32); get: func() -> u32; }
  resource multi-word { constructor(a: u32); }
}

world w {
  import ri;
  export ri;
}
"""

PRELUDE = r'''
#include "w.c"
typedef unsigned long long u64_;
unsigned long long nondet_u64(void);
static u64_ in_[8];
#ifdef CGEN_FIXED
#include "fixed_inputs.h"
#define IN_(i) (in_[i] = fixed_[i])
#else
#define IN_(i) (in_[i] = nondet_u64())
#endif
#define CHECK_(c, label) __CPROVER_assert((c), label)
#define HBASE_ 100
'''


def snake(r):
    return r.replace("-", "_")


def gen_harness(hdr: chdr.Header, autodrop: bool):
    """-> (C text, [harness descriptors], problems)"""
    o, hs, problems = [PRELUDE], [], []
    for r, cls in RESOURCES:
        s = snake(r)
        # ---------------- exported resource
        ens = "exports_probe_p_ri"
        rep_t, own_t = "%s_%s_t" % (ens, s), "%s_own_%s_t" % (ens, s)
        need = {"new": "%s_%s_new" % (ens, s), "rep": "%s_%s_rep" % (ens, s), "drop_own": "%s_%s_drop_own" % (ens, s),
                "destructor": "%s_%s_destructor" % (ens, s)}
        missing = [v for v in need.values() if v not in hdr.funcs]
        dtor_sym = "__wasm_export_%s_%s_dtor" % (ens, s)
        ce = hdr.core_export(dtor_sym)
        if missing or ce is None or hdr.types.get(rep_t) != ("opaque",):
            problems.append("exported resource %s: expected helpers are not declared (%s; dtor symbol %s)" % (r, missing, "found" if ce else "missing"))
        else:
            o.append("/* ---- exported resource `%s` ---- */" % r)
            o.append("struct %s { int payload; };" % rep_t)
            o.append("static int dtor_runs_%s; static %s *dtor_arg_%s;" % (s, rep_t, s))
            o.append("void %s(%s *rep) { dtor_runs_%s++; dtor_arg_%s = rep; }" % (need["destructor"], rep_t, s, s))
            o.append("static int32_t tab_rep_%s[3]; static int tab_live_%s[3]; static int tab_n_%s;" % (s, s, s))
            o.append("int32_t __wasm_import_%s_%s_new(int32_t rep) { int i = tab_n_%s++; tab_rep_%s[i] = rep; tab_live_%s[i] = 1; return HBASE_ + i; }"
                     % (ens, s, s, s, s))
            o.append("int32_t __wasm_import_%s_%s_rep(int32_t h) { int i = h - HBASE_; "
                     "CHECK_(i >= 0 && i < tab_n_%s && tab_live_%s[i], \"C11|resource|handle-table|[resource-rep] is called with a live handle\"); "
                     "return (i >= 0 && i < 3) ? tab_rep_%s[i] : 0; }" % (ens, s, s, s, s))
            o.append("void __wasm_import_%s_%s_drop(int32_t h) { int i = h - HBASE_; "
                     "CHECK_(i >= 0 && i < tab_n_%s && tab_live_%s[i], \"C11|resource|handle-table|[resource-drop] is called with a live handle\"); "
                     "if (i >= 0 && i < 3 && tab_live_%s[i]) { tab_live_%s[i] = 0; %s((%s *) tab_rep_%s[i]); } }"
                     % (ens, s, s, s, s, s, dtor_sym, rep_t, s))
            name = "h_xres_%s" % s
            o.append("void %s(void) {" % name)
            o.append("  IN_(0); IN_(1); IN_(2);")
            o.append("  static struct %s objs[3]; %s hnd; %s *want = 0; int have = 0, made = 0, dropped = 0;" % (rep_t, own_t, rep_t))
            for step in range(3):
                o.append("  switch (in_[%d] %% 3) {" % step)
                o.append("    case 0: if (!have) { want = &objs[made++]; hnd = %s(want); have = 1; "
                         "CHECK_(tab_n_%s == made && tab_rep_%s[made - 1] == (int32_t) want, \"C11|resource|new|[resource-new] receives the representation pointer\"); "
                         "CHECK_(hnd.__handle == HBASE_ + made - 1, \"C11|resource|new|the own handle is the one the host returned\"); } break;"
                         % (need["new"], s, s))
                o.append("    case 1: if (have) { %s *got = %s(hnd); CHECK_(got == want, \"C11|resource|rep|rep returns the representation given to new\"); } break;"
                         % (rep_t, need["rep"]))
                o.append("    default: if (have) { int before = dtor_runs_%s; %s(hnd); have = 0; dropped++; "
                         "CHECK_(dtor_runs_%s == before + 1, \"C11|resource|destructor|the user destructor runs exactly once when the host drops the handle\"); "
                         "CHECK_(dtor_arg_%s == want, \"C11|resource|destructor|the user destructor receives the dropped representation\"); } break;"
                         % (s, need["drop_own"], s, s))
                o.append("  }")
            o.append("  CHECK_(dtor_runs_%s == dropped, \"C11|resource|destructor|no destructor runs without a drop\");" % s)
            o.append("  CHECK_(!(dropped == 1), \"REACH|one handle was created and dropped\");")
            o.append("  CHECK_(!(made == 2), \"REACH|two handles were created\");")
            o.append("  CHECK_(0, \"REACH|end of harness\");")
            o.append("}")
            hs.append({"name": name, "direction": "export", "resource": r, "cls": "resource-" + cls, "nin": 3,
                       "function": "%s / %s / %s / %s" % (need["new"], need["rep"], need["drop_own"], dtor_sym)})
        # ---------------- imported resource
        ins = "probe_p_ri"
        iown, ibor = "%s_own_%s_t" % (ins, s), "%s_borrow_%s_t" % (ins, s)
        f_drop_own, f_drop_bor, f_borrow = "%s_%s_drop_own" % (ins, s), "%s_%s_drop_borrow" % (ins, s), "%s_borrow_%s" % (ins, s)
        if f_drop_own not in hdr.funcs or f_borrow not in hdr.funcs or (not autodrop and f_drop_bor not in hdr.funcs):
            problems.append("imported resource %s: expected helpers are not declared in w.h" % r)
            continue
        has_db = f_drop_bor in hdr.funcs
        o.append("/* ---- imported resource `%s` ---- */" % r)
        o.append("static int idrops_%s; static int32_t ilast_%s;" % (s, s))
        o.append("void __wasm_import_%s_%s_drop(int32_t h) { idrops_%s++; ilast_%s = h; }" % (ins, s, s, s))
        name = "h_ires_%s" % s
        o.append("void %s(void) {" % name)
        o.append("  IN_(0); IN_(1); IN_(2); IN_(3);")
        o.append("  %s own; own.__handle = (int32_t)(uint32_t) in_[3]; %s bor; int have_bor = 0, n = 0;" % (iown, ibor))
        for step in range(3):
            o.append("  switch (in_[%d] %% 3) {" % step)
            o.append("    case 0: { %s(own); n++; CHECK_(idrops_%s == n && ilast_%s == own.__handle, "
                     "\"C11|resource|drop|drop_own calls [resource-drop] exactly once with the handle\"); } break;" % (f_drop_own, s, s))
            o.append("    case 1: { bor = %s(own); have_bor = 1; CHECK_(bor.__handle == own.__handle && idrops_%s == n, "
                     "\"C11|resource|borrow|borrowing an own handle keeps the index and drops nothing\"); } break;" % (f_borrow, s))
            if has_db:
                o.append("    default: if (have_bor) { %s(bor); n++; CHECK_(idrops_%s == n && ilast_%s == bor.__handle, "
                         "\"C11|resource|drop|drop_borrow calls [resource-drop] exactly once with the handle\"); } break;" % (f_drop_bor, s, s))
            else:
                o.append("    default: break;")
            o.append("  }")
        o.append("  CHECK_(idrops_%s == n, \"C11|resource|drop|no other drop happens\");" % s)
        o.append("  CHECK_(!(n == 2), \"REACH|two drops happened\");")
        o.append("  CHECK_(0, \"REACH|end of harness\");")
        o.append("}")
        hs.append({"name": name, "direction": "import", "resource": r, "cls": "resource-" + cls, "nin": 4,
                   "function": "%s / %s%s" % (f_drop_own, f_borrow, (" / " + f_drop_bor) if has_db else "")})
    return "\n".join(o) + "\n", hs, problems


def static_dtor_names(hdr: chdr.Header):
    """[(resource, class, symbol, found export name, canonical export name)]"""
    rows = []
    for r, cls in RESOURCES:
        sym = "__wasm_export_exports_probe_p_ri_%s_dtor" % snake(r)
        ce = hdr.core_export(sym)
        rows.append((r, cls, sym, None if ce is None else ce[2], "%s#[dtor]%s" % (IFACE, r)))
    return rows


def generate(driver_bin, gen_root, osn, opts):
    d = os.path.join(gen_root, osn, "resources")
    shutil.rmtree(d, ignore_errors=True)
    os.makedirs(d, exist_ok=True)
    wpath = os.path.join(d, "w.wit")
    with open(wpath, "w") as f:
        f.write(WIT)
    rc, txt, dt = vlib.run_cmd([driver_bin, "c", wpath, "w", d] + opts, timeout=120)
    if rc != 0:
        return d, None, "the C generator failed on the resources world (rc=%s): %s" % (rc, " ".join(txt.strip().splitlines()[:3])[:300])
    try:
        hdr = chdr.Header(open(os.path.join(d, "w.h")).read(), open(os.path.join(d, "w.c")).read())
    except (chdr.CParseError, OSError) as e:
        return d, None, "generated header could not be read: %s" % e
    return d, hdr, None


OPTSETS = {"default": [], "autodrop-borrows": ["autodrop_borrows=yes"]}


def run(out, tier, driver_bin, gen_root, samples, timeout, mem_gb):
    per = out.extra.setdefault("per_direction", {})
    for osn, opts in OPTSETS.items():
        d, hdr, err = generate(driver_bin, gen_root, osn, opts)
        tag = "%s/resources" % osn
        if err:
            out.inconclusive.append("%s: %s" % (tag, err))
            continue
        # ---- static: export name of the destructor symbol
        if osn == "default":
            for r, cls, sym, found, want in static_dtor_names(hdr):
                out.obligations += 1
                out.programs += 1
                if found is None:
                    out.inconclusive.append("%s: destructor symbol %s (or its __export_name__) not found in w.c" % (tag, sym))
                    continue
                if found == want:
                    out.discharged += 1
                    continue
                out.disagreements_checked += 1
                payload = {"engine": "cgen", "property": "C11", "kind": "static-dtor-export-name", "world": "resources", "wit": WIT,
                           "resource": r, "symbol": sym, "found_export_name": found, "canonical_export_name": want, "option_set": osn,
                           "replay": "replay: regenerate the bindings and compare the __export_name__ string of the destructor symbol",
                           "how_to_replay": "/verif/check C11 --replay <this file>"}
                path = vlib.write_replay("C11", "cgen_export_resource-%s_dtor-export-name" % cls, payload)
                out.violations.append(vlib.Violation(
                    role="C11/cgen/export/resource-%s/dtor-export-name" % cls,
                    what=("exported resource `%s`: w.c exports the destructor %s under the core name \"%s\"; the canonical name a component-model host "
                          "resolves is \"%s\" -- the destructor is never attached to the resource, so the user destructor does not run when the host "
                          "drops a handle. replay: regenerated bindings carry the same string (static check, no values involved)" % (r, sym, found, want)),
                    replay=path, witness={"found": found, "canonical": want}))
        # ---- CBMC: bounded handle histories
        text, hs, problems = gen_harness(hdr, "autodrop_borrows=yes" in opts)
        for p in problems:
            out.inconclusive.append("%s: %s" % (tag, p))
        hpath = os.path.join(d, "harness.c")
        with open(hpath, "w") as f:
            f.write(text)
        for h in hs:
            rc, txt, dt, cmd = runc.run_cbmc(hpath, h["name"], 4, timeout=timeout, mem_gb=mem_gb, log=os.path.join(d, h["name"] + ".cbmc.log"))
            out.queries += 1
            out.solver_s += dt
            res = runc.parse_results(txt)
            htag = "%s %s" % (tag, h["name"])
            if rc not in (0, 10) or not res:
                out.inconclusive.append("%s: cbmc did not complete (rc=%s): %s" % (htag, rc, " ".join(txt.strip().splitlines()[-3:])[:240]))
                continue
            reach = [p for p in res if p["desc"].startswith("REACH|")]
            if not reach or any(p["status"] != "FAILURE" for p in reach):
                out.inconclusive.append("%s: vacuity witness not reached: %s" % (htag, [(p["desc"], p["status"]) for p in reach if p["status"] != "FAILURE"]))
                continue
            if any(p["desc"].startswith("unwinding") and p["status"] != "SUCCESS" for p in res):
                out.inconclusive.append("%s: unwinding assertion not discharged" % htag)
            mine = [p for p in res if runc.classify(p)[0] == "C11"]
            out.programs += 1
            dd = per.setdefault("resource-" + h["direction"], {"harnesses": 0, "properties": 0, "failed": 0})
            dd["harnesses"] += 1
            dd["properties"] += len(mine)
            out.obligations += len(mine)
            fails = {}
            for p in mine:
                if p["status"] == "SUCCESS":
                    out.discharged += 1
                elif p["status"] == "FAILURE":
                    fails.setdefault(runc.classify(p)[1], p)
                    dd["failed"] += 1
                else:
                    out.inconclusive.append("%s: property %s has status %s" % (htag, p["id"], p["status"]))
            if not fails and len([s for s in samples if s.get("group") == "resources"]) < 2:
                samples.append({"group": "resources", "world": "resources", "option_set": osn, "harness": h["name"], "function": h["function"],
                                "cbmc_properties_for_C11": len(mine), "seconds": round(dt, 2),
                                "verdict": "every history of <= 3 operations satisfies the handle / destructor assertions"})
            for acls, p in fails.items():
                out.disagreements_checked += 1
                rc2, txt2, dt2, _ = runc.run_cbmc(hpath, h["name"], 4, timeout=timeout, mem_gb=mem_gb, prop=p["id"], trace=True)
                ins = runc.trace_inputs(txt2, h["nin"]) or [0] * h["nin"]
                runc.write_fixed_inputs(d, 16, ins)
                rc3, txt3, dt3, _ = runc.run_cbmc(hpath, h["name"], 4, timeout=timeout, mem_gb=mem_gb, defines=["CGEN_FIXED"])
                out.queries += 2
                out.solver_s += dt2 + dt3
                q = {x["id"]: x for x in runc.parse_results(txt3)}.get(p["id"])
                if q is None or q["status"] != "FAILURE":
                    out.inconclusive.append("%s: counterexample for `%s` does not reproduce with fixed inputs -- not reported" % (htag, p["desc"][:80]))
                    continue
                payload = {"engine": "cgen", "property": "C11", "kind": "resource-harness", "world": "resources", "wit": WIT, "resource": h["resource"],
                           "direction": h["direction"], "function": h["function"], "harness": h["name"], "option_set": osn, "options": opts,
                           "inputs": ["0x%x" % v for v in ins], "input_layout": "in_[0..2] % 3 = operation per step (0 new/drop_own, 1 rep/borrow, 2 drop)"
                           + ("; in_[3] = handle" if h["nin"] > 3 else ""),
                           "failed_assertion": {"id": p["id"], "description": p["desc"], "class": acls, "function": p["fn"], "line": p["line"]},
                           "replay": "replay: cbmc with concrete inputs", "how_to_replay": "/verif/check C11 --replay <this file>"}
                path = vlib.write_replay("C11", "cgen_%s_%s_%s" % (h["direction"], h["cls"], acls), payload)
                out.violations.append(vlib.Violation(
                    role="C11/cgen/%s/%s/%s" % (h["direction"], h["cls"], acls),
                    what=("%s resource `%s` (option set %s): cbmc refutes `%s` for the operation sequence %s. replay: cbmc with concrete inputs"
                          % (h["direction"] + "ed", h["resource"], osn, p["desc"], ["0x%x" % v for v in ins])),
                    replay=path, witness={"inputs": ["0x%x" % v for v in ins]}))


def replay_static(r, driver_bin, gen_root):
    d, hdr, err = generate(driver_bin, gen_root, "default", [])
    if err:
        print("INCONCLUSIVE %s" % err)
        return 2
    for res, cls, sym, found, want in static_dtor_names(hdr):
        if res == r["resource"]:
            print("destructor symbol %s is exported as %r; canonical %r" % (sym, found, want))
            if found is not None and found != want:
                print("REPRODUCED")
                return 1
            print("NOT REPRODUCED" if found == want else "INCONCLUSIVE symbol not found")
            return 0 if found == want else 2
    print("INCONCLUSIVE resource not found")
    return 2


def replay_harness(r, driver_bin, gen_root, timeout, mem_gb):
    osn = r["option_set"]
    d, hdr, err = generate(driver_bin, gen_root, osn, OPTSETS.get(osn, []))
    if err:
        print("INCONCLUSIVE %s" % err)
        return 2
    text, hs, problems = gen_harness(hdr, "autodrop_borrows=yes" in OPTSETS.get(osn, []))
    hpath = os.path.join(d, "harness.c")
    with open(hpath, "w") as f:
        f.write(text)
    runc.write_fixed_inputs(d, 16, [int(x, 16) for x in r["inputs"]])
    rc, txt, dt, cmd = runc.run_cbmc(hpath, r["harness"], 4, timeout=timeout, mem_gb=mem_gb, defines=["CGEN_FIXED"])
    res = runc.parse_results(txt)
    if rc not in (0, 10) or not res:
        print("INCONCLUSIVE cbmc did not complete")
        return 2
    bad = [p for p in res if p["status"] == "FAILURE" and runc.classify(p) == ("C11", r["failed_assertion"]["class"])]
    if bad:
        print("REPRODUCED %s" % bad[0]["desc"])
        return 1
    print("NOT REPRODUCED")
    return 0
