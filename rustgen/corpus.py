"""Enumerated corpus: one exported function `f-<class>: func(x: T) -> T` per type class.

The "worlds" quantifier of C05-C07 is enumerated here; values are symbolic in the harnesses.
The 12 scalar types are decided by exprsmt's Kani route (C14) and are not repeated.
"""
from __future__ import annotations

from .wtypes import (Res, record, tup, enum, flags, variant, option, result, lst, mapty, own, borrow, alias, STRING,
                     BOOL, U8, S8, U16, S16, U32, S32, U64, S64, F32, F64, CHAR)
from .assemble import Func, World

RI = Res("ri", exported=False)
RE = Res("re", exported=True)

R1 = record("r1", [("a", U8), ("b", U64)])
R2 = record("r2", [("a", U8), ("b", U16), ("c", U8), ("d", U32)])
R2B = record("r2b", [("a", U8), ("b", U16), ("c", U8), ("d", U32)])   # structurally equal to r2 (merge option)
RU = record("ru", [("a", U8), ("b", U32)])
RB = record("rb", [("a", BOOL), ("b", U32)])
E3 = enum("e3", ["a", "b", "c"])
E257 = enum("e257", ["c%d" % i for i in range(257)])
F3 = flags("f3", ["a", "b", "c"])
F33 = flags("f33", ["m%d" % i for i in range(33)])
F9 = flags("f9", ["n%d" % i for i in range(9)])
V1 = variant("v1", [("a", F32), ("b", S64), ("c", None)])
V2 = variant("v2", [("a", U64), ("b", U8)])
V3 = variant("v3", [("a", F64), ("b", U32)])
V4 = variant("v4", [("a", S8), ("b", CHAR), ("c", BOOL), ("d", S16)])
VS = variant("vs", [("a", STRING), ("b", U64)])         # pointer joined with i64
RS = record("rs", [("a", U8), ("s", STRING)])
RH = record("rh", [("h", own(RI)), ("n", U32)])
VN = variant("vn", [("a", option(U8)), ("b", R1)])
# element size mixes constant bytes and pointer units: 8 + 2*PTR (the unbracketed `i * 8+2*PTR` class of bugs)
RXS = record("rxs", [("x", U64), ("s", STRING)])
# tuples rustc reorders: (u8,u32,u8) is 12 bytes in the canonical ABI, 8 in Rust; reached through a `use`d alias
TRIPLE = alias("triple", tup(U8, U32, U8))
RT = record("rtt", [("tag", U8), ("t", tup(U8, U64, U16))])
# an exported resource reached through an alias
TALLY = Res("tally", exported=True, alias_of=RE)
# imports: own handles inside list elements
RHI = record("rhi", [("h", own(RI)), ("n", U32)])


def rt(cls, t, tier="quick", max_l=None):
    return Func("f-" + cls, [("x", t)], t, cls, tier=tier, max_l=max_l)


def funcs():
    fs = [
        rt("record-u8-u64", R1), rt("record-u8-u16-u8-u32", R2), rt("tuple-u8-u32", tup(U8, U32)),
        rt("tuple-u8-u64-u8", tup(U8, U64, U8), "thorough"),
        rt("enum-3", E3), rt("flags-3", F3), rt("flags-33", F33), rt("flags-9", F9, "thorough"),
        rt("option-u8", option(U8)), rt("option-u64", option(U64)), rt("option-f32", option(F32)), rt("option-f64", option(F64)),
        rt("result-u8-u64", result(U8, U64)), rt("result-f32-f64", result(F32, F64)),
        rt("result-u64-u8", result(U64, U8), "thorough"), rt("result-f64-f32", result(F64, F32), "thorough"),
        rt("result-none-u8", result(None, U8), "thorough"),
        rt("variant-f32-s64", V1), rt("variant-u64-u8", V2), rt("variant-f64-u32", V3),
        rt("variant-s8-char-bool-s16", V4, "thorough"), rt("variant-nested", VN, "thorough"),
        rt("enum-257", E257, "thorough"), rt("record-equal-twin", R2B, "thorough"),
        rt("list-u8", lst(U8)), rt("list-u32", lst(U32)), rt("list-record-u8-u32", lst(RU)),
        rt("list-tuple-u8-u32", lst(tup(U8, U32))), rt("list-option-u8", lst(option(U8))),
        rt("list-record-bool-u32", lst(RB), "thorough"), rt("list-char", lst(CHAR), "thorough"),
        rt("string", STRING), rt("option-string", option(STRING)), rt("result-list-u8-u8", result(lst(U8), U8)),
        # list<string> (nested heap data) is generated but NOT driven: with <= 2 elements of <= 2 bytes CBMC aborts (status 6)
        # at the 12 GB address-space cap -- stated in outside_claim
        Func("f-list-string", [("x", lst(STRING))], lst(STRING), "list-string", special="not-driven", tier="thorough"),
        rt("record-u8-string", RS, "thorough"),
        rt("variant-string-u64", VS, "thorough"), rt("tuple-string-list-u32", tup(STRING, lst(U32)), "thorough"),
        Func("f-params-17", [("a0", U8), ("a1", U64), ("a2", U8), ("a3", U32), ("a4", F32), ("a5", F64), ("a6", U16)] +
             [("a%d" % i, U8) for i in range(7, 17)], tup(U8, U64, U8), "params-17-flat-indirect"),
        Func("f-params-16", [("a%d" % i, U8) for i in range(15)] + [("a15", U64)], tup(U8, F64), "params-16-flat-direct", tier="thorough"),
        Func("f-params-17-string", [("a%d" % i, U8) for i in range(15)] + [("s", STRING)], STRING, "params-17-indirect-string", tier="thorough"),
        Func("f-param-only", [("x", lst(U8)), ("y", U64)], None, "param-only-list-u8-u64"),
        Func("f-string-in", [("x", STRING), ("y", option(STRING))], U32, "string-params-only"),
        Func("f-result-only", [], tup(U8, STRING), "result-only-tuple-u8-string"),
        # handles
        rt("own-exported", own(RE)), rt("own-imported", own(RI)),
        Func("f-borrow-imported", [("x", borrow(RI))], U32, "borrow-imported"),
        Func("f-borrow-exported", [("x", borrow(RE))], U32, "borrow-exported"),
        rt("option-own-imported", option(own(RI))), rt("list-own-imported", lst(own(RI)), "thorough", max_l=2),
        rt("record-own-imported-u32", RH, "thorough"),
        Func("f-own-and-borrow", [("x", own(RI)), ("y", borrow(RI))], own(RI), "own-and-borrow-imported", tier="thorough"),
        Func("re-pass", [("x", own(RE))], own(RE), "exported-resource-lifecycle", special="re-pass"),
        # --- shapes added after the seeded-bug review ---
        # non-canonical list whose element size is bytes + pointer units; exactly 2 elements (1 is right by accident), strings <= 1 byte
        Func("f-list-rxs-out", [], lst(RXS), "list-record-u64-string-result", fixed_l=2, max_s=1),
        Func("f-list-rxs-in", [("x", lst(RXS))], None, "list-record-u64-string-param", fixed_l=2, max_s=1),
        rt("list-alias-tuple-u8-u32-u8", lst(TRIPLE)), rt("list-record-u8-tuple-u8-u64-u16", lst(RT), max_l=2),   # 3 elements of 32 bytes: CBMC is killed at the 12 GB cap
        Func("f-borrow-exported-alias", [("x", borrow(TALLY))], U32, "borrow-exported-alias"),
    ]
    return fs


def _has_string(t):
    from .wtypes import children
    return t is not None and (t.kind == "string" or any(_has_string(c) for c in children(t)))


def maps_world():
    imp = [Func("put-map", [("x", option(mapty(U32, U64)))], None, "-"), Func("put-maps", [("x", lst(mapty(U32, U64)))], None, "-")]
    return World("w", [Func("f-map", [("x", mapty(U8, U32))], mapty(U8, U32), "map-u8-u32", special="map")], imp_funcs=imp)


def world(cfg=None):
    if cfg is not None and cfg.get("world") == "maps":
        return maps_world()
    imp = [Func("eat", [("x", own(RI))], None, "-"), Func("peek", [("x", borrow(RI))], U32, "-"), Func("mk", [], own(RI), "-"),
           Func("eat-list", [("x", lst(own(RI)))], None, "-"), Func("eat-recs", [("x", lst(RHI))], None, "-")]
    fs = funcs()
    if cfg is not None and cfg["opts"].get("raw_strings") == "true":
        # raw_strings: an exported function RETURNING a string does not compile (`Vec<u8>::into_bytes`; upstream TODO in
        # tests/runtime/rust/raw-strings/test.rs), so those functions are left out of the raw_strings worlds
        fs = [f for f in fs if not _has_string(f.result)]
    return World("w", fs, imp_res=[RI], exp_res=[RE], imp_funcs=imp)


# generator option matrix.  `classes`: None = every class of the tier; otherwise only the classes the option can affect
ALT_CLASSES = ["record-u8-u16-u8-u32", "variant-f32-s64", "list-u32", "list-tuple-u8-u32", "string", "option-string",
               "string-params-only", "list-alias-tuple-u8-u32-u8", "list-record-u64-string-param", "result-list-u8-u8", "params-17-flat-indirect", "own-imported", "flags-33"]


def configs(tier, seed):
    base = {"name": "default", "opts": {}, "std": False, "classes": None, "resources": True, "bitflags": True}
    # bitflags=False: wit-bindgen's fallback `bitflags!` shim (crate feature off) instead of the bitflags crate
    alt = {"name": "borrowing-std-rawstrings-merge", "std": True, "resources": False, "bitflags": False,
           "opts": {"ownership": "borrowing", "std_feature": "true", "raw_strings": "true", "merge_structurally_equal_types": "true"},
           "classes": ALT_CLASSES}
    # maps: default map type (BTreeMap) only, concrete entry counts 0 and 1.  HashMap (map_type=std::collections::HashMap):
    # a single concrete entry does not finish in 600 s of CBMC (RandomState / SipHash, 12 foreign functions) -> outside the claim
    maps = {"name": "maps-btreemap", "opts": {}, "std": False, "classes": None, "resources": False, "bitflags": True, "world": "maps"}
    if tier != "thorough":
        return [base, alt, maps]
    out = [base, maps]
    for own_ in ("owning", "borrowing"):
        for std in (False, True):
            if own_ == "owning" and not std:
                continue
            o = {"ownership": own_, "std_feature": "true" if std else "false"}
            # raw_strings / merge are toggled on two of the three remaining cells, chosen by the seed
            k = (len(out) + seed) % 3
            if k != 0:
                o["raw_strings"] = "true"
            if k != 1:
                o["merge_structurally_equal_types"] = "true"
            out.append({"name": "%s-%s%s%s" % (own_, "std" if std else "nostd", "-raw" if "raw_strings" in o else "",
                                               "-merge" if "merge_structurally_equal_types" in o else ""),
                        "opts": o, "std": std, "classes": ALT_CLASSES + ["record-equal-twin", "record-u8-string"],
                        "resources": False, "bitflags": not std})
    return out


def bounds(tier):
    return {"L": 3 if tier == "thorough" else 2, "S": 2}
