"""cargo-kani runner for the rustgen engine: crate materialisation, worker slots,
per-harness result cache, terse-output parser, concrete playback."""
from __future__ import annotations

import json
import os
import re
import shutil
import time

import vlib

WORK = os.path.join(vlib.WORK_DIR, "rustgen")
CACHE = os.path.join(WORK, "cache")
MODPATH = "b::h::"
# must stay LAST on the command line: everything after --cbmc-args goes to CBMC.  Leaks are decided by CBMC itself
# ("dynamically allocated memory never freed" at harness exit), not by allocator stubs (see assemble.py).
LEAK_ARGS = ["--cbmc-args", "--memory-leak-check"]
STUBBED = {"alloc::string::String::from_utf8"}


def kani_version():
    p = os.path.expanduser("~/.kani")
    try:
        return sorted(d for d in os.listdir(p) if d.startswith("kani-"))[-1]
    except OSError:
        return "kani-unknown"


def write_crate(crate_dir, lib_text, std, bitflags=True):
    os.makedirs(os.path.join(crate_dir, "src"), exist_ok=True)
    feats = []
    if bitflags:
        feats.append("bitflags")
    if std:
        feats.append("std")
    toml = ('[package]\nname = "rustgen-harness"\nversion = "0.0.0"\nedition = "2021"\npublish = false\n\n[workspace]\n\n'
            '[features]\nstd = []\n%s\n'
            '[dependencies]\nwit-bindgen = { path = "%s/crates/guest-rust", default-features = false, features = [%s] }\n\n'
            '[lints.rust]\nunexpected_cfgs = { level = "allow", check-cfg = ["cfg(kani)"] }\n'
            % ('default = ["std"]\n' if std else "", vlib.REPO.rstrip("/"), ", ".join('"%s"' % f for f in feats)))
    _write_if_changed(os.path.join(crate_dir, "Cargo.toml"), toml)
    _write_if_changed(os.path.join(crate_dir, "src", "lib.rs"), lib_text)
    shutil.copyfile(os.path.join(vlib.REPO, "Cargo.lock"), os.path.join(crate_dir, "Cargo.lock"))


def _write_if_changed(path, text):
    try:
        if open(path).read() == text:
            return
    except OSError:
        pass
    with open(path, "w") as f:
        f.write(text)


def cache_get(key):
    try:
        with open(os.path.join(CACHE, key + ".json")) as f:
            return json.load(f)
    except (OSError, ValueError):
        return None


def cache_put(key, res):
    os.makedirs(CACHE, exist_ok=True)
    tmp = os.path.join(CACHE, ".%s.%d.tmp" % (key, os.getpid()))
    with open(tmp, "w") as f:
        json.dump(res, f)
    os.replace(tmp, os.path.join(CACHE, key + ".json"))


def parse(txt):
    """{harness: result} from `cargo kani --output-format terse [-j N]` output"""
    res = {}
    cur = {}        # thread -> harness
    active = None   # thread whose result block is being read
    blocks = {}
    for line in txt.split("\n"):
        m = re.match(r"^(?:Thread (\d+): )?Checking harness ([\w:]+)\.\.\.", line)
        if m:
            th = m.group(1) or "-"
            cur[th] = m.group(2)
            blocks.setdefault(m.group(2), [])
            active = th if m.group(1) is None else None
            continue
        m = re.match(r"^Thread (\d+): ?(.*)$", line)
        if m:
            active = m.group(1)
            if m.group(2):
                blocks.setdefault(cur.get(active, "?"), []).append(m.group(2))
            continue
        if line.startswith("Manual Harness Summary") or line.startswith("Complete - "):
            active = None
            continue
        if active is not None and cur.get(active):
            blocks.setdefault(cur[active], []).append(line)
    for name, lines in blocks.items():
        body = "\n".join(lines)
        r = {"status": "none", "failed": [], "checks": 0, "failed_n": 0, "time_s": 0.0, "covers": None}
        m = re.search(r"\*\* (\d+) of (\d+) failed", body)
        if m:
            r["failed_n"], r["checks"] = int(m.group(1)), int(m.group(2))
        m = re.search(r"\*\* (\d+) of (\d+) cover properties satisfied", body)
        if m:
            r["covers"] = [int(m.group(1)), int(m.group(2))]
        m = re.search(r"Verification Time: ([\d.]+)s", body)
        if m:
            r["time_s"] = float(m.group(1))
        # CBMC-level properties (e.g. the memory-leak check) have no source location line
        for fm in re.finditer(r"Failed Checks: (.*)(?:\n\s*File: \"([^\"]*)\", line (\d+), in (\S+))?", body):
            r["failed"].append({"desc": fm.group(1).strip(), "file": fm.group(2) or "-", "line": int(fm.group(3) or 0), "fn": fm.group(4) or "-"})
        if "VERIFICATION:- SUCCESSFUL" in body:
            r["status"] = "ok"
        elif "VERIFICATION:- FAILED" in body:
            r["status"] = "failed"
        if re.search(r"CBMC (failed|timed out)|out of memory|Status: ERROR|timed out|std::bad_alloc", body, re.I) and not r["failed"]:
            r["status"] = "error"
            r["detail"] = " ".join(body.split())[-300:]
        res[name.split("::")[-1]] = r
    return res


def alias_lint(slot, names):
    """Kani 0.68 quirk: a constant of the code under test whose bytes equal the initializer of a `static` of the harness crate is
    compiled as a read of that static.  -> {harness: [(function, static)]} for every function OUTSIDE the crate `rustgen_harness`
    that references one of the crate's statics (statics = what __CPROVER_initialize assigns)."""
    import glob
    hits = {}
    root = os.path.join(WORK, "slot%d" % slot, "kani")
    for n in names:
        files = [f for f in glob.glob(os.path.join(root, "*", "debug", "build", "rustgen-harness", "*", "out", "*%d%s.out" % (len(n), n)))
                 if not f.endswith(".symtab.out")]
        if not files:
            hits[n] = [("-", "goto binary not found: aliasing lint not run")]
            continue
        f = max(files, key=os.path.getmtime)
        rc, out, dt = vlib.run_cmd(["goto-instrument", "--show-goto-functions", f], timeout=300)
        if rc != 0:
            hits[n] = [("-", "goto-instrument failed: aliasing lint not run")]
            continue
        statics, cur, in_init = set(), None, False
        for line in out.split("\n"):
            m = re.match(r"^(\S.*) /\* (\S+) \*/$", line)
            if m:
                in_init = m.group(1) == "__CPROVER_initialize"
                continue
            if in_init:
                m = re.search(r"ASSIGN (_RNv\w*?15rustgen_harness\w+)", line)
                if m:
                    statics.add(m.group(1))
        bad = {}
        for line in out.split("\n"):
            m = re.match(r"^(\S.*) /\* (\S+) \*/$", line)
            if m:
                cur = m.group(1)
                continue
            # functions replaced through #[kani::stub] keep their own name but have the harness's body
            if cur and cur not in STUBBED and not re.match(r"^<?(b|verif_host)::|^__CPROVER", cur):
                for sym in re.findall(r"_RNv\w*?15rustgen_harness\w+", line):
                    if sym in statics:
                        bad[(cur, sym)] = 1
        if bad:
            hits[n] = sorted(bad)
    return hits


def run_harnesses(crate_dir, names, slot, jobs, timeout, harness_timeout, log, extra=()):
    """run the given harnesses of the crate; returns ({name: result}, seconds, raw text)"""
    cmd = ["cargo", "kani", "--target-dir", os.path.join(WORK, "slot%d" % slot), "--output-format", "terse",
           "-Z", "stubbing", "-Z", "unstable-options", "--harness-timeout", "%ds" % harness_timeout, "-j", str(jobs), "--exact",
           "--no-assertion-reach-checks"]
    for n in names:
        cmd += ["--harness", MODPATH + n]
    cmd += list(extra)
    cmd += LEAK_ARGS
    rc, txt, dt = vlib.run_cmd(cmd, cwd=crate_dir, timeout=timeout, mem_gb=12, log=log,
                               env={"CARGO_NET_OFFLINE": "true", "CARGO_BUILD_JOBS": str(max(2, jobs))})
    res = parse(txt)
    lint = alias_lint(slot, [n for n in names if n in res and res[n]["status"] in ("ok", "failed")])
    for n, h in lint.items():
        res[n]["status"] = "error"
        res[n]["detail"] = "Kani constant/static aliasing lint: " + "; ".join("%s references %s" % x for x in h[:3])
    for n in names:
        if n not in res or res[n]["status"] == "none":
            why = "timeout" if (rc == -9 or "timed out" in txt) else "no verdict"
            if re.search(r"^error(\[E\d+\])?:", txt, re.M) and n not in res:
                why = "compile error: " + " ".join(re.findall(r"^error[^\n]*", txt, re.M)[:2])[:300]
            res[n] = dict(res.get(n, {}), status="error", detail=why, failed=[], checks=0, failed_n=0, time_s=0.0, covers=None)
    return res, dt, txt


def playback(crate_dir, lib_text, name, slot, timeout, log_prefix, descs=()):
    """kani concrete playback for one failed harness, then a native run of the printed test.
    descs: descriptions of the failed checks of interest (the test printed for one of them is used).
    -> {"test": text, "values": [[bytes]], "check": desc, "native": "reproduced: <msg>" | "passes natively" | "diverged: ..." | "not run: ..."}"""
    out = {"test": None, "values": None, "native": "not run", "check": None}
    cmd = ["cargo", "kani", "--target-dir", os.path.join(WORK, "slot%d" % slot), "--output-format", "terse",
           "-Z", "stubbing", "-Z", "unstable-options", "-Z", "concrete-playback", "--concrete-playback=print", "--exact",
           "--harness", MODPATH + name] + LEAK_ARGS
    # kani-driver itself parses the JSON trace here: measured 24 GB RESIDENT for a 2-element list<record{u64,string}> harness,
    # so the address-space cap of this (rare: only after a violation) step is 40 GB
    rc, txt, dt = vlib.run_cmd(cmd, cwd=crate_dir, timeout=timeout, mem_gb=40, log=log_prefix + "_print.log",
                               env={"CARGO_NET_OFFLINE": "true"})
    if rc == -9:
        out["native"] = "not run: kani concrete playback did not finish within %d s" % timeout
        return out
    tests = re.findall(r"```\n(.*?)```", txt, re.S)
    # one test is printed per failed check and per satisfied cover: take the one of a failed check of interest
    cand = [t for t in tests if "Check for `cover`" not in t]
    pick = None
    for dsc in descs:
        for t in cand:
            if dsc[:60] in t:
                pick, out["check"] = t, dsc
                break
        if pick:
            break
    if pick is None and cand:
        pick = cand[0]
        m = re.search(r'Check for `\w+`: "(.*)"', pick)
        out["check"] = m.group(1) if m else None
    if pick is None:
        out["native"] = "not run: kani printed no concrete playback test for a failed check"
        return out
    test = pick
    out["test"] = test
    body_vals = test.split("vec![", 1)[1] if "vec![" in test else ""
    out["values"] = [[int(x) for x in v.split(",") if x.strip()] for v in re.findall(r"vec!\[([\d,\s]*)\]", body_vals)]
    tm = re.search(r"fn (kani_concrete_playback_\w+)\(", test)
    if not tm:
        return out
    # native run: same crate, the printed unit test placed next to the harness
    pb_dir = crate_dir + "_pb"
    shutil.rmtree(pb_dir, ignore_errors=True)
    shutil.copytree(crate_dir, pb_dir)
    body = "\n".join(l for l in test.split("\n") if not l.startswith("///"))
    with open(os.path.join(pb_dir, "src", "lib.rs"), "w") as f:
        f.write(lib_text.replace("// @PLAYBACK@", body))
    env = {"CARGO_NET_OFFLINE": "true", "CARGO_TARGET_DIR": os.path.join(WORK, "slot%d" % slot, "pb"), "RUST_BACKTRACE": "0"}
    rc, txt, dt = vlib.run_cmd(["cargo", "kani", "playback", "-Z", "concrete-playback", "--", tm.group(1), "--test-threads=1"],
                               cwd=pb_dir, timeout=timeout, log=log_prefix + "_native.log", env=env)
    pm = re.search(r"panicked at [^\n]*\n([^\n]*)", txt)
    msg = pm.group(1).strip() if pm else ""
    sig = re.search(r"(free\(\)[^\n]*|double free[^\n]*|malloc\(\)[^\n]*|corrupted[^\n]*|signal: \d+[^\n]*|SIGABRT|SIGSEGV)", txt)
    if msg and any(msg.startswith(p) for p in ("C05|", "C06|", "C07|")):
        out["native"] = "reproduced: the native run panics with \"%s\"" % msg[:160]
    elif msg and out["check"] and out["check"][:40] in msg:
        out["native"] = "reproduced: the native run panics with \"%s\"" % msg[:160]
    elif sig and not msg:
        out["native"] = "reproduced: the native run aborts (%s)" % sig.group(1)[:120]
    elif msg:
        out["native"] = "diverged: the native run panics with \"%s\" (stubs are not applied natively)" % msg[:120]
    elif "test result: ok" in txt:
        out["native"] = "passes natively"
    else:
        out["native"] = "not run: " + " ".join(txt.strip().split("\n")[-2:])[:200]
    return out
