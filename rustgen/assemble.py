"""Builds the harness crate text (src/lib.rs) around one generated bindings file."""
from __future__ import annotations

import hashlib
import re

from . import spec, hgen
from .wtypes import Ty, tup, wit, decls, aliases, resources, has_heap, camel, snake

import os as _os
NL = int(_os.environ.get('RUSTGEN_NL', '6'))   # heap ledger entries (quick tier; build_lib(nl=...) overrides)
NH = 6    # handle ledger entries


class Func:
    def __init__(self, name, params, result, cls, special=None, tier="quick", max_l=None, fixed_l=None, max_s=None):
        self.max_l = max_l          # per-class cap of the list bound (nested heap data is expensive for CBMC)
        self.fixed_l = fixed_l      # lists have exactly this CONCRETE length (element contents stay symbolic)
        self.max_s = max_s          # per-class cap of the string bound
        self.name = name            # WIT name (kebab)
        self.params = params        # [(name, Ty)]
        self.result = result        # Ty | None
        self.cls = cls              # type class (stable, goes into roles)
        self.special = special
        self.tier = tier

    @property
    def rust(self):
        return snake(self.name)


class World:
    """package t:p; optional imported interface `ri` (resources + functions using them);
    exported interface `x` with every corpus function."""
    def __init__(self, name, funcs, imp_res=(), exp_res=(), imp_funcs=()):
        self.name = name
        self.funcs = funcs
        self.imp_res = list(imp_res)
        self.exp_res = list(exp_res)
        self.imp_funcs = list(imp_funcs)

    def wit_text(self):
        d, al, res = {}, {}, {}
        for f in self.funcs:
            for t in [t for _, t in f.params] + ([f.result] if f.result is not None else []):
                decls(t, d)
                aliases(t, al)
                resources(t, res)
        di, ali = {}, {}
        for f in self.imp_funcs:
            for t in [t for _, t in f.params] + ([f.result] if f.result is not None else []):
                decls(t, di)
                aliases(t, ali)
        al_all = dict(al)
        al_all.update(ali)
        out = ["package t:p;", ""]
        if al_all:
            # plain type aliases live in their own interface and are reached through `use` (TypeDefKind::Type in the resolve)
            out.append("interface tys {")
            for n, w in al_all.items():
                out.append("  type %s = %s;" % (n, w))
            out.append("}")
        if self.imp_res or self.imp_funcs:
            out.append("interface ri {")
            if ali:
                out.append("  use tys.{%s};" % ", ".join(ali))
            for r in self.imp_res:
                out.append("  resource %s { constructor(v: u32); get: func() -> u32; }" % r.name)
            for v in di.values():
                out.append("  " + v)
            for f in self.imp_funcs:
                out.append("  %s: func(%s)%s;" % (f.name, ", ".join("%s: %s" % (n, wit(t)) for n, t in f.params),
                                                   "" if f.result is None else " -> " + wit(f.result)))
            out.append("}")
        out.append("interface x {")
        if self.imp_res:
            out.append("  use ri.{%s};" % ", ".join(r.name for r in self.imp_res))
        if al:
            out.append("  use tys.{%s};" % ", ".join(al))
        for r in self.exp_res:
            out.append("  resource %s { constructor(v: u32); get: func() -> u32; }" % r.name)
        for r in res.values():
            if r.alias_of is not None:
                out.append("  type %s = %s;" % (r.name, r.alias_of.name))
        for v in d.values():
            out.append("  " + v)
        for f in self.funcs:
            out.append("  %s: func(%s)%s;" % (f.name, ", ".join("%s: %s" % (n, wit(t)) for n, t in f.params),
                                               "" if f.result is None else " -> " + wit(f.result)))
        out.append("}")
        out.append("world w {")
        if self.imp_res or self.imp_funcs:
            out.append("  import ri;")
        out.append("  export x;")
        out.append("}")
        return "\n".join(out) + "\n"


def unroll(n, fmt):
    return "\n".join(fmt.replace("#", str(i)) for i in range(n))


def prelude(nl=None):
    nl = nl or NL
    return r'''
  extern crate alloc as hal;
  use hal::vec;
  use hal::vec::Vec;
  use hal::string::String;
  use core::alloc::Layout;

  pub fn sx(v: u64, n: u32) -> u64 { if n >= 64 { v } else { let s = 1u64 << (n - 1); let x = v & ((1u64 << n) - 1); (x ^ s).wrapping_sub(s) } }
  pub fn ld(a: &[u8], off: usize, n: usize) -> u64 {
    match n {
      1 => a[off] as u64,
      2 => (a[off] as u64) | ((a[off + 1] as u64) << 8),
      4 => (a[off] as u64) | ((a[off + 1] as u64) << 8) | ((a[off + 2] as u64) << 16) | ((a[off + 3] as u64) << 24),
      _ => (a[off] as u64) | ((a[off + 1] as u64) << 8) | ((a[off + 2] as u64) << 16) | ((a[off + 3] as u64) << 24)
         | ((a[off + 4] as u64) << 32) | ((a[off + 5] as u64) << 40) | ((a[off + 6] as u64) << 48) | ((a[off + 7] as u64) << 56),
    }
  }
  pub unsafe fn ldp(p: *const u8, off: usize, n: usize) -> u64 {
    let q = p.add(off);
    match n {
      1 => *q as u64,
      2 => (q as *const u16).read_unaligned() as u64,
      4 => (q as *const u32).read_unaligned() as u64,
      _ => (q as *const u64).read_unaligned(),
    }
  }
  pub fn valid_char(c: u64) -> bool { c < 0x110000 && !(c >= 0xD800 && c <= 0xDFFF) }
  /// UTF-8 well-formedness (Unicode table 3-7), written for the harness; not core::str's validator.
  pub fn utf8_ok(b: &[u8], n: usize) -> bool {
    let mut i = 0usize;
    while i < n {
      let c = b[i];
      let need = if c < 0x80 { 0 } else if c >= 0xC2 && c <= 0xDF { 1 } else if c >= 0xE0 && c <= 0xEF { 2 }
                 else if c >= 0xF0 && c <= 0xF4 { 3 } else { return false; };
      if i + need >= n { return false; }
      if need >= 1 {
        let c1 = b[i + 1];
        let (lo, hi) = match c { 0xE0 => (0xA0u8, 0xBFu8), 0xED => (0x80, 0x9F), 0xF0 => (0x90, 0xBF), 0xF4 => (0x80, 0x8F), _ => (0x80, 0xBF) };
        if c1 < lo || c1 > hi { return false; }
      }
      if need >= 2 { let c2 = b[i + 2]; if c2 < 0x80 || c2 > 0xBF { return false; } }
      if need >= 3 { let c3 = b[i + 3]; if c3 < 0x80 || c3 > 0xBF { return false; } }
      i += need + 1;
    }
    true
  }

  pub static mut E_UTF8: bool = false;
  pub fn s_from_utf8(v: Vec<u8>) -> Result<String, hal::string::FromUtf8Error> {
    if !utf8_ok(&v, v.len()) { unsafe { E_UTF8 = true; } }
    Ok(unsafe { String::from_utf8_unchecked(v) })
  }

  /// Heap ledger for NATIVE concrete playback only: fed by the #[global_allocator] below, which Kani ignores
  /// (under Kani NATIVE stays false and every ledger assertion is vacuous; CBMC's --memory-leak-check decides).
  pub mod led {
    use core::alloc::Layout;
    use super::M;
    pub static mut LON: bool = false;
    pub static mut NATIVE: bool = false;
    pub static mut LIVE: isize = 0;
    pub static mut TOTAL: usize = 0;
    pub static mut OVERFLOW: bool = false;
    static mut LP: [*mut u8; @NL@] = [core::ptr::null_mut(); @NL@];
    static mut LSZ: [usize; @NL@] = [0; @NL@];
    static mut LAL: [usize; @NL@] = [0; @NL@];
    static mut LST: [u8; @NL@] = [0; @NL@]; // 0 empty, 1 live, 2 freed
    pub unsafe fn begin() { LON = true; }
    pub unsafe fn on_alloc(p: *mut u8, size: usize, align: usize) {
      if !LON || p.is_null() { return; }
      TOTAL += 1; LIVE += 1;
      // an address handed out again (native allocators recycle): forget the freed entry
@RECYCLE@
      let mut done = false;
@INSERT@
      if !done { OVERFLOW = true; }
    }
    pub static mut E_DOUBLE_FREE: bool = false;
    pub static mut E_BAD_FREE: bool = false;
    pub static mut E_BAD_LAYOUT: bool = false;
    /// returns false when the block must not be handed to the real allocator again
    pub unsafe fn on_dealloc(p: *mut u8, size: usize, align: usize) -> bool {
      if !LON { return true; }
      let mut found = false;
@REMOVE@
      if found { return true; }
      let mut freed = false;
@FREED@
      if freed { E_DOUBLE_FREE = true; return false; }
      if OVERFLOW { return true; }
      if !NATIVE { E_BAD_FREE = true; return false; }
      true
    }
    /// NATIVE playback only: what CBMC's --memory-leak-check decides under Kani
    pub unsafe fn native_exit_check() {
      if NATIVE && LIVE != 0 { LON = false; panic!("C06|leak|native ledger: a block allocated during the harness is still live at its end"); }
    }
    pub struct Nat;
    unsafe impl core::alloc::GlobalAlloc for Nat {
      unsafe fn alloc(&self, l: Layout) -> *mut u8 {
        let p = std::alloc::GlobalAlloc::alloc(&std::alloc::System, l);
        if LON { NATIVE = true; on_alloc(p, l.size(), l.align()); }
        p
      }
      unsafe fn dealloc(&self, p: *mut u8, l: Layout) {
        if LON {
          NATIVE = true;
          let ok = on_dealloc(p, l.size(), l.align());
          if !ok || E_BAD_LAYOUT {
            LON = false;
            if E_DOUBLE_FREE { panic!("C06|double-free|native ledger: dealloc of a block that was already freed"); }
            if E_BAD_LAYOUT { panic!("C06|bad-layout|native ledger: dealloc layout differs from the layout the block was allocated with"); }
            panic!("C06|bad-free|native ledger: dealloc of a block this execution never allocated");
          }
        }
        std::alloc::GlobalAlloc::dealloc(&std::alloc::System, p, l)
      }
    }
    #[global_allocator]
    static A: Nat = Nat;
  }

  /// Handle ledger: every `[resource-drop]` intrinsic call (generator hook) lands here.
  pub mod hl {
    use super::M;
    pub static mut HN: usize = 0;
    pub static mut HH: [u32; @NH@] = [0; @NH@];
    pub static mut HKIND: [u8; @NH@] = [0; @NH@];
    pub unsafe fn on_drop(kind: u8, h: u32) { if HN < @NH@ { HH[HN] = h; HKIND[HN] = kind; } HN += 1; }
    pub unsafe fn count(kind: u8, h: u64) -> usize {
      let mut c = 0usize;
@COUNT@
      c
    }
  }
'''.replace("@RECYCLE@", unroll(nl, "      if LST[#] == 2 && LP[#] == p { LST[#] = 0; }")) \
   .replace("@INSERT@", unroll(nl, "      if !done && LST[#] == 0 { LP[#] = p; LSZ[#] = size; LAL[#] = align; LST[#] = 1; done = true; }")) \
   .replace("@REMOVE@", unroll(nl, "      if !found && LST[#] == 1 && LP[#] == p { found = true; LST[#] = 2; LIVE -= 1; "
                                   "if LSZ[#] != size || LAL[#] != align { E_BAD_LAYOUT = true; } }")) \
   .replace("@FREED@", unroll(nl, "      if LST[#] == 2 && LP[#] == p { freed = true; }")) \
   .replace("@COUNT@", unroll(NH, "      if # < HN && HKIND[#] == kind && HH[#] as u64 == h { c += 1; }")) \
   .replace("@NL@", str(nl)).replace("@NH@", str(NH))


# Heap accounting WITHOUT stubbing the allocator.  The first version of this engine replaced alloc::alloc::{alloc,
# alloc_zeroed, dealloc_nonnull, realloc_nonnull} by recording shims feeding a ledger kept in `static mut`s.  That ran
# into a Kani 0.68 code-generation quirk (also hit by the rtkani engine): a constant of the code under test whose
# bytes equal the initializer of a harness `static mut` is compiled as a READ OF THAT STATIC.  `RawVecInner::new_in`'s
# zero capacity was compiled as a read of the ledger's `TOTAL: usize = 0`, so after the first recorded allocation every
# `Vec::new()` had capacity 1 and a dangling pointer -- false "pointer invalid / bad free" failures that came and went
# with symbol hashes (the guest-rust dependency at /tmp/wt_rustgen instead of /repo).  Consequences:
#   * leaks are decided by CBMC's own `--memory-leak-check` at harness exit, double free / use after free /
#     out-of-bounds / dealloc size by the CBMC and Kani built-in checks; the ledger below only runs in NATIVE concrete
#     playback (fed by a #[global_allocator]) to confirm a Kani counterexample natively;
#   * every harness `static mut` is wrapped as `M(<unique non-zero magic>, value)` (guard_statics), so that no
#     initializer can equal a constant of the code under test;
#   * after every run the goto binary of each harness is linted (kani.alias_lint): a function outside this crate that
#     references one of the crate's statics makes the harness inconclusive.
STUBS = []
# String::from_utf8 (reached through the generated `string_lift` under debug assertions): core's validator
# (word-at-a-time scan with align_offset arithmetic) costs CBMC minutes for a 2-byte string; it is replaced by a
# shim that asserts well-formedness with the harness's own validator and converts unchecked.
UTF8_STUB = "#[kani::stub(alloc::string::String::from_utf8, s_from_utf8)]"
UTF8_STUB_DOC = ("alloc::string::String::from_utf8 is replaced (-Z stubbing) by a shim that asserts UTF-8 well-formedness with "
                 "the harness's own validator (Unicode table 3-7) and converts with from_utf8_unchecked; "
                 "core::str's validator itself is not executed (measured: > 4 min of SAT time for 2 symbolic bytes)")
STUB_DOC = ["heap: no allocator stubs; leaks = CBMC --memory-leak-check at harness exit (every block allocated during the harness -- "
            "argument buffers, the user's values, lowered results -- must have been freed after post-return and after the harness "
            "dropped what it received); double free / use after free / out-of-bounds = CBMC pointer checks; "
            "dealloc size != allocation size = Kani's __rust_dealloc model; dealloc ALIGNMENT is not observable"]


def storable(rty):
    return not rty.startswith("&") and "'" not in rty


def guest_impl(world, traits, res_ids):
    """statics + `impl Guest for G` (+ `impl Guest<Res> for My<Res>`) recording everything"""
    out = []
    fns = traits.get("Guest")
    if fns is None:
        raise ValueError("no Guest trait in the generated module")
    out.append("pub struct G;")
    by_name = {f.rust: f for f in world.funcs}
    body = []
    for name, params, ret, _self in fns:
        f = by_name.get(name)
        st = [(i, pn, pt) for i, (pn, pt) in enumerate(params) if storable(pt)]
        out.append("pub static mut CALLS_%s: usize = 0;" % name)
        out.append("pub static mut REC_%s: Option<(%s)> = None;" % (name, "".join("%s," % pt for _, _, pt in st)))
        for i, (pn, pt) in enumerate(params):
            if pt.startswith("&"):
                out.append("pub static mut BREC_%s_%d: u64 = 0;" % (name, i))
        if ret:
            out.append("pub static mut GIV_%s: Option<%s> = None;" % (name, ret))
        b = ["unsafe {", "CALLS_%s += 1;" % name]
        for i, (pn, pt) in enumerate(params):
            if pt.startswith("&"):
                b.append("BREC_%s_%d = (*%s).handle() as u64;" % (name, i, pn))
        if f is not None and f.special == "re-pass":
            b.append("return re_pass_user(%s);" % params[0][0])
        b.append("REC_%s = Some((%s));" % (name, "".join("%s," % pn for _, pn, _ in st)))
        if ret:
            b.append("GIV_%s.take().unwrap()" % name)
        b.append("}")
        body.append("  fn %s(%s)%s { %s }" % (name, ", ".join("%s: %s" % p for p in params), " -> " + ret if ret else "", " ".join(b)))
    assoc = []
    for r in world.exp_res:
        assoc.append("  type %s = My%s;" % (camel(r.name), camel(r.name)))
    out.append("impl m::Guest for G {\n%s\n%s\n}" % ("\n".join(assoc), "\n".join(body)))
    for r in world.exp_res:
        c = camel(r.name)
        out.append(("pub struct My%s { pub v: u32 }\n"
                    "pub static mut MY%s_NEW: usize = 0; pub static mut MY%s_DROPS: usize = 0; pub static mut MY%s_LASTDROP: u32 = 0;\n"
                    "impl Drop for My%s { fn drop(&mut self) { unsafe { MY%s_DROPS += 1; MY%s_LASTDROP = self.v; } } }\n"
                    "impl m::Guest%s for My%s {\n  fn new(v: u32) -> Self { unsafe { MY%s_NEW += 1; } My%s { v } }\n  fn get(&self) -> u32 { self.v }\n}")
                   % (c, c.upper(), c.upper(), c.upper(), c, c.upper(), c.upper(), c, c, c.upper(), c))
    return "\n".join(out)


def _has_string(t):
    from .wtypes import children
    return t.kind == "string" or any(_has_string(c) for c in children(t))


def func_harness(world, f, exports, post, traits, opts, L, S, res_ids):
    """-> (text, meta) for one exported function; raises ValueError on a structural mismatch it cannot express"""
    if f.max_l is not None:
        L = min(L, f.max_l)
    if f.max_s is not None:
        S = min(S, f.max_s)
    if f.fixed_l is not None:
        L = f.fixed_l
    ctx = hgen.Ctx(opts, L, S)
    ctx.fixed = f.fixed_l is not None
    name = f.rust
    if name not in exports:
        raise ValueError("_export_%s_cabi not found in the generated module" % name)
    cabi_params, cabi_ret, _tr = exports[name]
    tfn = [x for x in traits["Guest"] if x[0] == name]
    if not tfn:
        raise ValueError("Guest::%s not found" % name)
    _, tparams, tret, _ = tfn[0]
    struct_fail = []
    ptypes = [t for _, t in f.params]
    fl = spec.flat_params(ptypes)
    indirect = len(fl) > spec.MAX_FLAT_PARAMS
    in_vals = []
    if indirect:
        tt = tup(*ptypes)
        sz, al = spec.size(tt), spec.align(tt)
        ctx.emit("let abp: [u8; %d] = kani::any();" % sz)
        ctx.emit("let pp: *mut u8 = hal::alloc::alloc(Layout::from_size_align_unchecked(%d, %d));" % (sz, al))
        ctx.emit("core::ptr::copy_nonoverlapping(abp.as_ptr(), pp, %d);" % sz)
        v = hgen.mat_mem(ctx, tt, "abp", 0, "true", "pp")
        in_vals = v[1]
        args = ["pp"]
        if len(cabi_params) != 1 or hgen.CORE_OF_RUST.get(cabi_params[0][1]) != 64:
            struct_fail.append("C05|arg|signature: %d flat parameters exceed MAX_FLAT_PARAMS, expected one pointer parameter, generated %s"
                               % (len(fl), [p[1] for p in cabi_params]))
    else:
        slots = [("s%d" % i, c) for i, c in enumerate(fl)]
        for s, _ in slots:
            ctx.emit("let mut %s: u64 = kani::any();" % s)
        i = 0
        for t in ptypes:
            n = len(spec.flat(t))
            in_vals.append(hgen.mat_flat(ctx, t, slots[i:i + n], "true"))
            i += n
        if len(cabi_params) != len(fl):
            struct_fail.append("C05|arg|signature: reference flattening has %d core parameters, generated function has %d" % (len(fl), len(cabi_params)))
            args = []
        else:
            args = []
            for (s, c), (_, rty) in zip(slots, cabi_params):
                if hgen.CORE_OF_RUST.get(rty) != spec.width(c):
                    struct_fail.append("C05|arg|signature: core parameter %s is %s in the reference flattening but `%s` in the generated function" % (s, c, rty))
                    args.append("kani::any()")
                else:
                    args.append(hgen.arg_expr(ctx, s, rty))
    # the user's return value
    ctor, gexpr, gval = [], None, None
    raw = bool(opts.get("raw_strings"))
    if f.result is not None:
        # raw_strings only affects *borrowed* string arguments of imports; exported results stay `String`
        sib = tret is not None and "String" not in tret and raw
        ctor, gexpr, gval = hgen.build(ctx, f.result, string_is_bytes=False)
    # handles of one resource type are pairwise distinct table indices
    hs = [(g, h, r) for g, h, r in ctx.own_in] + [(g, h, r) for g, h, r in ctx.borrow_in] + [tuple(o) for o in ctx.own_out]
    for a in range(len(hs)):
        for b in range(a + 1, len(hs)):
            if hs[a][2] is hs[b][2]:
                ctx.assume(hgen.g_and(hs[a][0], hs[b][0]), "%s != %s" % (hs[a][1], hs[b][1]),
                           "distinct handles of one resource type are distinct table indices")
    setup = ctx.lines
    ctx.lines = []
    decl = []
    # ---- call ----
    for l in ctor:
        ctx.emit(l)
    if f.result is not None:
        ctx.emit("GIV_%s = Some(%s);" % (name, gexpr))
    nres = 0 if f.result is None else len(spec.flat(f.result))
    call = "m::_export_%s_cabi::<G>(%s)" % (name, ", ".join(args))
    if struct_fail:
        pass
    elif cabi_ret:
        ctx.emit("let ret = %s;" % call)
    else:
        ctx.emit("%s;" % call)
    ctx.emit('kani::assert(CALLS_%s == 1, "C05|arg|call: the user function runs exactly once");' % name)
    # ---- checkpoint A: before the user drops what it received ----
    for g, h, r in ctx.borrow_in:
        hgen.kassert(ctx, g, "hl::count(%d, %s) == 1" % (res_ids[r.root.name], h),
                     "C07|borrow-in|the borrow handle of an imported resource is dropped exactly once before the export returns")
    for g, h, r in ctx.own_in:
        hgen.kassert(ctx, g, "hl::count(%d, %s) == 0" % (res_ids[r.root.name], h),
                     "C07|own-in|an owned handle is not dropped while the user's value still owns it")
    # ---- received value ----
    ctx.emit("let r = REC_%s.take().unwrap();" % name)
    k = 0
    for i, ((pn, pt), (_, t)) in enumerate(zip(tparams, f.params)):
        if storable(pt):
            rv = hgen.view(ctx, t, "(&r.%d)" % k, decl)
            k += 1
        elif pt.startswith("&") and t.kind == "borrow":
            rv = ("leaf", "BREC_%s_%d" % (name, i))
        else:
            rv = ("opaque",)
        hgen.eq(ctx, in_vals[i], rv, "true", "arg")
    ctx.emit("drop(r);")
    # ---- checkpoint B ----
    for g, h, r in ctx.own_in:
        hgen.kassert(ctx, g, "hl::count(%d, %s) == 1" % (res_ids[r.root.name], h),
                     "C07|own-in|an owned handle received is dropped exactly once when its Rust value is dropped")
    for g, h, r in ctx.own_out:
        hgen.kassert(ctx, g, "hl::count(%d, %s) == 0" % (res_ids[r.root.name], h),
                     "C07|own-out|a handle returned to the host is transferred, not dropped")
    bex = any(t.kind == "borrow" and t.res.exported for _, t in f.params)
    if bex and not hs:
        hgen.kassert(ctx, "true", "hl::HN == 0",
                     "C07|borrow-exported|a borrow of a resource this component implements is a bare rep: the guest makes no resource.drop call")
    if hs:
        tot = " + ".join("((%s) as usize)" % g for g, _, _ in list(ctx.own_in) + list(ctx.borrow_in))
        hgen.kassert(ctx, "true", "hl::HN == %s" % (tot or "0"), "C07|total|no other handle is dropped")
    # ---- result ----
    if f.result is not None and not struct_fail:
        if nres > spec.MAX_FLAT_RESULTS:
            if cabi_ret not in ("*mut u8", "*const u8"):
                struct_fail.append("C05|res|signature: %d flat results must be returned through the return area, generated `%s`" % (nres, cabi_ret))
            else:
                hgen.check_mem(ctx, f.result, gval, "ret", 0, "true", "res")
        elif nres == 1:
            want = spec.width(spec.flat(f.result)[0])
            if hgen.CORE_OF_RUST.get(cabi_ret) != want or cabi_ret not in ("i32", "i64", "f32", "f64"):
                struct_fail.append("C05|res|signature: single flat result of width %d, generated `%s`" % (want, cabi_ret))
            else:
                hgen.check_flat1(ctx, f.result, gval, "ret", cabi_ret, "res")
    # ---- heap accounting ----
    exp = " + ".join("((%s) as isize)" % g for g in ctx.out_bufs) or "0"
    hgen.kassert(ctx, "led::NATIVE", "led::LIVE == %s" % exp,
                 "C06|leak|native ledger: after the call (and the drop of the received value) only the result's buffers are live")
    if name in post and not struct_fail and cabi_ret:
        ctx.emit("m::__post_return_%s::<G>(ret);" % name)
    elif f.result is not None and has_heap(f.result):
        struct_fail.append("C06|post-return|the result owns heap buffers but no __post_return_%s was generated" % name)
    hgen.kassert(ctx, "led::NATIVE", "led::LIVE == 0", "C06|leak|native ledger: no block is live after post-return")
    hgen.kassert(ctx, "true", "hl::HN <= %d" % NH, "H|ledger|handle ledger overflow (harness bound)")
    covers = [("true", "reached the end")]
    for v in in_vals[:2]:
        hgen.interesting_covers(v, covers, "in")
    if gval is not None:
        hgen.interesting_covers(gval, covers, "out")
    if ctx.fixed:
        covers = covers[:1]
    for c, what in covers[:7]:
        ctx.emit('kani::cover!(%s, "%s");' % (c, what))
    for sf in struct_fail:
        ctx.emit('kani::assert(false, "%s");' % sf.replace('"', "'"))
    ctx.emit("// @DISPATCH@")
    body = ["led::begin();"] + setup + decl + [l for l in ctx.lines if l]
    unwind = max(L, S) + int(_os.environ.get('RUSTGEN_UNW', '1'))
    uses_str = any(_has_string(t) for _, t in f.params) and not opts.get("raw_strings")
    text = "\n".join(["#[kani::proof]", "#[kani::unwind(%d)]" % unwind] + STUBS + ([UTF8_STUB] if uses_str else []) +
                     ["pub fn k_%s() { unsafe {" % name] + ["  " + l for l in body] + ["} }"])
    meta = {"function": f.name, "class": f.cls, "assumes": sorted(ctx.assumes), "unwind": unwind,
            "props": ["C05", "C06"] + (["C07"] if (hs or bex) else []), "direction": "export", "L": L,
            "heap": bool(ctx.in_bufs or ctx.out_bufs or indirect), "handles": bool(hs or bex),
            "stubs": [UTF8_STUB_DOC] if uses_str else []}
    return text, meta


# --------------------------------------------------------------------------
# resource harnesses (templates)
# --------------------------------------------------------------------------
def seq_harness(hname, mk, take, handle, kind, what):
    """≤ 3 kani::any()-chosen operations on one owning handle value, then Drop (≤ 4 operations)"""
    ops = []
    for i in range(3):
        ops.append("""
    if nops > %d {
      let op: u8 = kani::any();
      if op == 0 {
        let got = %s;
        kani::assert(taken || got == h, "C07|seq|handle() of an untaken value is the handle it was created from");
      } else {
        let got = %s;
        kani::assert(taken || got == h, "C07|seq|the first take_handle() hands out the handle");
        kani::assert(!taken || got == u32::MAX, "C07|seq|a handle that was given away is never handed out again");
        taken = true;
      }
    }""" % (i, handle, take))
    return "\n".join(["#[kani::proof]", "#[kani::unwind(3)]"] + STUBS + ["""pub fn %s() { unsafe {
    let h: u32 = kani::any(); kani::assume(h != 0 && h != u32::MAX);
    led::begin();
    let r = %s;
    let mut taken = false;
    let nops: u8 = kani::any(); kani::assume(nops <= 3);%s
    drop(r);
    kani::assert(!taken || hl::HN == 0, "C07|seq|a handle that was given away (take_handle) is never dropped");
    kani::assert(taken || (hl::HN == 1 && hl::count(%d, h as u64) == 1), "C07|seq|a handle that was never given away is dropped exactly once");
    kani::assert(!led::NATIVE || led::LIVE == 0, "C06|leak|native ledger: no block is live at the end");
    kani::cover!(taken && nops == 3, "taken, three operations");
    kani::cover!(!taken && nops == 3, "never taken, three operations");
    // @DISPATCH@
  } }""" % (hname, mk, "".join(ops), kind)]), {"function": "-", "class": what, "assumes": [
        "handle indices are non-zero table indices below u32::MAX (Resource::from_handle debug_asserts this)"],
        "unwind": 3, "props": ["C07"], "direction": "runtime-item", "heap": False, "handles": True}


def lifecycle_harness(res, kind):
    c = camel(res.name)
    C = c.upper()
    return "\n".join(["#[kani::proof]", "#[kani::unwind(3)]"] + STUBS + ["""pub fn k_res_export_lifecycle() { unsafe {
    let v: u32 = kani::any();
    led::begin();
    HOST_TABLE = true;
    // host: `[constructor]%(n)s` export -> %(c)s::new(T::new(v)) -> resource.new(rep) (hook) -> own handle returned
    let h = m::_export_constructor_%(s)s_cabi::<My%(c)s>(v as i32) as u32;
    kani::assert(HT_N == 1 && HT_LIVE[0] && HT_H[0] == h, "C07|export-new|the constructor export returns the handle resource.new issued for the boxed value");
    kani::assert(hl::HN == 0 && MY%(C)s_DROPS == 0, "C07|export-new|the handle is transferred to the host: neither handle nor value is dropped");
    kani::assert(!led::NATIVE || led::LIVE == 1, "C06|leak|native ledger: exactly the boxed representation is live");
    let mut cur_h = h; let mut cur_v = v; let mut idx = 0usize;
    let nops: u8 = kani::any(); kani::assume(nops <= 2);
    let mut consumed = 0usize;
    if nops > 0 {
      let mode: u8 = kani::any(); kani::assume(mode <= 1);
      RE_MODE = mode; RE_NEWV = kani::any();
      // host passes its own handle to an export taking and returning `own<%(n)s>`
      let back = m::_export_re_pass_cabi::<G>(cur_h as i32) as u32;
      kani::assert(RE_SEEN == cur_v, "C07|export-rep|the user's value is reached through the handle (resource.rep)");
      if mode == 0 {
        kani::assert(back == cur_h, "C07|own-out|the same handle comes back");
        kani::assert(hl::HN == 0 && MY%(C)s_DROPS == 0, "C07|own-in|passing a handle through drops nothing");
      } else {
        // into_inner + a new resource: old handle dropped once -> host runs the dtor on its rep; old value dropped once by the user
        kani::assert(hl::count(%(k)d, cur_h as u64) == 1 && hl::HN == 1, "C07|own-in|into_inner drops the consumed handle exactly once");
        kani::assert(MY%(C)s_DROPS == 1 && MY%(C)s_LASTDROP == cur_v, "C07|export-dtor|the taken-out value is destroyed exactly once");
        kani::assert(HT_N == 2 && HT_LIVE[1] && HT_H[1] == back && !HT_LIVE[0], "C07|export-new|the new handle is the one resource.new issued");
        cur_h = back; cur_v = RE_NEWV; idx = 1; consumed = 1;
      }
      kani::assert(!led::NATIVE || led::LIVE == 1, "C06|leak|native ledger: exactly one boxed representation is live");
    }
    // host drops its handle: the `[dtor]` export runs on the rep
    let rep = HT_P[idx];
    m::%(c)s::dtor::<My%(c)s>(rep);
    kani::assert(MY%(C)s_DROPS == consumed + 1 && MY%(C)s_LASTDROP == cur_v, "C07|export-dtor|the user's value is destroyed exactly once when the host drops the resource");
    kani::assert(MY%(C)s_NEW == consumed + 1, "C07|export-new|one user value per resource");
    kani::assert(!led::NATIVE || led::LIVE == 0, "C06|leak|native ledger: the boxed representation is freed by the dtor");
    kani::cover!(nops == 0, "constructor then dtor");
    kani::cover!(nops > 0 && RE_MODE == 0, "handle passed through an export");
    kani::cover!(nops > 0 && RE_MODE == 1, "into_inner and a new resource");
    // @DISPATCH@
  } }""" % {"n": res.name, "c": c, "C": C, "s": snake(res.name), "k": kind}]), {
        "function": "[constructor]%s / re-pass / [dtor]%s" % (res.name, res.name), "class": "exported-resource-lifecycle",
        "assumes": ["the host issues fresh non-zero handle indices from resource.new and answers resource.rep with the rep it was given",
                    "the host runs the [dtor] export when the guest drops an own handle of its own resource (canonical ABI resource.drop)"],
        "unwind": 3, "props": ["C07", "C06"], "direction": "export", "heap": True, "handles": True}


def import_calls_harness(res, kind):
    c = camel(res.name)
    return "\n".join(["#[kani::proof]", "#[kani::unwind(3)]"] + STUBS + ["""pub fn k_res_import_calls() { unsafe {
    let h: u32 = kani::any(); kani::assume(h != 0 && h != u32::MAX);
    let h2: u32 = kani::any(); kani::assume(h2 != 0 && h2 != u32::MAX && h2 != h);
    led::begin();
    let which: u8 = kani::any(); kani::assume(which <= 3);
    if which == 0 {
      // own<%(n)s> passed to an import: transferred exactly once, never dropped by the guest
      let x = mi::%(c)s::from_handle(h);
      mi::eat(x);
      kani::assert(IMP_CALLS == 1 && (IMP_A[0] & 0xffffffff) == h as u64, "C07|import-own|the handle reaches the host");
      kani::assert(hl::HN == 0, "C07|import-own|an owned handle passed to an import is transferred, not dropped");
    } else if which == 1 {
      // borrow<%(n)s> passed to an import: handle() only; the owner still drops it exactly once
      let x = mi::%(c)s::from_handle(h);
      IMP_RET = kani::any();
      let r = mi::peek(&x);
      kani::assert(IMP_CALLS == 1 && (IMP_A[0] & 0xffffffff) == h as u64, "C07|import-borrow|the handle reaches the host");
      kani::assert(r as u64 == (IMP_RET & 0xffffffff), "C05|res|value");
      kani::assert(hl::HN == 0, "C07|import-borrow|a borrowed handle is not dropped by the call");
      drop(x);
      kani::assert(hl::HN == 1 && hl::count(%(k)d, h as u64) == 1, "C07|import-borrow|the owner drops it exactly once afterwards");
    } else if which == 2 {
      // own<%(n)s> returned by an import: received once, dropped exactly once with its Rust value
      IMP_RET = h2 as u64;
      let x = mi::mk();
      kani::assert(x.handle() == h2, "C07|import-result|the returned handle is the one the host sent");
      kani::assert(hl::HN == 0, "C07|import-result|not dropped while owned");
      drop(x);
      kani::assert(hl::HN == 1 && hl::count(%(k)d, h2 as u64) == 1, "C07|import-result|dropped exactly once with its Rust value");
    } else {
      // constructor + method
      let v: u32 = kani::any();
      IMP_RET = h2 as u64;
      let x = mi::%(c)s::new(v);
      kani::assert(IMP_CALLS == 1 && (IMP_A[0] & 0xffffffff) == v as u64, "C05|arg|value");
      kani::assert(x.handle() == h2, "C07|import-result|the constructed handle is the one the host sent");
      IMP_RET = kani::any();
      let g = x.get();
      kani::assert(IMP_CALLS == 2 && (IMP_A[0] & 0xffffffff) == h2 as u64, "C07|import-borrow|`self` reaches the host as the handle");
      kani::assert(g as u64 == (IMP_RET & 0xffffffff), "C05|res|value");
      kani::assert(hl::HN == 0, "C07|import-borrow|a method call drops nothing");
      drop(x);
      kani::assert(hl::HN == 1 && hl::count(%(k)d, h2 as u64) == 1, "C07|import-result|dropped exactly once with its Rust value");
    }
    kani::assert(!led::NATIVE || led::LIVE == 0, "C06|leak|native ledger: no block is live at the end");
    kani::cover!(which == 0, "own to import"); kani::cover!(which == 1, "borrow to import");
    kani::cover!(which == 2, "own from import"); kani::cover!(which == 3, "constructor and method");
    // @DISPATCH@
  } }""" % {"n": res.name, "c": c, "k": kind}]), {
        "function": "ri: eat / peek / mk / [constructor] / [method]get", "class": "imported-resource-calls",
        "assumes": ["handle indices are non-zero table indices below u32::MAX"],
        "unwind": 3, "props": ["C07"], "direction": "import", "heap": False, "handles": True}


def map_harness(n):
    """map<u8, u32> with a CONCRETE number of entries n in {0, 1} (symbolic keys/values/padding): BTreeMap with a symbolic
    length <= 1 exhausts 16 GB in CBMC (measured), a concrete one takes ~20 s."""
    one = n > 0
    L = ["led::begin();",
         "let k: u8 = kani::any(); let v: u32 = kani::any(); let ab: [u8; 8] = kani::any();",
         "let mut p: *mut u8 = 4 as *mut u8;"]
    if one:
        L += ["p = hal::alloc::alloc(Layout::from_size_align_unchecked(8, 4));",
              "core::ptr::copy_nonoverlapping(ab.as_ptr(), p, 8); *p = k; *(p.add(4) as *mut u32) = v;"]
    L += ["let gk: u8 = kani::any(); let gv: u32 = kani::any();", "let mut g = wit_bindgen::rt::Map::new();"]
    if one:
        L.append("g.insert(gk, gv);")
    L += ["GIV_f_map = Some(g);",
          "let ret = m::_export_f_map_cabi::<G>(p, %d);" % n,
          'kani::assert(CALLS_f_map == 1, "C05|arg|call: the user function runs exactly once");',
          "let r = REC_f_map.take().unwrap();",
          'kani::assert(r.0.len() == %d, "C05|arg|len");' % n]
    if one:
        L += ["let (a, b) = r.0.iter().next().unwrap();",
              'kani::assert(*a == k, "C05|arg|value");', 'kani::assert(*b == v, "C05|arg|value");']
    L += ["drop(r);",
          "let rp = *(ret as *const *const u8); let rl = ldp(ret, 8, 8);",
          'kani::assert(rl == %d, "C05|res|len");' % n]
    if one:
        L += ['kani::assert(ldp(rp, 0, 1) == gk as u64, "C05|res|value");', 'kani::assert(ldp(rp, 4, 4) == gv as u64, "C05|res|value");']
    L += ['kani::assert(!led::NATIVE || led::LIVE == %d, "C06|leak|native ledger: after the call (and the drop of the received value) only the result\'s buffers are live");' % n,
          "m::__post_return_f_map::<G>(ret);",
          'kani::assert(!led::NATIVE || led::LIVE == 0, "C06|leak|native ledger: no block is live after post-return");',
          'kani::cover!(true, "reached the end");', "// @DISPATCH@"]
    text = "\n".join(["#[kani::proof]", "#[kani::unwind(3)]"] + STUBS + ["pub fn k_f_map_len%d() { unsafe {" % n] +
                     ["  " + l for l in L] + ["} }"])
    return text, {"function": "f-map", "class": "map-u8-u32-len%d" % n, "unwind": 3, "props": ["C05", "C06"], "direction": "export",
                  "heap": True, "handles": False,
                  "assumes": ["map<u8,u32>: CONCRETE entry count %d (keys, values and padding bytes symbolic)" % n]}


IMP_HOOKS = r"""
  // what the mock host reads out of argument memory WHILE the import call is in progress
  pub static mut SEEN: [u64; 8] = [0; 8];
  pub static mut SEEN_N: usize = 0;
  pub unsafe fn hook_words(ptr_slot: usize, len_slot: usize, stride: usize, second_off: usize, second_sz: usize) {
    let p = IMP_P[ptr_slot] as *const u8;
    let n = IMP_A[len_slot] as usize;
    SEEN_N = n;
    if n > 0 { SEEN[0] = ldp(p, 0, 4); if second_sz > 0 { SEEN[1] = ldp(p, second_off, second_sz); } }
    if n > 1 { SEEN[2] = ldp(p, stride, 4); if second_sz > 0 { SEEN[3] = ldp(p, stride + second_off, second_sz); } }
  }
  pub unsafe fn hook_list_handles() { hook_words(0, 1, 4, 0, 0); }
  pub unsafe fn hook_list_handle_records() { hook_words(0, 1, 8, 4, 4); }
  pub unsafe fn hook_option_map() { if IMP_A[0] == 1 { hook_words(1, 2, 16, 8, 8); } }
  pub unsafe fn hook_list_map() {
    // list<map<u32,u64>>: (ptr, len) of the outer list; element 0 = (entries ptr, entries len)
    let p = IMP_P[0] as *const u8;
    SEEN_N = IMP_A[1] as usize;
    if SEEN_N > 0 {
      let ep = *(p as *const *const u8); let el = ldp(p, 8, 8);
      SEEN[4] = el;
      if el > 0 { SEEN[0] = ldp(ep, 0, 4); SEEN[1] = ldp(ep, 8, 8); }
    }
  }
"""


def import_own_lists_harness(res, kind, recs):
    """C07/C05, import direction: own handles inside list<own<r>> / list<record { h: own<r>, n: u32 }> parameters.
    Exactly 2 elements (concrete): Cleanup::drop poisons the temporary buffer byte by byte, which needs unwind 18, and a
    symbolic length under that unwinding bound aborts CBMC at the 12 GB cap (measured)."""
    c = camel(res.name)
    nm = "records" if recs else "handles"
    if recs:
        body = """let mut v = Vec::new();
    v.push(mi::Rhi { h: mi::%(c)s::from_handle(h1), n: n1 });
    v.push(mi::Rhi { h: mi::%(c)s::from_handle(h2), n: n2 });
    IMP_HOOK = Some(hook_list_handle_records);
    mi::eat_recs(v);""" % {"c": c}
    else:
        body = """let mut v = Vec::new();
    v.push(mi::%(c)s::from_handle(h1));
    v.push(mi::%(c)s::from_handle(h2));
    IMP_HOOK = Some(hook_list_handles);
    mi::eat_list(v);""" % {"c": c}
    vals = """kani::assert(SEEN[1] == n1 as u64, "C05|arg|value");
    kani::assert(SEEN[3] == n2 as u64, "C05|arg|value");""" if recs else ""
    return "\n".join(["#[kani::proof]", "#[kani::unwind(18)]", """pub fn k_imp_own_list_%(nm)s() { unsafe {
    let h1: u32 = kani::any(); kani::assume(h1 != 0 && h1 != u32::MAX);
    let h2: u32 = kani::any(); kani::assume(h2 != 0 && h2 != u32::MAX && h2 != h1);
    let n1: u32 = kani::any(); let n2: u32 = kani::any();
    led::begin();
    %(body)s
    kani::assert(IMP_CALLS == 1, "C05|arg|call: the import is called exactly once");
    kani::assert(SEEN_N == 2, "C05|arg|len");
    kani::assert(SEEN[0] == h1 as u64, "C07|import-own|the host receives exactly the handles the guest passed");
    kani::assert(SEEN[2] == h2 as u64, "C07|import-own|the host receives exactly the handles the guest passed");
    %(vals)s
    kani::assert(hl::HN == 0, "C07|import-own|owned handles transferred inside a list are not dropped by the guest");
    kani::assert(!led::NATIVE || led::LIVE == 0, "C06|leak|native ledger: no block is live at the end");
    kani::cover!(true, "reached the end");
    // @DISPATCH@
  } }""" % {"nm": nm, "body": body, "vals": vals}]), {
        "function": "ri: %s" % ("eat-recs" if recs else "eat-list"), "class": "import-list-own-%s" % nm,
        "assumes": ["handle indices are non-zero table indices below u32::MAX", "list length: CONCRETE 2"],
        "unwind": 18, "props": ["C07", "C05", "C06"], "direction": "import", "heap": True, "handles": True}


def import_maps_harness(which):
    """C06/C05, import direction: a map lowered INSIDE another type (option / list) must still be live during the call.
    Concrete entry count 1 (symbolic key and value)."""
    call = {"option": "mi::put_map(Some(&m));", "list": "mi::put_maps(core::slice::from_ref(&m));"}[which]
    hook = {"option": "hook_option_map", "list": "hook_list_map"}[which]
    extra = {"option": 'kani::assert(IMP_A[0] == 1 && SEEN_N == 1, "C05|arg|len");',
             "list": 'kani::assert(SEEN_N == 1 && SEEN[4] == 1, "C05|arg|len");'}[which]
    return "\n".join(["#[kani::proof]", "#[kani::unwind(18)]", """pub fn k_imp_%(w)s_map() { unsafe {
    let k: u32 = kani::any(); let v: u64 = kani::any();
    led::begin();
    let mut m = wit_bindgen::rt::Map::new();
    m.insert(k, v);
    IMP_HOOK = Some(%(hook)s);
    %(call)s
    kani::assert(IMP_CALLS == 1, "C05|arg|call: the import is called exactly once");
    %(extra)s
    kani::assert(SEEN[0] == k as u64, "C05|arg|value");
    kani::assert(SEEN[1] == v, "C05|arg|value");
    drop(m);
    kani::assert(!led::NATIVE || led::LIVE == 0, "C06|leak|native ledger: no block is live at the end");
    kani::cover!(true, "reached the end");
    // @DISPATCH@
  } }""" % {"w": which, "hook": hook, "call": call, "extra": extra}]), {
        "function": "ri: put-map%s" % ("s" if which == "list" else ""), "class": "import-%s-map-u32-u64-len1" % which,
        "assumes": ["map<u32,u64>: CONCRETE entry count 1 (key and value symbolic)"],
        "unwind": 18, "props": ["C06", "C05"], "direction": "import", "heap": True, "handles": False}


# --------------------------------------------------------------------------
# the mock host reached through the generator hook
# --------------------------------------------------------------------------
def verif_host(w_rs, world, res_ids):
    """one `pub unsafe fn` per hooked shim found in the generated text"""
    out = ["pub mod verif_host {", "  #![allow(warnings)]", "  use crate::b::h::*;"]
    seen = set()
    for m in re.finditer(r'unsafe extern "C" fn \w+\(([^)]*)\)\s*(?:->\s*([^{]+?))?\s*\{ unsafe \{ crate::verif_host::(\w+)\(', w_rs):
        params, ret, host = m.group(1), m.group(2), m.group(3)
        if host in seen:
            continue
        seen.add(host)
        ps = [tuple(x.strip() for x in p.split(":", 1)) for p in hgen.split_top(params)]
        sig = "pub unsafe fn %s(%s)%s" % (host, ", ".join("%s: %s" % p for p in ps), " -> %s" % ret.strip() if ret else "")
        md = re.search(r"__+resource_(drop|new|rep)_(\w+)$", host)
        if md:
            kind = res_ids.get(md.group(2).replace("_", "-"), 255)
            exported = host.startswith("_export_")
            if md.group(1) == "drop":
                body = "host_drop(%d, %s, a0 as u32);" % (kind, "true" if exported else "false")
            elif md.group(1) == "new":
                body = "host_new(%d, a0) as i32" % kind
            else:
                body = "host_rep(%d, a0 as u32)" % kind
        else:
            conv = {"i32": "%s as u32 as u64", "i64": "%s as u64", "f32": "%s.to_bits() as u64", "f64": "%s.to_bits()",
                    "*mut u8": "%s as usize as u64", "usize": "%s as u64", "::core::mem::MaybeUninit::<u64>": "%s.assume_init()"}
            b = ["IMP_CALLS += 1;"]
            for i, (pn, pt) in enumerate(ps):
                if i < 20:
                    b.append("IMP_A[%d] = %s; IMP_P[%d] = %s;" % (i, conv.get(pt, "0") % pn if pt in conv else "0", i,
                                                                 "%s as *mut u8" % pn if pt == "*mut u8" else "core::ptr::null_mut()"))
            b.append("IMP_N = %d;" % len(ps))
            b.append("if let Some(f) = IMP_HOOK { f(); }")
            if ret:
                r = ret.strip()
                b.append({"i32": "IMP_RET as u32 as i32", "i64": "IMP_RET as i64", "f32": "f32::from_bits(IMP_RET as u32)",
                          "f64": "f64::from_bits(IMP_RET)", "*mut u8": "IMP_RETP", "usize": "IMP_RET as usize"}.get(r, "panic!()"))
            body = " ".join(b)
        out.append("  %s { %s }" % (sig, body))
    out.append("}")
    return "\n".join(out), sorted(seen)


HOST_STATE = r'''
  pub static mut IMP_CALLS: usize = 0;
  pub static mut IMP_N: usize = 0;
  pub static mut IMP_A: [u64; 20] = [0; 20];
  pub static mut IMP_P: [*mut u8; 20] = [core::ptr::null_mut(); 20];
  pub static mut IMP_RET: u64 = 0;
  pub static mut IMP_RETP: *mut u8 = core::ptr::null_mut();
  pub static mut IMP_HOOK: Option<unsafe fn()> = None;
  // host resource table for exported resources (used by the lifecycle harness only)
  pub static mut HOST_TABLE: bool = false;
  pub static mut HT_N: usize = 0;
  pub static mut HT_H: [u32; 2] = [0; 2];
  pub static mut HT_P: [*mut u8; 2] = [core::ptr::null_mut(); 2];
  pub static mut HT_LIVE: [bool; 2] = [false; 2];
  pub static mut E_TABLE_OVERFLOW: bool = false;
  pub static mut E_REP_UNKNOWN: bool = false;
  pub static mut E_DROP_UNKNOWN: bool = false;
  /// failed obligations are recorded here and asserted by a kani::any()-selected dispatch at the very end of each
  /// harness, so that one failing obligation never hides (by Kani's assert-then-assume) the paths another one needs
  pub static mut BAD: [bool; 512] = [false; 512];
  pub unsafe fn host_new(kind: u8, rep: *mut u8) -> u32 {
    let h: u32 = kani::any();
    kani::assume(h != 0 && h != u32::MAX);
    if HT_N > 0 { kani::assume(h != HT_H[0]); }
    if HT_N >= 2 { E_TABLE_OVERFLOW = true; }
    if HT_N < 2 { HT_H[HT_N] = h; HT_P[HT_N] = rep; HT_LIVE[HT_N] = true; }
    HT_N += 1;
    h
  }
  pub unsafe fn host_rep(kind: u8, h: u32) -> *mut u8 {
    if HT_N > 0 && HT_LIVE[0] && HT_H[0] == h { return HT_P[0]; }
    if HT_N > 1 && HT_LIVE[1] && HT_H[1] == h { return HT_P[1]; }
    E_REP_UNKNOWN = true;
    core::ptr::null_mut()
  }
'''


def host_drop_fn(world):
    dt = ""
    for r in world.exp_res:
        c = camel(r.name)
        dt += "      m::%s::dtor::<My%s>(rep);\n" % (c, c)
    return r'''
  pub unsafe fn host_drop(kind: u8, exported: bool, h: u32) {
    hl::on_drop(kind, h);
    if exported && HOST_TABLE {
      // canonical ABI: dropping an own handle of a resource this component implements runs its dtor on the rep
      let mut rep: *mut u8 = core::ptr::null_mut();
      let mut found = false;
      if HT_N > 0 && HT_LIVE[0] && HT_H[0] == h { rep = HT_P[0]; HT_LIVE[0] = false; found = true; }
      else if HT_N > 1 && HT_LIVE[1] && HT_H[1] == h { rep = HT_P[1]; HT_LIVE[1] = false; found = true; }
      if !found { E_DROP_UNKNOWN = true; }
      if found {
''' + dt + r'''      }
    }
  }
'''


RE_PASS_USER = r'''
  pub static mut RE_MODE: u8 = 0;
  pub static mut RE_SEEN: u32 = 0;
  pub static mut RE_NEWV: u32 = 0;
  pub unsafe fn re_pass_user(x: m::@C@) -> m::@C@ {
    if RE_MODE == 0 {
      RE_SEEN = x.get::<My@C@>().v;
      x
    } else {
      let inner: My@C@ = x.into_inner();
      RE_SEEN = inner.v;
      drop(inner);
      m::@C@::new(<My@C@ as m::Guest@C@>::new(RE_NEWV))
    }
  }
'''


GLOBAL_FLAGS = [
    ("led::E_DOUBLE_FREE", "C06|double-free|dealloc of a block that was already freed"),
    ("led::E_BAD_FREE", "C06|bad-free|dealloc of a block this execution never allocated"),
    ("led::E_BAD_LAYOUT", "C06|bad-layout|dealloc layout differs from the layout the block was allocated with"),
    ("led::OVERFLOW", "H|ledger|heap ledger overflow (harness bound)"),
    ("E_TABLE_OVERFLOW", "H|ledger|host resource table overflow (harness bound)"),
    ("E_REP_UNKNOWN", "C07|export-rep|resource.rep on a handle that is not live in the host's table"),
    ("E_DROP_UNKNOWN", "C07|own-in|resource.drop on a handle that is not live in the host's table (double drop)"),
    ("E_UTF8", "C05|arg|utf8: the bytes handed to String::from_utf8 are the (valid) bytes the host sent"),
]


def soften(text):
    """kani::assert(c, "m"); -> BAD[k] |= !(c);  plus a kani::any()-selected dispatch at `// @DISPATCH@`."""
    msgs = []

    def rep(m):
        msgs.append(m.group(2))
        return "BAD[%d] |= !(%s);" % (len(msgs) - 1, m.group(1))
    text = re.sub(r'kani::assert\((.*), "([^"]*)"\);', rep, text)
    d = ["let dsel: usize = kani::any();"]
    for k, msg in enumerate(msgs):
        d.append('if dsel == %d { kani::assert(!BAD[%d], "%s"); }' % (k, k, msg))
    for j, (flag, msg) in enumerate(GLOBAL_FLAGS):
        d.append('if dsel == %d { kani::assert(!%s, "%s"); }' % (len(msgs) + j, flag, msg))
    d.append("led::native_exit_check();")
    assert "// @DISPATCH@" in text
    return text.replace("// @DISPATCH@", "\n  ".join(d)), len(msgs) + len(GLOBAL_FLAGS)


def runtime_hash():
    """hash of the guest runtime crate the harness crate links (crates/guest-rust/src/**/*.rs of vlib.REPO)"""
    import vlib
    h = hashlib.sha256()
    root = _os.path.join(vlib.REPO, "crates", "guest-rust", "src")
    for d, _dirs, files in sorted(_os.walk(root)):
        for f in sorted(files):
            if f.endswith(".rs"):
                h.update(f.encode())
                with open(_os.path.join(d, f), "rb") as fh:
                    h.update(fh.read())
    return h.hexdigest()


def glue_items(w_rs):
    """[(function name, start, end)] of every `_export_<f>_cabi` / `__post_return_<f>` item (brace-matched body)"""
    out = []
    for m in re.finditer(r"pub unsafe fn (?:_export_(\w+)_cabi|__post_return_(\w+))<", w_rs):
        i = w_rs.index("{", m.end())
        depth, j = 1, i + 1
        while depth and j < len(w_rs):
            c = w_rs[j]
            if c == "{":
                depth += 1
            elif c == "}":
                depth -= 1
            j += 1
        out.append((m.group(1) or m.group(2), m.start(), j))
    return out


def _scan_static(text, i):
    """text[i:] starts with 'static mut '; -> (name, type, init, end index after ';')"""
    j = i + len("static mut ")
    k = text.index(":", j)
    name = text[j:k].strip()
    depth, t0, m = 0, k + 1, k + 1
    while not (depth == 0 and text.startswith(" = ", m)):
        depth += text[m] in "<([" and 1 or (text[m] in ">)]" and -1 or 0)
        m += 1
    ty = text[t0:m].strip()
    m += 3
    i0, depth = m, 0
    while not (depth == 0 and text[m] == ";"):
        depth += text[m] in "([{" and 1 or (text[m] in ")]}" and -1 or 0)
        m += 1
    return name, ty, text[i0:m].strip(), m + 1


def guard_statics(text, start_magic=0):
    """Every `static mut NAME: T = INIT;` of the harness text becomes `static mut NAME: M<T> = M(<magic>, INIT);` and every
    use `NAME` becomes `NAME.1`: no harness static has an initializer whose bytes could equal a constant of the code under test."""
    names, out, i, k = [], [], 0, start_magic
    while True:
        j = text.find("static mut ", i)
        if j < 0:
            out.append(text[i:])
            break
        name, ty, init, end = _scan_static(text, j)
        k += 1
        out.append(text[i:j] + "static mut %s\x00: M<%s> = M(0x5255_5354_4745_0000u64 + %d, %s);" % (name, ty, k, init))
        names.append(name)
        i = end
    text = "".join(out)
    for n in sorted(set(names), key=len, reverse=True):
        text = re.sub(r"(?<![\w.])%s\b(?!\x00)" % re.escape(n), n + ".1", text)
    return text.replace("\x00", ""), names, k


M_DECL = "#[derive(Clone, Copy)] pub struct M<T>(pub u64, pub T);"


def build_lib(world, w_rs, opts, L, S, tier, nl=None):
    """-> (lib.rs text, {harness name: meta(+ 'text')}, problems)"""
    mod_text = hgen.module_text(w_rs, ["exports", "t", "p", "x"])
    traits = hgen.parse_traits(mod_text)
    exports, post = hgen.parse_exports(mod_text)
    res_ids = {}
    for r in world.imp_res + world.exp_res:
        res_ids[r.root.name] = len(res_ids) + 1
    harnesses, problems = {}, []
    parts = []
    for f in world.funcs:
        if f.special:
            continue
        if f.tier == "thorough" and tier != "thorough":
            continue
        try:
            text, meta = func_harness(world, f, exports, post, traits, opts, L, S, res_ids)
        except (ValueError, KeyError, AssertionError) as e:
            problems.append("harness generation for %s failed: %r" % (f.name, e))
            continue
        harnesses["k_" + f.rust] = dict(meta, text=text)
        parts.append(text)
    if any(f.special == "map" for f in world.funcs):
        for n in (0, 1):
            text, meta = map_harness(n)
            harnesses["k_f_map_len%d" % n] = dict(meta, text=text)
            parts.append(text)
    has_rt = "mod _rt" in w_rs
    if has_rt and "pub struct Resource<T: WasmResource>" in w_rs:
        text, meta = seq_harness("k_res_rt_seq", "_rt::Resource::<HK>::from_handle(h)", "_rt::Resource::<HK>::take_handle(&r)",
                                 "_rt::Resource::<HK>::handle(&r)", 250, "resource-runtime-item")
        parts.append("pub struct HK;\nunsafe impl _rt::WasmResource for HK { unsafe fn drop(h: u32) { hl::on_drop(250, h); } }")
        harnesses["k_res_rt_seq"] = dict(meta, text=text)
        parts.append(text)
    for r in world.imp_res:
        c = camel(r.name)
        text, meta = seq_harness("k_res_seq_%s" % snake(r.name), "mi::%s::from_handle(h)" % c, "r.take_handle()", "r.handle()",
                                 res_ids[r.root.name], "imported-resource-wrapper")
        harnesses["k_res_seq_%s" % snake(r.name)] = dict(meta, text=text)
        parts.append(text)
    for r in world.exp_res:
        c = camel(r.name)
        text, meta = seq_harness("k_res_seq_%s" % snake(r.name), "m::%s::from_handle(h)" % c, "r.take_handle()", "r.handle()",
                                 res_ids[r.root.name], "exported-resource-own-handle")
        harnesses["k_res_seq_%s" % snake(r.name)] = dict(meta, text=text)
        parts.append(text)
        if any(f.special == "re-pass" for f in world.funcs):
            parts.append(RE_PASS_USER.replace("@C@", c))
            text, meta = lifecycle_harness(r, res_ids[r.root.name])
            harnesses["k_res_export_lifecycle"] = dict(meta, text=text)
            parts.append(text)
    imp_names = {f.name for f in world.imp_funcs}
    if world.imp_funcs:
        parts.append(IMP_HOOKS)
    if world.imp_res and "eat" in imp_names:
        text, meta = import_calls_harness(world.imp_res[0], res_ids[world.imp_res[0].name])
        harnesses["k_res_import_calls"] = dict(meta, text=text)
        parts.append(text)
    if world.imp_res and "eat-list" in imp_names:
        for recs in (False, True):
            text, meta = import_own_lists_harness(world.imp_res[0], res_ids[world.imp_res[0].name], recs)
            harnesses["k_imp_own_list_%s" % ("records" if recs else "handles")] = dict(meta, text=text)
            parts.append(text)
    for which, fn in (("option", "put-map"), ("list", "put-maps")):
        if fn in imp_names:
            text, meta = import_maps_harness(which)
            harnesses["k_imp_%s_map" % which] = dict(meta, text=text)
            parts.append(text)
    for k, v in harnesses.items():
        soft, n = soften(v["text"])
        for i, p in enumerate(parts):
            if p is v["text"] or p == v["text"]:
                parts[i] = soft
        v["text"] = soft
        v["obligations"] = n
    vh, hosts = verif_host(w_rs, world, res_ids)
    try:
        gi = guest_impl(world, traits, res_ids)
    except ValueError as e:
        problems.append(str(e))
        gi = ""
    common = "\n".join([
        "#[cfg(kani)]", "pub mod h {", "  #![allow(warnings)]",
        "  use super::exports::t::p::x::*;", "  use super::exports::t::p::x as m;",
        "  use super::t::p::ri as mi;" if (world.imp_res or world.imp_funcs) else "",
        "  use super::_rt;" if has_rt else "",
        prelude(nl), HOST_STATE, host_drop_fn(world), gi])
    hmod, names, k = guard_statics(common + "\n" + M_DECL + "\n" + "\n\n".join(parts))
    vh_g = vh
    for n in sorted(set(names), key=len, reverse=True):
        vh_g = re.sub(r"(?<![\w.])%s\b" % re.escape(n), n + ".1", vh_g)
    lib = "\n".join([
        "#![allow(warnings)]", "#![no_std]", '#![recursion_limit = "512"]', "extern crate alloc;", "extern crate std;",
        "pub mod b {", w_rs, hmod, "  // @PLAYBACK@", "}", "}",
        "#[cfg(kani)]", vh_g, ""])
    common = common + "\0guarded statics v1"
    # cache key: everything a harness can execute -- the generated text with the glue of the OTHER exported functions
    # (`_export_<g>_cabi`, `__post_return_<g>`: independent items the harness never calls) blanked, the common harness
    # text, the mock host, the harness itself.  Resource harnesses call several exports: whole text.
    items = glue_items(w_rs)
    for k, v in harnesses.items():
        fn = re.sub(r"_len\d$", "", k[2:]) if k.startswith("k_f_") else None
        sliced = w_rs
        if fn is not None:
            for name, a, b in reversed(items):
                if name != fn:
                    sliced = sliced[:a] + sliced[b:]
        v["key"] = hashlib.sha256((sliced + "\0" + common + "\0" + vh + "\0" + v["text"] + "\0" + runtime_hash()).encode()).hexdigest()[:24]
    return lib, harnesses, problems
