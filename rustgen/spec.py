"""Reference model of the Component Model canonical ABI, pointer width 8.

Written from the definitions in the specification (CanonicalABI.md:
`alignment`, `elem_size`, `discriminant_type`, `max_case_alignment`,
`flatten_type`, `join`, `flatten_functype`), with the one deviation that is
the stated bound of this engine: pointers and lengths are 8 bytes, 8-aligned
and occupy a 64-bit flat slot.  Uses nothing from wit-parser / wit-bindgen.
"""
from __future__ import annotations

PW = 8  # pointer width in bytes (the host's; generated code uses size_of::<*const u8>())
MAX_FLAT_PARAMS = 16
MAX_FLAT_RESULTS = 1

PRIM_SIZE = {"bool": 1, "u8": 1, "s8": 1, "u16": 2, "s16": 2, "u32": 4, "s32": 4, "u64": 8, "s64": 8,
             "f32": 4, "f64": 8, "char": 4}
PRIM_FLAT = {"bool": "i32", "u8": "i32", "s8": "i32", "u16": "i32", "s16": "i32", "u32": "i32", "s32": "i32",
             "u64": "i64", "s64": "i64", "f32": "f32", "f64": "f64", "char": "i32"}
SIGNED = {"s8": 8, "s16": 16, "s32": 32, "s64": 64}


def align_to(x, a):
    return (x + a - 1) // a * a


def disc_size(ncases):
    assert ncases > 0
    if ncases <= 1 << 8:
        return 1
    if ncases <= 1 << 16:
        return 2
    return 4


def cases_of(t):
    """payload types (or None) of a variant-like type, in case-index order"""
    k = t.kind
    if k == "variant":
        return [c for _, c in t.cases]
    if k == "enum":
        return [None] * len(t.cases)
    if k == "option":
        return [None, t.t]
    if k == "result":
        return [t.ok, t.err]
    raise ValueError(k)


def fields_of(t):
    if t.kind == "record":
        return [f for _, f in t.fields]
    if t.kind == "tuple":
        return list(t.items)
    raise ValueError(t.kind)


def flags_words(t):
    return (len(t.members) + 31) // 32


def align(t):
    k = t.kind
    if k == "prim":
        return PRIM_SIZE[t.name]
    if k in ("string", "list"):
        return PW
    if k in ("record", "tuple"):
        a = 1
        for f in fields_of(t):
            a = max(a, align(f))
        return a
    if k in ("variant", "enum", "option", "result"):
        cs = cases_of(t)
        a = disc_size(len(cs))
        for c in cs:
            if c is not None:
                a = max(a, align(c))
        return a
    if k == "flags":
        n = len(t.members)
        return 1 if n <= 8 else 2 if n <= 16 else 4
    if k in ("own", "borrow"):
        return 4
    raise ValueError(k)


def size(t):
    k = t.kind
    if k == "prim":
        return PRIM_SIZE[t.name]
    if k in ("string", "list"):
        return 2 * PW
    if k in ("record", "tuple"):
        s = 0
        for f in fields_of(t):
            s = align_to(s, align(f)) + size(f)
        return align_to(s, align(t))
    if k in ("variant", "enum", "option", "result"):
        cs = cases_of(t)
        s = payload_offset(t)
        m = 0
        for c in cs:
            if c is not None:
                m = max(m, size(c))
        return align_to(s + m, align(t))
    if k == "flags":
        n = len(t.members)
        return 1 if n <= 8 else 2 if n <= 16 else 4 * flags_words(t)
    if k in ("own", "borrow"):
        return 4
    raise ValueError(k)


def field_offsets(t):
    offs, s = [], 0
    for f in fields_of(t):
        s = align_to(s, align(f))
        offs.append(s)
        s += size(f)
    return offs


def payload_offset(t):
    cs = cases_of(t)
    a = 1
    for c in cs:
        if c is not None:
            a = max(a, align(c))
    return align_to(disc_size(len(cs)), a)


def width(core):
    return 32 if core in ("i32", "f32") else 64


def join(a, b):
    if a == b:
        return a
    if {a, b} == {"i32", "f32"}:
        return "i32"
    return "i64"


def flat(t):
    k = t.kind
    if k == "prim":
        return [PRIM_FLAT[t.name]]
    if k in ("string", "list"):
        return ["ptr", "len"]
    if k in ("record", "tuple"):
        out = []
        for f in fields_of(t):
            out += flat(f)
        return out
    if k in ("variant", "enum", "option", "result"):
        out = []
        for c in cases_of(t):
            if c is None:
                continue
            for i, ft in enumerate(flat(c)):
                if i < len(out):
                    out[i] = join(out[i], ft)
                else:
                    out.append(ft)
        return ["i32"] + out
    if k == "flags":
        return ["i32"] * flags_words(t)
    if k in ("own", "borrow"):
        return ["i32"]
    raise ValueError(k)


def flat_params(param_types):
    f = []
    for p in param_types:
        f += flat(p)
    return f
