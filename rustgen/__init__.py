"""E5 rustgen: Kani over the real generated Rust bindings (C05, C06, C07).

wtypes.py   WIT type model, WIT text, Rust naming conventions of the backend
spec.py     independently written canonical-ABI reference at pointer width 8
            (alignment, size, discriminant size, payload offset, flattening + join)
hgen.py     harness generator: inputs + reference decode, Rust-value view,
            kani::any()-built results + reference encode, heap ledger, handle ledger
corpus.py   enumerated worlds (type classes) and generator option matrix
kani.py     cargo-kani runner: worker slots, per-harness cache, output parser, playback
"""
