#!/usr/bin/env python3
"""Mutation self-test of the rustgen engine.

Hand-made breaking mutations are applied to a SCRATCH COPY of the repository
(git worktree at /tmp/wt_rustgen, never /repo); for each one the relevant check is run
with VERIF_REPO pointing there and the output is scanned for a VIOLATION whose role is
not one the unchanged tree already produces.

  python3 /verif/rustgen/selftest.py [--only M1,M4] [--baseline]
"""
import json
import os
import re
import subprocess
import sys
import time

WT = "/tmp/wt_rustgen"
OUT = "/verif/work/rustgen/mut"
B = "crates/rust/src/bindgen.rs"
L = "crates/rust/src/lib.rs"
A = "crates/core/src/abi.rs"

LISTLIFT_DEALLOC = '''                results.push(result);
                let dealloc = self.r#gen.path_to_cabi_dealloc();
                self.push_str(&format!(
                    "{dealloc}({base}, {len} * {size}, {align});\\n",
                    size = size.format(POINTER_SIZE_EXPRESSION),
                    align = align.format(POINTER_SIZE_EXPRESSION)
                ));
            }

            Instruction::MapLift'''

MUTATIONS = [
    ("M1", "C06", "ListLift without the cabi_dealloc of the incoming buffer (leak)", [
        (B, LISTLIFT_DEALLOC, '''                results.push(result);
            }

            Instruction::MapLift''')]),
    ("M2", "C06", "ListLift frees the incoming buffer twice (double free)", [
        (B, LISTLIFT_DEALLOC, LISTLIFT_DEALLOC.replace('''                ));
            }

            Instruction::MapLift''', '''                ));
                self.push_str(&format!(
                    "{dealloc}({base}, {len} * {size}, {align});\\n",
                    size = size.format(POINTER_SIZE_EXPRESSION),
                    align = align.format(POINTER_SIZE_EXPRESSION)
                ));
            }

            Instruction::MapLift'''))]),
    ("M3", "C06", "StringLower with realloc forgets mem::forget (double free after post-return)", [
        (B, '''                self.push_str(&format!("let {len} = {val}.len();\\n"));
                if realloc.is_some() {
                    self.push_str(&format!("::core::mem::forget({val});\\n"));
                }
                results.push(format!("{ptr}.cast_mut()"));
                results.push(len);
            }

            Instruction::StringLift''', '''                self.push_str(&format!("let {len} = {val}.len();\\n"));
                results.push(format!("{ptr}.cast_mut()"));
                results.push(len);
            }

            Instruction::StringLift''')]),
    ("M4", "C05", "VariantLift matches the wrong discriminant (first two cases of a >= 3-case variant swapped)", [
        (B, '''                        uwriteln!(self.src, "{i} => {{");
                    }
                    let case_name = case.name.to_upper_camel_case();
                    if case.ty.is_none() {
                        uwriteln!(self.src, "{name}::{case_name}");''', '''                        uwriteln!(self.src, "{} => {{", (i + 1) % (variant.cases.len() - 1));
                    }
                    let case_name = case.name.to_upper_camel_case();
                    if case.ty.is_none() {
                        uwriteln!(self.src, "{name}::{case_name}");''')]),
    ("M5", "C05", "FlagsLower drops the second word", [
        (B, '''                    results.push(format!("(flags{}.bits() >> {}) as i32", tmp, i * 32));''',
            '''                    results.push(if i == 0 { format!("(flags{}.bits() >> {}) as i32", tmp, i * 32) } else { "0i32".to_string() });''')]),
    ("M6", "C06", "post-return (GuestDeallocateList) computes the byte size with the wrong element size", [
        (B, '''                let dealloc = self.r#gen.path_to_cabi_dealloc();
                self.push_str(&format!(
                    "{dealloc}({base}, {len} * {size}, {align});\\n",
                    size = size.format(POINTER_SIZE_EXPRESSION),
                    align = align.format(POINTER_SIZE_EXPRESSION)
                ));
            }

            Instruction::GuestDeallocateMap''', '''                let dealloc = self.r#gen.path_to_cabi_dealloc();
                self.push_str(&format!(
                    "{dealloc}({base}, {len} * 2 * {size}, {align});\\n",
                    size = size.format(POINTER_SIZE_EXPRESSION),
                    align = align.format(POINTER_SIZE_EXPRESSION)
                ));
            }

            Instruction::GuestDeallocateMap''')]),
    ("M7", "C07", "Resource::drop calls the destructor even after take_handle", [
        (L, '''                u32::MAX => {}

                // ... but otherwise do actually destroy it''', '''                u32::MAX => T::drop(u32::MAX),

                // ... but otherwise do actually destroy it''')]),
    ("M8", "C06", "the indirect parameter area is never freed (GuestDeallocate dropped)", [
        (B, '''                self.push_str(&format!(
                    "{dealloc}({op}, {size}, {align});\\n",
                    op = operands[0],''', '''                self.push_str(&format!(
                    "let _ = ({op}, {size}, {align});\\n",
                    op = operands[0],''')]),
    ("M9", "C07", "HandleLower of an own handle uses handle() instead of take_handle() (handle returned AND dropped)", [
        (B, '''                let result = format!("({op}).take_handle() as i32");
                results.push(result);
            }

            Instruction::HandleLower {
                handle: Handle::Borrow(_),''', '''                let result = format!("({op}).handle() as i32");
                results.push(result);
            }

            Instruction::HandleLower {
                handle: Handle::Borrow(_),''')]),
    # (abi.rs `MAX_FLAT_PARAMS 16 -> 17` was tried first: an EQUIVALENT mutant for the generated text -- wit-parser's
    #  wasm_signature decides indirect parameters -- identical w.rs, every harness a cache hit)
    ("M10", "C05", "shared generator (abi.rs): variant payload written at the discriminant's offset instead of the payload offset", [
        (A, "                self.write_to_memory(ty, addr.clone(), payload_offset);",
            "                self.write_to_memory(ty, addr.clone(), offset);")]),
    ("M11", "C05", "cast I64ToF32 keeps the high half (f32 payload read from the wrong half of a joined i64 slot)", [
        (L, '''        Bitcast::I64ToF32 => format!("f32::from_bits({operand} as u32)"),''',
            '''        Bitcast::I64ToF32 => format!("f32::from_bits(({operand} >> 32) as u32)"),''')]),
    ("M13", "C05", "revert of 64f76dd: FlagsLift sign-extends each core word of a > 32-member flags value", [
        (B, '''" | {name}::from_bits_retain((({op} as u32 as {repr}) << {}) as _)",''',
            '''" | {name}::from_bits_retain((({op} as {repr}) << {}) as _)",''')]),
    ("M12", "C06", "cabi_dealloc runtime item frees with alignment 1 regardless of the request", [
        (L, '''        let layout = alloc::Layout::from_size_align_unchecked(size, align);
        alloc::dealloc(ptr, layout);''', '''        let layout = alloc::Layout::from_size_align_unchecked(size, 1);
        alloc::dealloc(ptr, layout);''')]),
]


def sh(cmd, **kw):
    return subprocess.run(cmd, shell=isinstance(cmd, str), stdout=subprocess.PIPE, stderr=subprocess.STDOUT, text=True, **kw)


PLAYBACK_FOR = {"M1", "M3"}   # concrete playback (slow: full trace + native build) only for these; Kani's verdict decides 'caught'


def run_check(prop, tag):
    env = dict(os.environ, VERIF_REPO=WT, VERIF_EVIDENCE_DIR="/verif/work/mut_evidence")
    if tag not in PLAYBACK_FOR:
        env["VERIF_RUSTGEN_NO_PLAYBACK"] = "1"
    t0 = time.time()
    before = set(os.listdir("/verif/replays")) if os.path.isdir("/verif/replays") else set()
    p = sh(["/verif/check", prop], env=env)
    # replays of MUTANTS do not belong into /verif/replays: move what this run wrote next to its output
    if tag != "baseline" and os.path.isdir("/verif/replays"):
        dst = os.path.join(OUT, "replays_" + tag)
        os.makedirs(dst, exist_ok=True)
        for f in set(os.listdir("/verif/replays")) - before:
            os.replace(os.path.join("/verif/replays", f), os.path.join(dst, f))
    with open(os.path.join(OUT, "%s_%s.out" % (tag, prop)), "w") as f:
        f.write(p.stdout)
    roles = re.findall(r"^\s*role=(\S.*)$", p.stdout, re.M)
    incon = re.findall(r"^INCONCLUSIVE .*$", p.stdout, re.M)
    res = re.search(r"^RESULT .*$", p.stdout, re.M)
    return {"rc": p.returncode, "roles": roles, "inconclusive": incon[:5], "result": res.group(0) if res else p.stdout[-400:],
            "seconds": round(time.time() - t0)}


def seeded(ids):
    """bugs seeded by independent agents: /verif/seeded/<id>/patch.diff applied to the scratch copy; property = id prefix"""
    os.makedirs(OUT, exist_ok=True)
    sh("git -C %s checkout -- ." % WT)
    rp = os.path.join(OUT, "seeded_report.json")
    report = json.load(open(rp)) if os.path.exists(rp) else {}
    if "baseline" not in report:
        PLAYBACK_FOR.add("baseline")
        report["baseline"] = {p: run_check(p, "baseline") for p in ("C05", "C06", "C07")}
        json.dump(report, open(rp, "w"), indent=1)
    for sid in ids:
        prop = sid.split("-")[0]
        a = sh("git -C %s apply /verif/seeded/%s/patch.diff" % (WT, sid))
        if a.returncode != 0:
            report[sid] = {"error": "patch does not apply: " + a.stdout[-200:]}
        else:
            PLAYBACK_FOR.add("seed_" + sid)
            r = run_check(prop, "seed_" + sid)
            base = set(report["baseline"][prop]["roles"])
            r.update(property=prop, new_roles=sorted(set(x for x in r["roles"] if x not in base)))
            r["caught"] = bool(r["new_roles"])
            report[sid] = r
        sh("git -C %s checkout -- ." % WT)
        json.dump(report, open(rp, "w"), indent=1)
        print(sid, json.dumps(report[sid])[:700], flush=True)


def main():
    if "--seeded" in sys.argv:
        return seeded(sys.argv[sys.argv.index("--seeded") + 1].split(","))
    os.makedirs(OUT, exist_ok=True)
    only = None
    for a in sys.argv[1:]:
        if a.startswith("--only"):
            only = set(sys.argv[sys.argv.index(a) + 1].split(",")) if a == "--only" else set(a.split("=", 1)[1].split(","))
    assert os.path.isdir(WT), "create the scratch copy first: git -C /repo worktree add --detach %s HEAD" % WT
    sh("git -C %s checkout -- ." % WT)
    report = {}
    rp = os.path.join(OUT, "report.json")
    if os.path.exists(rp):
        report = json.load(open(rp))
    if "--baseline" in sys.argv or "baseline" not in report:
        report["baseline"] = {p: run_check(p, "baseline") for p in ("C05", "C06", "C07")}
        json.dump(report, open(rp, "w"), indent=1)
    base_roles = {p: set(report["baseline"][p]["roles"]) for p in report["baseline"]}
    for mid, prop, what, edits in MUTATIONS:
        if only and mid not in only:
            continue
        ok = True
        for path, old, new in edits:
            full = os.path.join(WT, path)
            s = open(full).read()
            if s.count(old) != 1:
                report[mid] = {"what": what, "error": "anchor text found %d times in %s" % (s.count(old), path)}
                ok = False
                break
            open(full, "w").write(s.replace(old, new))
        if ok:
            r = run_check(prop, mid)
            new_roles = [x for x in r["roles"] if x not in base_roles.get(prop, set())]
            r.update(what=what, property=prop, new_roles=new_roles, caught=bool(new_roles),
                     diff=sh("git -C %s diff --stat" % WT).stdout.strip().split("\n")[-1])
            report[mid] = r
        sh("git -C %s checkout -- ." % WT)
        json.dump(report, open(rp, "w"), indent=1)
        print(mid, json.dumps(report[mid])[:600], flush=True)
    sh("git -C %s checkout -- ." % WT)


if __name__ == "__main__":
    main()
