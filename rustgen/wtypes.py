"""WIT type model used by the rustgen corpus.

Names are restricted to lower-case kebab words so that the Rust backend's naming
(UpperCamel types/cases, snake fields, SHOUTY flags) is a trivial function.
"""
from __future__ import annotations

PRIMS = ["bool", "u8", "s8", "u16", "s16", "u32", "s32", "u64", "s64", "f32", "f64", "char"]


class Ty:
    def __init__(self, kind, **kw):
        self.kind = kind
        self.__dict__.update(kw)

    def __repr__(self):
        return "Ty(%s)" % wit(self)


class Res:
    """A resource type: name, whether this component exports (implements) it.
    alias_of: `type <name> = <alias_of.name>;` -- the same resource reached through an alias"""
    def __init__(self, name, exported, alias_of=None):
        self.name = name
        self.exported = exported
        self.alias_of = alias_of

    @property
    def root(self):
        return self.alias_of.root if self.alias_of else self


def alias(name, t):
    """`type <name> = <t>` declared in the separate interface `tys` and `use`d by the interfaces that mention it"""
    a = Ty(t.kind, **{k: v for k, v in t.__dict__.items() if k != "kind"})
    a.alias_name = name
    return a


def prim(n):
    assert n in PRIMS, n
    return Ty("prim", name=n)


def record(name, fields):
    return Ty("record", name=name, fields=list(fields))


def tup(*items):
    return Ty("tuple", items=list(items))


def enum(name, cases):
    return Ty("enum", name=name, cases=list(cases))


def flags(name, members):
    return Ty("flags", name=name, members=list(members))


def variant(name, cases):
    return Ty("variant", name=name, cases=list(cases))


def option(t):
    return Ty("option", t=t)


def result(ok, err):
    return Ty("result", ok=ok, err=err)


def lst(t):
    return Ty("list", t=t)


def mapty(k, v):
    """map<K, V>: only used by the concrete-length template harnesses (no generic view/build support)"""
    return Ty("map", k=k, v=v)


STRING = Ty("string")


def own(res):
    return Ty("own", res=res)


def borrow(res):
    return Ty("borrow", res=res)


for _p in PRIMS:
    globals()[_p.upper()] = prim(_p)


def wit(t, raw=False) -> str:
    k = t.kind
    if getattr(t, "alias_name", None) and not raw:
        return t.alias_name
    if k == "prim":
        return t.name
    if k in ("record", "enum", "flags", "variant"):
        return t.name
    if k == "tuple":
        return "tuple<%s>" % ", ".join(wit(x) for x in t.items)
    if k == "option":
        return "option<%s>" % wit(t.t)
    if k == "result":
        if t.ok is None and t.err is None:
            return "result"
        if t.err is None:
            return "result<%s>" % wit(t.ok)
        return "result<%s, %s>" % ("_" if t.ok is None else wit(t.ok), wit(t.err))
    if k == "list":
        return "list<%s>" % wit(t.t)
    if k == "map":
        return "map<%s, %s>" % (wit(t.k), wit(t.v))
    if k == "string":
        return "string"
    if k == "own":
        return t.res.name
    if k == "borrow":
        return "borrow<%s>" % t.res.name
    raise ValueError(k)


def children(t):
    k = t.kind
    if k == "record":
        return [f for _, f in t.fields]
    if k == "tuple":
        return t.items
    if k == "variant":
        return [c for _, c in t.cases if c is not None]
    if k == "option":
        return [t.t]
    if k == "result":
        return [x for x in (t.ok, t.err) if x is not None]
    if k == "list":
        return [t.t]
    if k == "map":
        return [t.k, t.v]
    return []


def aliases(t, out: dict):
    """{alias name: WIT text of the aliased type} for every `alias()` reachable from t"""
    for c in children(t):
        aliases(c, out)
    if getattr(t, "alias_name", None):
        out.setdefault(t.alias_name, wit(t, raw=True))


def decls(t, out: dict):
    """Collect named type declarations (WIT text) in dependency order."""
    for c in children(t):
        decls(c, out)
    k = t.kind
    if getattr(t, "alias_name", None):
        return
    if k == "record":
        out.setdefault(t.name, "record %s { %s }" % (t.name, ", ".join("%s: %s" % (n, wit(f)) for n, f in t.fields)))
    elif k == "enum":
        out.setdefault(t.name, "enum %s { %s }" % (t.name, ", ".join(t.cases)))
    elif k == "flags":
        out.setdefault(t.name, "flags %s { %s }" % (t.name, ", ".join(t.members)))
    elif k == "variant":
        out.setdefault(t.name, "variant %s { %s }" % (t.name, ", ".join(
            n if c is None else "%s(%s)" % (n, wit(c)) for n, c in t.cases)))


def resources(t, out: dict):
    for c in children(t):
        resources(c, out)
    if t.kind in ("own", "borrow"):
        out.setdefault(t.res.name, t.res)


def has_heap(t) -> bool:
    if t.kind in ("list", "string", "map"):
        return True
    return any(has_heap(c) for c in children(t))


def has_handles(t) -> bool:
    if t.kind in ("own", "borrow"):
        return True
    return any(has_handles(c) for c in children(t))


# ---- Rust naming conventions of the backend (heck) for our restricted names ----
def camel(n):
    return "".join(p[:1].upper() + p[1:] for p in n.split("-"))


def snake(n):
    return n.replace("-", "_")


def shouty(n):
    return n.replace("-", "_").upper()
