"""Harness generator for the rustgen engine.

For one exported function `f(p0: T0, ...) -> R` of a generated bindings module
this emits a `#[kani::proof]` that plays the host:

  inputs        every flat core argument is a `kani::any()` 64-bit pattern
                (converted to the Rust type of the generated `_export_f_cabi`
                parameter); list/string/indirect-parameter memory is allocated
                with the global allocator, as a host does through cabi_realloc,
                and filled with `kani::any()` bytes.
  reference     `mat_*` below is at the same time the *reference decode* of those
                bits (spec.py layout, lifting rules of the canonical ABI);
                `check_*` is the reference *encode* of the value the user returns.
                Neither looks at the generated bindings.
  observation   a recording `Guest` impl; `view` destructures the Rust value it
                received into leaf words (u64), `build` constructs the value it
                returns from `kani::any()` leaves.
  C05           reference-decode(inputs) == view(received);  flat result /
                return-area bytes == reference-encode(returned)
  C06           heap ledger (allocator entry points stubbed by recording shims)
  C07           handle ledger fed by the resource intrinsics (generator hook)

A value ("Val") is a Python tree whose leaves are Rust expressions of type u64:
  ('leaf', expr)                    scalar: mathematical value mod 2^64 (signed types
                                    sign-extended, floats as bit patterns, char as scalar value)
  ('rec', [Val])                    record / tuple / flags (one leaf per 32-bit word)
  ('var', disc, [Val|None])         variant / enum / option / result
  ('list', len, [Val] * bound)      list / string (element i meaningful iff i < len)
  ('opaque',)                       nothing observable (borrow of an exported resource)
"""
from __future__ import annotations

import re

from . import spec
from .wtypes import camel, snake, shouty


def g_and(a, b):
    if a == "true":
        return b
    if b == "true":
        return a
    return "(%s) && (%s)" % (a, b)


def mask_bits(n):
    return "0x%x" % ((1 << n) - 1)


class Ctx:
    def __init__(self, opts, L, S, mod="m"):
        self.opts = opts
        self.L = L
        self.S = S
        self.mod = mod
        self.n = 0
        self.lines = []
        self.assumes = set()
        self.ptr_over = {}      # slot name -> [(guard, ptrvar)]
        self.own_in = []        # (guard, leaf expr, res)
        self.borrow_in = []     # (guard, leaf expr, res)   borrows of imported resources
        self.own_out = []       # (guard, leaf expr, res)
        self.in_bufs = []       # (guard, lenvar)  argument buffers handed in
        self.out_bufs = []      # (guard expr) result buffers expected to be live until post-return
        self.covers = []
        self.fixed = False      # lists get the CONCRETE length L (nested heap data is only affordable that way)

    def fresh(self, p):
        self.n += 1
        return "%s%d" % (p, self.n)

    def emit(self, s):
        self.lines.append(s)

    def assume(self, guard, cond, what):
        self.assumes.add(what)
        if guard == "true":
            self.emit("kani::assume(%s);" % cond)
        else:
            self.emit("kani::assume(!(%s) || (%s));" % (guard, cond))


# --------------------------------------------------------------------------
# scalar rules of the canonical ABI (lifting from raw bits `x`, already reduced
# to the scalar's own flat width / memory width)
# --------------------------------------------------------------------------
def prim_leaf(ctx, name, x, guard, bits):
    """bits = number of significant bits available in x (32/64 flat, 8*size in memory)"""
    if name == "bool":
        v = "(%s & %s)" % (x, mask_bits(min(bits, 32)))
        # spec lifts any non-zero value to true; the bindings (debug assertions) trap on anything but 0/1
        ctx.assume(guard, "%s <= 1" % v, "bool encodings are 0 or 1 (spec lifting accepts any non-zero value as true; "
                   "the generated bool_lift traps on other values under debug assertions)")
        return v
    if name == "char":
        v = "(%s & 0xffffffff)" % x
        ctx.assume(guard, "valid_char(%s)" % v, "char encodings are Unicode scalar values (spec traps otherwise)")
        return v
    if name in spec.SIGNED:
        return "sx(%s, %d)" % (x, spec.SIGNED[name])
    if name in ("u8", "u16", "u32"):
        return "(%s & %s)" % (x, mask_bits(8 * spec.PRIM_SIZE[name]))
    if name == "f32":
        return "(%s & 0xffffffff)" % x
    return "(%s)" % x  # u64, f64


def handle_leaf(ctx, t, x, guard):
    v = "(%s & 0xffffffff)" % x
    ctx.assume(guard, "%s != 0 && %s != 0xffffffff" % (v, v),
               "handle indices are non-zero table indices below u32::MAX (Resource::from_handle debug_asserts this)")
    if t.kind == "own":
        ctx.own_in.append((guard, v, t.res))
    elif not t.res.exported:
        ctx.borrow_in.append((guard, v, t.res))
    return v


def flags_mask(t, w):
    n = len(t.members) - 32 * w
    return mask_bits(max(0, min(32, n)))


# --------------------------------------------------------------------------
# inputs + reference decode
# --------------------------------------------------------------------------
def mat_flat(ctx, t, slots, guard):
    k = t.kind
    if k == "prim":
        (s, core), = slots
        own = spec.PRIM_FLAT[t.name]
        x = "(%s & 0xffffffff)" % s if spec.width(own) == 32 else s
        return ("leaf", prim_leaf(ctx, t.name, x, guard, spec.width(own)))
    if k in ("own", "borrow"):
        (s, core), = slots
        if k == "borrow" and t.res.exported:
            return ("opaque",)
        return ("leaf", handle_leaf(ctx, t, s, guard))
    if k in ("record", "tuple"):
        out, i = [], 0
        for f in spec.fields_of(t):
            n = len(spec.flat(f))
            out.append(mat_flat(ctx, f, slots[i:i + n], guard))
            i += n
        return ("rec", out)
    if k == "flags":
        return ("rec", [("leaf", "(%s & %s)" % (s, flags_mask(t, w))) for w, (s, _) in enumerate(slots)])
    if k in ("variant", "enum", "option", "result"):
        cs = spec.cases_of(t)
        d = "(%s & 0xffffffff)" % slots[0][0]
        ctx.assume(guard, "%s < %d" % (d, len(cs)), "discriminants are in range (spec traps otherwise)")
        vals = []
        for i, c in enumerate(cs):
            if c is None:
                vals.append(None)
            else:
                n = len(spec.flat(c))
                vals.append(mat_flat(ctx, c, slots[1:1 + n], g_and(guard, "%s == %d" % (d, i))))
        return ("var", d, vals)
    if k in ("list", "string"):
        (sp, _), (sl, _) = slots
        n, ptr, val = alloc_list(ctx, t, guard)
        if guard == "true":
            ctx.emit("%s = %s as u64;" % (sl, n))
        else:
            ctx.emit("if %s { %s = %s as u64; }" % (guard, sl, n))
        ctx.ptr_over.setdefault(sp, []).append((guard, ptr))
        return val
    raise ValueError(k)


def elem_info(t):
    if t.kind == "string":
        return None, 1, 1
    return t.t, spec.size(t.t), spec.align(t.t)


def alloc_list(ctx, t, guard):
    """Allocate (as the host would through cabi_realloc) and fill one list/string buffer."""
    et, esz, eal = elem_info(t)
    bound = ctx.S if t.kind == "string" else ctx.L
    n, ab, ptr = ctx.fresh("n"), ctx.fresh("ab"), ctx.fresh("ptr")
    if ctx.fixed and t.kind == "list":
        ctx.emit("let %s: usize = %d;" % (n, bound))
    else:
        ctx.emit("let %s: usize = kani::any(); kani::assume(%s <= %d);" % (n, n, bound))
    ctx.emit("let %s: [u8; %d] = kani::any();" % (ab, bound * esz))
    # zero-length: any aligned non-null pointer (cabi_realloc returns `align` itself for a zero-size request)
    ctx.emit("let mut %s: *mut u8 = %d as *mut u8;" % (ptr, eal))
    ctx.emit("if %s { %s = hal::alloc::alloc(Layout::from_size_align_unchecked(%s * %d, %d)); "
             "core::ptr::copy_nonoverlapping(%s.as_ptr(), %s, %s * %d); }"
             % (g_and(guard, "%s > 0" % n), ptr, n, esz, eal, ab, ptr, n, esz))
    ctx.in_bufs.append((guard, n))
    if t.kind == "string":
        ctx.assume(guard, "utf8_ok(&%s, %s)" % (ab, n), "string arguments are valid UTF-8 (spec traps otherwise)")
        vals = [("leaf", "(%s[%d] as u64)" % (ab, i)) for i in range(bound)]
    else:
        vals = [mat_mem(ctx, et, ab, i * esz, g_and(guard, "%s > %d" % (n, i)), ptr) for i in range(bound)]
    return n, ptr, ("list", "(%s as u64)" % n, vals)


def mat_mem(ctx, t, arr, off, guard, bufptr):
    k = t.kind
    if k == "prim":
        sz = spec.PRIM_SIZE[t.name]
        return ("leaf", prim_leaf(ctx, t.name, "ld(&%s, %d, %d)" % (arr, off, sz), guard, 8 * sz))
    if k in ("own", "borrow"):
        if k == "borrow" and t.res.exported:
            return ("opaque",)
        return ("leaf", handle_leaf(ctx, t, "ld(&%s, %d, 4)" % (arr, off), guard))
    if k in ("record", "tuple"):
        return ("rec", [mat_mem(ctx, f, arr, off + o, guard, bufptr)
                        for f, o in zip(spec.fields_of(t), spec.field_offsets(t))])
    if k == "flags":
        n = len(t.members)
        if n <= 16:
            return ("rec", [("leaf", "(ld(&%s, %d, %d) & %s)" % (arr, off, spec.size(t), flags_mask(t, 0)))])
        return ("rec", [("leaf", "(ld(&%s, %d, 4) & %s)" % (arr, off + 4 * w, flags_mask(t, w)))
                        for w in range(spec.flags_words(t))])
    if k in ("variant", "enum", "option", "result"):
        cs = spec.cases_of(t)
        d = "ld(&%s, %d, %d)" % (arr, off, spec.disc_size(len(cs)))
        ctx.assume(guard, "%s < %d" % (d, len(cs)), "discriminants are in range (spec traps otherwise)")
        po = spec.payload_offset(t)
        return ("var", d, [None if c is None else mat_mem(ctx, c, arr, off + po, g_and(guard, "%s == %d" % (d, i)), bufptr)
                           for i, c in enumerate(cs)])
    if k in ("list", "string"):
        n, ptr, val = alloc_list(ctx, t, guard)
        # patch the real (pointer, length) pair into the enclosing buffer
        ctx.emit("if %s { *(%s.add(%d) as *mut *mut u8) = %s; *(%s.add(%d) as *mut usize) = %s; }"
                 % (guard, bufptr, off, ptr, bufptr, off + spec.PW, n))
        return val
    raise ValueError(k)


# --------------------------------------------------------------------------
# view of a Rust value (what the user's function received)
# --------------------------------------------------------------------------
def rust_path(ctx, t):
    return "%s::%s" % (ctx.mod, camel(t.name))


def view(ctx, t, e, decls):
    """e: Rust expression of type &T.  Leaves are assigned to hoisted `let mut` u64 variables."""
    k = t.kind

    def leaf(expr):
        v = ctx.fresh("v")
        decls.append("let mut %s: u64 = 0;" % v)
        ctx.emit("%s = %s;" % (v, expr))
        return v

    if k == "prim":
        n = t.name
        if n in spec.SIGNED:
            return ("leaf", leaf("(*%s) as i64 as u64" % e))
        if n in ("f32", "f64"):
            return ("leaf", leaf("(*%s).to_bits() as u64" % e))
        if n == "char":
            return ("leaf", leaf("(*%s) as u32 as u64" % e))
        return ("leaf", leaf("(*%s) as u64" % e))
    if k == "own":
        return ("leaf", leaf("(*%s).handle() as u64" % e))
    if k == "borrow":
        if t.res.exported:
            return ("opaque",)
        return ("leaf", leaf("(**%s).handle() as u64" % e))
    if k == "record":
        return ("rec", [view(ctx, f, "(&(*%s).%s)" % (e, snake(n)), decls) for n, f in t.fields])
    if k == "tuple":
        return ("rec", [view(ctx, f, "(&(*%s).%d)" % (e, i), decls) for i, f in enumerate(t.items)])
    if k == "flags":
        words = []
        for w in range(spec.flags_words(t)):
            terms = ["(((((*%s).bits() & %s::%s.bits()) != 0) as u64) << %d)" % (e, rust_path(ctx, t), shouty(m), i - 32 * w)
                     for i, m in enumerate(t.members) if 32 * w <= i < 32 * w + 32]
            words.append(("leaf", leaf(" | ".join(terms))))
        return ("rec", words)
    if k in ("variant", "enum", "option", "result"):
        d = ctx.fresh("d")
        decls.append("let mut %s: u64 = 0;" % d)
        cs = spec.cases_of(t)
        if k == "variant":
            pats = ["%s::%s" % (rust_path(ctx, t), camel(n)) for n, _ in t.cases]
        elif k == "enum":
            pats = ["%s::%s" % (rust_path(ctx, t), camel(n)) for n in t.cases]
        elif k == "option":
            pats = ["None", "Some"]
        else:
            pats = ["Ok", "Err"]
        ctx.emit("match %s {" % e)
        vals = []
        for i, c in enumerate(cs):
            if c is None:
                pat = pats[i] + ("(_)" if k == "result" else "")
                ctx.emit("  %s => { %s = %d; }" % (pat, d, i))
                vals.append(None)
            else:
                p = ctx.fresh("p")
                ctx.emit("  %s(%s) => { %s = %d;" % (pats[i], p, d, i))
                vals.append(view(ctx, c, p, decls))
                ctx.emit("  }")
        ctx.emit("}")
        return ("var", d, vals)
    if k == "list":
        n = leaf("(*%s).len() as u64" % e)
        vals = []
        for i in range(ctx.L):
            q = ctx.fresh("q")
            ctx.emit("if (*%s).len() > %d { let %s = &(*%s)[%d];" % (e, i, q, e, i))
            vals.append(view(ctx, t.t, q, decls))
            ctx.emit("}")
        return ("list", n, vals)
    if k == "string":
        bs = ctx.fresh("bs")
        ctx.emit("let %s: &[u8] = (*%s).as_ref();" % (bs, e))
        n = leaf("%s.len() as u64" % bs)
        vals = []
        for i in range(ctx.S):
            vals.append(("leaf", leaf("if %s.len() > %d { %s[%d] as u64 } else { 0 }" % (bs, i, bs, i))))
        return ("list", n, vals)
    raise ValueError(k)


# --------------------------------------------------------------------------
# the user's return value, built from kani::any() leaves
# --------------------------------------------------------------------------
RUST_PRIM = {"bool": "bool", "u8": "u8", "s8": "i8", "u16": "u16", "s16": "i16", "u32": "u32", "s32": "i32",
             "u64": "u64", "s64": "i64", "f32": "f32", "f64": "f64", "char": "char"}


def build(ctx, t, string_is_bytes=False):
    """The user's return value.  Leaf declarations (kani::any + assumptions) are emitted
    into ctx (top level, so that the reference may refer to them); the returned
    constructor lines allocate lazily (only the active case / the first n elements),
    so that nothing but the returned value is ever live.
    returns (ctor_lines, rust expr (moved once), Val)"""
    k = t.kind
    if k == "prim":
        n = t.name
        g = ctx.fresh("g")
        if n == "f32":
            ctx.emit("let %sb: u32 = kani::any(); let %s = f32::from_bits(%sb);" % (g, g, g))
            return [], g, ("leaf", "(%sb as u64)" % g)
        if n == "f64":
            ctx.emit("let %sb: u64 = kani::any(); let %s = f64::from_bits(%sb);" % (g, g, g))
            return [], g, ("leaf", "%sb" % g)
        ctx.emit("let %s: %s = kani::any();" % (g, RUST_PRIM[n]))
        if n in spec.SIGNED:
            return [], g, ("leaf", "(%s as i64 as u64)" % g)
        if n == "char":
            return [], g, ("leaf", "(%s as u32 as u64)" % g)
        return [], g, ("leaf", "(%s as u64)" % g)
    if k == "own":
        h = ctx.fresh("h")
        ctx.emit("let %s: u32 = kani::any(); kani::assume(%s != 0 && %s != u32::MAX);" % (h, h, h))
        ctx.own_out.append(["true", "(%s as u64)" % h, t.res])
        return [], "%s::%s::from_handle(%s)" % (ctx.mod, camel(t.res.name), h), ("leaf", "(%s as u64)" % h)
    if k in ("record", "tuple"):
        parts = [build(ctx, f, string_is_bytes) for f in spec.fields_of(t)]
        lines = [l for p in parts for l in p[0]]
        if k == "record":
            e = "%s { %s }" % (rust_path(ctx, t), ", ".join("%s: %s" % (snake(n), p[1]) for (n, _), p in zip(t.fields, parts)))
        else:
            e = "(%s,)" % ", ".join(p[1] for p in parts)
        return lines, e, ("rec", [p[2] for p in parts])
    if k == "flags":
        g = ctx.fresh("g")
        lines = ["let mut %s = %s::empty();" % (g, rust_path(ctx, t))]
        words = []
        for w in range(spec.flags_words(t)):
            terms = []
            for i, m in enumerate(t.members):
                if 32 * w <= i < 32 * w + 32:
                    b = ctx.fresh("b")
                    ctx.emit("let %s: bool = kani::any();" % b)
                    lines.append("if %s { %s = %s | %s::%s; }" % (b, g, g, rust_path(ctx, t), shouty(m)))
                    terms.append("((%s as u64) << %d)" % (b, i - 32 * w))
            words.append(("leaf", "(%s)" % " | ".join(terms)))
        return lines, g, ("rec", words)
    if k in ("variant", "enum", "option", "result"):
        cs = spec.cases_of(t)
        d = ctx.fresh("gd")
        ctx.emit("let %s: %s = kani::any(); kani::assume((%s as usize) < %d);" % (d, "u8" if len(cs) <= 256 else "u16", d, len(cs)))
        if k == "variant":
            cons = ["%s::%s" % (rust_path(ctx, t), camel(n)) for n, _ in t.cases]
        elif k == "enum":
            cons = ["%s::%s" % (rust_path(ctx, t), camel(n)) for n in t.cases]
        elif k == "option":
            cons = ["None", "Some"]
        else:
            cons = ["Ok", "Err"]
        arms, vals = [], []
        n_own0 = len(ctx.own_out)
        for i, c in enumerate(cs):
            if c is None:
                e = cons[i] + ("(())" if k == "result" else "")
                vals.append(None)
                body = e
            else:
                mark = len(ctx.own_out)
                pl, pe, pv = build(ctx, c, string_is_bytes)
                for o in ctx.own_out[mark:]:
                    o[0] = g_and("%s == %d" % (d, i), o[0])
                vals.append(pv)
                body = "{ %s %s(%s) }" % (" ".join(pl), cons[i], pe)
            arms.append("%s => %s" % (i if i < len(cs) - 1 else "_", body))
        g = ctx.fresh("g")
        return ["let %s = match %s { %s };" % (g, d, ", ".join(arms))], g, ("var", "(%s as u64)" % d, vals)
    if k == "list":
        n, g = ctx.fresh("gn"), ctx.fresh("g")
        if ctx.fixed:
            ctx.emit("let %s: usize = %d;" % (n, ctx.L))
        else:
            ctx.emit("let %s: usize = kani::any(); kani::assume(%s <= %d);" % (n, n, ctx.L))
        lines = ["let mut %s = Vec::new();" % g]
        vals = []
        for i in range(ctx.L):
            mark = len(ctx.own_out)
            pl, pe, pv = build(ctx, t.t, string_is_bytes)
            for o in ctx.own_out[mark:]:
                o[0] = g_and("%s > %d" % (n, i), o[0])
            lines.append("if %s > %d { %s %s.push(%s); }" % (n, i, " ".join(pl), g, pe))
            vals.append(pv)
        return lines, g, ("list", "(%s as u64)" % n, vals)
    if k == "string":
        n, g, bs = ctx.fresh("gn"), ctx.fresh("g"), ctx.fresh("gb")
        ctx.emit("let %s: usize = kani::any(); kani::assume(%s <= %d);" % (n, n, ctx.S))
        ctx.emit("let %s: [u8; %d] = kani::any(); kani::assume(utf8_ok(&%s, %s));" % (bs, ctx.S, bs, n))
        ctx.assumes.add("strings returned by the user are valid UTF-8 (a Rust String invariant)")
        lines = ["let mut %sv: Vec<u8> = Vec::new();" % g]
        for i in range(ctx.S):
            lines.append("if %s > %d { %sv.push(%s[%d]); }" % (n, i, g, bs, i))
        if string_is_bytes:
            lines.append("let %s = %sv;" % (g, g))
        else:
            lines.append("let %s = String::from_utf8_unchecked(%sv);" % (g, g))
        return lines, g, ("list", "(%s as u64)" % n, [("leaf", "(%s[%d] as u64)" % (bs, i)) for i in range(ctx.S)])
    raise ValueError(k)


# --------------------------------------------------------------------------
# reference encode: expected bytes in memory / expected single flat result
# --------------------------------------------------------------------------
def kassert(ctx, guard, cond, label):
    if guard == "true":
        ctx.emit('kani::assert(%s, "%s");' % (cond, label))
    else:
        ctx.emit('kani::assert(!(%s) || (%s), "%s");' % (guard, cond, label))


def check_mem(ctx, t, val, p, off, guard, d):
    """bytes at p+off must be spec.store(val)"""
    k = t.kind
    if val[0] == "opaque":
        return
    if k == "prim" or k in ("own", "borrow"):
        sz = spec.size(t)
        kassert(ctx, guard, "ldp(%s, %d, %d) == (%s & %s)" % (p, off, sz, val[1], mask_bits(8 * sz)),
                "C05|%s|%s" % (d, "handle" if k != "prim" else "value"))
        return
    if k in ("record", "tuple"):
        for f, o, v in zip(spec.fields_of(t), spec.field_offsets(t), val[1]):
            check_mem(ctx, f, v, p, off + o, guard, d)
        return
    if k == "flags":
        n = len(t.members)
        if n <= 16:
            kassert(ctx, guard, "ldp(%s, %d, %d) == %s" % (p, off, spec.size(t), val[1][0][1]), "C05|%s|flags" % d)
        else:
            for w, v in enumerate(val[1]):
                kassert(ctx, guard, "ldp(%s, %d, 4) == %s" % (p, off + 4 * w, v[1]), "C05|%s|flags" % d)
        return
    if k in ("variant", "enum", "option", "result"):
        cs = spec.cases_of(t)
        kassert(ctx, guard, "ldp(%s, %d, %d) == %s" % (p, off, spec.disc_size(len(cs)), val[1]), "C05|%s|disc" % d)
        po = spec.payload_offset(t)
        for i, (c, v) in enumerate(zip(cs, val[2])):
            if c is not None:
                check_mem(ctx, c, v, p, off + po, g_and(guard, "%s == %d" % (val[1], i)), d)
        return
    if k in ("list", "string"):
        et, esz, eal = elem_info(t)
        rp, rl = ctx.fresh("rp"), ctx.fresh("rl")
        ctx.emit("let mut %s: *const u8 = core::ptr::null(); let mut %s: u64 = 0;" % (rp, rl))
        ctx.emit("if %s { %s = *(%s.add(%d) as *const *const u8); %s = ldp(%s, %d, %d); }"
                 % (guard, rp, p, off, rl, p, off + spec.PW, spec.PW))
        kassert(ctx, guard, "%s == %s" % (rl, val[1]), "C05|%s|len" % d)
        ctx.out_bufs.append(g_and(guard, "%s > 0" % val[1]))
        for i, v in enumerate(val[2]):
            gi = g_and(guard, "%s > %d && %s == %s" % (val[1], i, rl, val[1]))
            if t.kind == "string":
                kassert(ctx, gi, "ldp(%s, %d, 1) == %s" % (rp, i, v[1]), "C05|%s|value" % d)
            else:
                check_mem(ctx, et, v, rp, i * esz, gi, d)
        return
    raise ValueError(k)


def check_flat1(ctx, t, val, ret, rty, d):
    """single flat result (MAX_FLAT_RESULTS = 1)"""
    core = spec.flat(t)[0]
    w = spec.width(core)
    bits = {"i32": "(%s as u32 as u64)", "i64": "(%s as u64)", "f32": "(%s.to_bits() as u64)", "f64": "%s.to_bits()"}[rty] % ret
    k = t.kind
    if k == "flags":
        v = val[1][0][1]
    elif k == "enum":
        v = val[1]
    else:
        v = val[1]
    kassert(ctx, "true", "%s == (%s & %s)" % (bits, v, mask_bits(w)),
            "C05|%s|%s" % (d, {"flags": "flags", "enum": "disc", "own": "handle"}.get(k, "value")))


# --------------------------------------------------------------------------
# Val == Val
# --------------------------------------------------------------------------
def eq(ctx, a, b, guard, d):
    if a[0] == "opaque" or b[0] == "opaque":
        return
    assert a[0] == b[0], (a[0], b[0])
    if a[0] == "leaf":
        kassert(ctx, guard, "%s == %s" % (a[1], b[1]), "C05|%s|value" % d)
    elif a[0] == "rec":
        assert len(a[1]) == len(b[1])
        for x, y in zip(a[1], b[1]):
            eq(ctx, x, y, guard, d)
    elif a[0] == "var":
        kassert(ctx, guard, "%s == %s" % (a[1], b[1]), "C05|%s|disc" % d)
        for i, (x, y) in enumerate(zip(a[2], b[2])):
            if x is not None:
                eq(ctx, x, y, g_and(guard, "%s == %d && %s == %d" % (a[1], i, b[1], i)), d)
    elif a[0] == "list":
        kassert(ctx, guard, "%s == %s" % (a[1], b[1]), "C05|%s|len" % d)
        for i, (x, y) in enumerate(zip(a[2], b[2])):
            eq(ctx, x, y, g_and(guard, "%s > %d && %s == %s" % (a[1], i, a[1], b[1])), d)


def interesting_covers(val, out, prefix="in"):
    """cheap vacuity witnesses: last case of each top-level variant, full-length lists"""
    if val[0] == "var":
        out.append(("%s == %d" % (val[1], len(val[2]) - 1), "%s: last case" % prefix))
        if len(val[2]) > 1:
            out.append(("%s == 0" % val[1], "%s: first case" % prefix))
        for i, v in enumerate(val[2]):
            if v is not None and v[0] == "list":
                out.append(("%s == %d && %s == %d" % (val[1], i, v[1], len(v[2])), "%s: full-length list in a case" % prefix))
    elif val[0] == "list":
        out.append(("%s == %d" % (val[1], len(val[2])), "%s: full-length list" % prefix))
        out.append(("%s == 0" % val[1], "%s: empty list" % prefix))
    elif val[0] == "rec":
        for v in val[1][:3]:
            if v[0] != "leaf":
                interesting_covers(v, out, prefix)


# --------------------------------------------------------------------------
# parsing of the generated text (signatures only -- never expressions)
# --------------------------------------------------------------------------
def split_top(s):
    out, depth, cur = [], 0, ""
    for ch in s:
        if ch in "<([":
            depth += 1
        elif ch in ">)]":
            depth -= 1
        if ch == "," and depth == 0:
            if cur.strip():
                out.append(cur.strip())
            cur = ""
        else:
            cur += ch
    if cur.strip():
        out.append(cur.strip())
    return out


def module_text(w_rs, path):
    """text of `pub mod a { pub mod b { ... } }` for path = ['exports','t','p','x'] (brace matching)"""
    pos = 0
    for name in path:
        m = re.compile(r"pub mod %s\s*\{" % re.escape(name)).search(w_rs, pos)
        if not m:
            raise ValueError("module %s not found in generated bindings" % "::".join(path))
        pos = m.end()
    depth, i = 1, pos
    while depth and i < len(w_rs):
        if w_rs[i] == "{":
            depth += 1
        elif w_rs[i] == "}":
            depth -= 1
        i += 1
    return w_rs[pos:i - 1]


def parse_traits(mod_text):
    """{trait name: [(fn name, [(pname, type)], ret|None, has_self)]} for Guest and Guest<Res> traits"""
    out = {}
    for m in re.finditer(r"pub trait (Guest\w*)[^{]*\{", mod_text):
        depth, i = 1, m.end()
        while depth and i < len(mod_text):
            if mod_text[i] == "{":
                depth += 1
            elif mod_text[i] == "}":
                depth -= 1
            i += 1
        body = mod_text[m.end():i - 1]
        fns = []
        for fm in re.finditer(r"\n\s*fn (\w+)\((.*?)\)\s*(?:->\s*([^;{]+?))?\s*;", body, re.S):
            params = []
            has_self = False
            for p in split_top(fm.group(2)):
                if p in ("&self", "self", "&mut self"):
                    has_self = True
                    continue
                pn, pt = p.split(":", 1)
                params.append((pn.strip(), pt.strip()))
            ret = fm.group(3).strip() if fm.group(3) else None
            fns.append((fm.group(1), params, None if ret == "()" else ret, has_self))
        out[m.group(1)] = fns
    return out


def parse_exports(mod_text):
    """{fn: ([(argN, type)], ret|None, trait)} for `_export_<fn>_cabi`, and the set of `__post_return_<fn>`"""
    ex = {}
    for m in re.finditer(r"pub unsafe fn _export_(\w+)_cabi<T_: (\w+)>\((.*?)\)\s*(?:->\s*([^{]+?))?\s*\{", mod_text, re.S):
        ex[m.group(1)] = ([tuple(x.strip() for x in p.split(":", 1)) for p in split_top(m.group(3))],
                          m.group(4).strip() if m.group(4) else None, m.group(2))
    post = set(re.findall(r"pub unsafe fn __post_return_(\w+)<T_: \w+>\(", mod_text))
    return ex, post


CORE_OF_RUST = {"i32": 32, "f32": 32, "i64": 64, "f64": 64, "*mut u8": 64, "usize": 64,
                "::core::mem::MaybeUninit::<u64>": 64, "*const u8": 64}


def arg_expr(ctx, slot, rty):
    over = ctx.ptr_over.get(slot, [])
    if rty in ("*mut u8", "*const u8"):
        e = "(%s as usize as *mut u8)" % slot
        for g, p in reversed(over):
            e = "(if %s { %s } else { %s })" % (g, p, e)
        return e
    if rty == "::core::mem::MaybeUninit::<u64>":
        e = slot
        for g, p in reversed(over):
            e = "(if %s { %s as usize as u64 } else { %s })" % (g, p, e)
        return "::core::mem::MaybeUninit::new(%s)" % e
    if over:
        raise ValueError("list pointer lands in a non-pointer parameter of type %s" % rty)
    return {"i32": "(%s as u32 as i32)", "i64": "(%s as i64)", "f32": "f32::from_bits(%s as u32)",
            "f64": "f64::from_bits(%s)", "usize": "(%s as usize)"}[rty] % slot
