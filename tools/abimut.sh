#!/bin/sh
# usage: tools/abimut.sh <worktree> <file> <sed-expr> <prop> <filter>
# Fast mutation test of the abisym engine: apply a sed mutation in a scratch
# worktree, build abisym against it, run only the programs matching <filter>.
WT=$1; F=$2; EXPR=$3; PROP=$4; FLT=$5
cd "$WT" && git checkout -q -- . && sed -i "$EXPR" "$F"
if git diff --quiet; then echo "MUTATION DID NOT APPLY"; exit 3; fi
cd /verif && VERIF_REPO=$WT python3 -c "
import sys; sys.path.insert(0,'lib'); sys.path.insert(0,'.')
from engines import abisym
r=abisym.build('/verif/work/abisym/bmut.log')
print('build', r[0], r[1][-400:] if r[0] else '')
" && /verif/work/alt/target_alt/release/abisym --prop $PROP --tier quick --jobs 6 --solver z3-new --timeout 120 --out /verif/work/abisym/mut.json --filter "$FLT" && python3 - <<'PY'
import json, collections
d=json.load(open('/verif/work/abisym/mut.json'))
c=collections.Counter(i['status'] for i in d['items'])
print(dict(c))
for i in [i for i in d['items'] if i['status']=='violation'][:3]:
    print('  CAUGHT', i['family'], i['name'][:50], 'p=%s'%i['p'], [f['name'][:90] for f in i.get('failing',[])][:2])
PY
cd "$WT" && git checkout -q -- .
