#!/bin/sh
# usage: tools/seed_eval.sh <worktree> <prop> <n> [check-prop ...]
# Confirms a seeded change produced by an independent sub-agent
# (<worktree>/seed_out/<n>/{patch.diff,run_demo.sh,...}) and runs the /verif
# check(s) against it:
#   1. unmodified worktree: demo passes
#   2. patch applied: existing test suite passes, demo fails
#   3. ./check <prop> with VERIF_REPO=<worktree>: expect exit 1 (VIOLATION)
# Results go to /verif/seeded/<prop>-<n>/ (patch, demo, meta.json, check log).
WT=$1; PROP=$2; N=$3; shift 3
CHECKS=${*:-$PROP}
SD=$WT/seed_out/$N
OUT=/verif/seeded/$PROP-$N
mkdir -p $OUT
cd $WT || exit 2
git checkout -q -- . 2>/dev/null
echo "== demo on unmodified tree"
sh $SD/run_demo.sh > $OUT/demo_without.log 2>&1; D0=$?
echo "   exit $D0"
git checkout -q -- . 2>/dev/null
echo "== apply patch"
git apply $SD/patch.diff || { echo "PATCH DOES NOT APPLY"; exit 3; }
git diff --stat | tail -1
echo "== existing test suite with the change"
cargo test --workspace --offline > $OUT/tests_with.log 2>&1; T=$?
PASSED=$(grep -E "^test result" $OUT/tests_with.log | awk '{s+=$4} END {print s}')
FAILED=$(grep -E "^test result" $OUT/tests_with.log | awk '{s+=$6} END {print s}')
git checkout -q Cargo.lock 2>/dev/null
echo "   cargo test exit $T passed=$PASSED failed=$FAILED"
echo "== demo with the change"
sh $SD/run_demo.sh > $OUT/demo_with.log 2>&1; D1=$?
git checkout -q Cargo.lock 2>/dev/null
echo "   exit $D1"
RES=""
for C in $CHECKS; do
  echo "== ./check $C against the changed tree"
  (cd /verif && VERIF_REPO=$WT VERIF_EVIDENCE_DIR=/verif/work/mut_evidence flock /verif/work/alt.lock ./check $C --tier quick > $OUT/check_$C.log 2>&1; echo $? > $OUT/check_$C.rc)
  RC=$(cat $OUT/check_$C.rc)
  grep -E "^(VIOLATION|RESULT|INCONCLUSIVE)" $OUT/check_$C.log | head -4
  grep -E "^  (role|what)" $OUT/check_$C.log | head -4
  RES="$RES $C:$RC"
done
cp $SD/patch.diff $OUT/patch.diff
cp $SD/meta.txt $OUT/agent_meta.txt 2>/dev/null
rm -rf $OUT/demo; mkdir -p $OUT/demo
(cd $SD && tar cf - --exclude=target --exclude='*.log' . ) | (cd $OUT/demo && tar xf -)
rm -f $OUT/demo/patch.diff
cd $WT && git checkout -q -- .
python3 - "$OUT" "$PROP" "$N" "$D0" "$T" "$PASSED" "$FAILED" "$D1" "$RES" <<'PY'
import json, sys, os
out, prop, n, d0, t, passed, failed, d1, res = sys.argv[1:10]
meta = {
  "property": prop, "seed": n,
  "confirmed": {"demo_without_change_exit": int(d0), "tests_with_change_exit": int(t), "tests_passed": passed, "tests_failed": failed,
                "demo_with_change_exit": int(d1)},
  "valid_seed": int(d0) == 0 and int(t) == 0 and int(d1) != 0,
  "checks_run": {c.split(":")[0]: int(c.split(":")[1]) for c in res.split()},
  "caught": any(int(c.split(":")[1]) == 1 for c in res.split()),
  "what_i_ran": "tools/seed_eval.sh: demo on clean worktree; git apply patch; cargo test --workspace --offline; demo; VERIF_REPO=<worktree> ./check <prop> --tier quick",
  "needs_to_manifest": "see agent_meta.txt (written by the independent sub-agent that produced the change)",
}
json.dump(meta, open(os.path.join(out, "meta.json"), "w"), indent=1)
print("SUMMARY", prop, n, "valid_seed=%s" % meta["valid_seed"], "checks=%s" % meta["checks_run"], "caught=%s" % meta["caught"])
PY
