#!/bin/sh
# usage: tools/seed_recheck.sh <seed-id e.g. C14-1> [check-prop ...]
# Re-runs the /verif check(s) against a stored, already confirmed seeded change
# (/verif/seeded/<id>/patch.diff) in a fresh scratch worktree of /repo HEAD and
# records the outcome in meta.json under "rechecks".
ID=$1; shift
PROP=${ID%%-*}
CHECKS=${*:-$PROP}
WT=/tmp/recheck_$ID
OUT=/verif/seeded/$ID
git -C /repo worktree remove --force $WT 2>/dev/null
git -C /repo worktree add --detach $WT HEAD -q || exit 2
cd $WT && git apply $OUT/patch.diff || { echo "PATCH DOES NOT APPLY to HEAD"; git -C /repo worktree remove --force $WT; exit 3; }
RES=""
for C in $CHECKS; do
  (cd /verif && VERIF_REPO=$WT VERIF_EVIDENCE_DIR=/verif/work/mut_evidence ./check $C --tier quick > $OUT/recheck_$C.log 2>&1; echo $? > $OUT/recheck_$C.rc)
  RC=$(cat $OUT/recheck_$C.rc)
  grep -E "^(VIOLATION|RESULT|INCONCLUSIVE)" $OUT/recheck_$C.log | head -3 | cut -c1-220
  grep -E "^  role" $OUT/recheck_$C.log | head -3
  RES="$RES $C:$RC"
done
cd /verif
git -C /repo worktree remove --force $WT
python3 - "$OUT" "$RES" <<'PY'
import json, sys, os, time
out, res = sys.argv[1:3]
p = os.path.join(out, "meta.json"); m = json.load(open(p))
r = {c.split(":")[0]: int(c.split(":")[1]) for c in res.split()}
m.setdefault("rechecks", []).append({"at": time.strftime("%Y-%m-%d %H:%M"), "repo_head": os.popen("git -C /repo rev-parse --short HEAD").read().strip(), "checks": r})
m["caught"] = m.get("caught") or any(v == 1 for v in r.values())
m["caught_after_strengthening"] = any(v == 1 for v in r.values())
json.dump(m, open(p, "w"), indent=1)
print("RECHECK", os.path.basename(out), r)
PY
