#!/bin/sh
# usage: tools/mutant.sh <worktree> <file> <sed-expr> <prop> [tier]
# applies a sed mutation inside a scratch worktree, runs the check against it
# (VERIF_REPO), prints the result lines and reverts the worktree.
WT=$1; F=$2; EXPR=$3; PROP=$4; TIER=${5:-quick}
cd "$WT" && git checkout -q -- . && sed -i "$EXPR" "$F" && git diff --stat | tail -1
if git diff --quiet; then echo "MUTATION DID NOT APPLY"; exit 3; fi
cd /verif && VERIF_REPO=$WT VERIF_EVIDENCE_DIR=/verif/work/mut_evidence ./check $PROP --tier $TIER 2>&1 | grep -E "^(VIOLATION|KNOWN|RESULT|INCONCLUSIVE|  role|  what)" | head -12
cd "$WT" && git checkout -q -- .
