//! C24 — guest allocation entry points honour size, alignment and contents.
//!
//! Real code: `rt::cabi_realloc` (hook: compiled natively under the guard),
//! `rt::Cleanup::{new, forget, Drop}`, and the `cabi_dealloc` runtime item the
//! Rust backend emits (text extracted from crates/rust/src/lib.rs at run time,
//! see gen_cabi_dealloc.rs).
//!
//! Two kinds of harness:
//!
//! * `*_model`: nothing stubbed; the oracle is Kani/CBMC's allocator model
//!   (contents of `realloc`, double free, free of a non-heap pointer,
//!   `Layout` preconditions, and `--memory-leak-check` for leaks);
//! * `*_ledger`: `alloc::alloc::{alloc, realloc, dealloc}` are replaced by
//!   recording shims and the harness asserts that the `Layout` handed to the
//!   global allocator has exactly the requested size and alignment.  The
//!   alignment of the *returned address* is not observable in CBMC's
//!   object/offset pointer model, so it is delegated to the global
//!   allocator's contract (`GlobalAlloc::alloc` returns a block aligned to
//!   `layout.align()`); that is an assumption of this check.

use core::alloc::Layout;
use core::ptr;
use wit_bindgen::rt::{cabi_realloc, Cleanup};

mod generated {
    use std::alloc;
    include!("gen_cabi_dealloc.rs");
}

const MAXN: usize = 16;

fn any_align() -> usize {
    let k: u32 = kani::any();
    kani::assume(k <= 16);
    1usize << k
}

fn any_size(max: usize) -> usize {
    let n: usize = kani::any();
    kani::assume(n <= max);
    n
}

// ---- recording allocator shims --------------------------------------------

struct Rec {
    /// unique first bytes: see mock_task::Globals
    magic: u64,
    n_alloc: u32,
    a_size: usize,
    a_align: usize,
    a_ptr: *mut u8,
    n_realloc: u32,
    r_old: *mut u8,
    r_size: usize,
    r_align: usize,
    r_new_size: usize,
    r_ptr: *mut u8,
    n_dealloc: u32,
    d_ptr: *mut u8,
    d_size: usize,
    d_align: usize,
}

static mut R: Rec = Rec {
    magic: 0x6332_345f_7265_6300,
    n_alloc: 0,
    a_size: 0,
    a_align: 0,
    a_ptr: ptr::null_mut(),
    n_realloc: 0,
    r_old: ptr::null_mut(),
    r_size: 0,
    r_align: 0,
    r_new_size: 0,
    r_ptr: ptr::null_mut(),
    n_dealloc: 0,
    d_ptr: ptr::null_mut(),
    d_size: 0,
    d_align: 0,
};

/// Replacement for `alloc::alloc::alloc`: records the layout and serves the
/// block from `alloc_zeroed` (which is not stubbed).
unsafe fn rec_alloc(layout: Layout) -> *mut u8 {
    R.n_alloc += 1;
    R.a_size = layout.size();
    R.a_align = layout.align();
    assert!(layout.size() > 0, "global allocator called with a zero-sized layout (undefined behaviour of GlobalAlloc::alloc)");
    let p = std::alloc::alloc_zeroed(layout);
    R.a_ptr = p;
    p
}

/// Replacement for `alloc::alloc::realloc`: records the request and serves a
/// fresh block holding the old prefix (the old block is leaked: the ledger
/// harnesses do not look at the heap).
unsafe fn rec_realloc(old: *mut u8, layout: Layout, new_size: usize) -> *mut u8 {
    R.n_realloc += 1;
    R.r_old = old;
    R.r_size = layout.size();
    R.r_align = layout.align();
    R.r_new_size = new_size;
    assert!(new_size > 0, "GlobalAlloc::realloc with new_size == 0 is undefined behaviour");
    let p = std::alloc::alloc_zeroed(Layout::from_size_align_unchecked(new_size, layout.align()));
    R.r_ptr = p;
    p
}

/// Replacement for `alloc::alloc::dealloc`: records, does not free.
unsafe fn rec_dealloc(p: *mut u8, layout: Layout) {
    R.n_dealloc += 1;
    R.d_ptr = p;
    R.d_size = layout.size();
    R.d_align = layout.align();
}

// ---- cabi_realloc -----------------------------------------------------------

/// Two consecutive requests, the second consistent with the first result;
/// contents compared bytewise.  Oracle: Kani's allocator model.
#[kani::proof]
#[kani::unwind(18)]
fn c24_realloc_model() {
    unsafe {
        let align = any_align();
        let n1 = any_size(MAXN);
        let data: [u8; MAXN] = kani::any();

        // request 1: a fresh allocation (old_ptr is ignored when old_len == 0)
        let p1 = cabi_realloc(ptr::null_mut(), 0, align, n1);
        assert!(!p1.is_null(), "cabi_realloc returned null");
        if n1 == 0 {
            assert!(p1 as usize == align, "zero-sized allocation must return the alignment itself");
        }
        let mut i = 0;
        while i < n1 {
            *p1.add(i) = data[i]; // in bounds and writable for n1 bytes
            i += 1;
        }

        // request 2: grow, shrink or (for an empty block) allocate
        let n2 = any_size(MAXN);
        // canonical-ABI contract: a non-empty block is never resized to zero
        // (debug_assert in cabi_realloc)
        kani::assume(n1 == 0 || n2 > 0);
        let p2 = cabi_realloc(p1, n1, align, n2);
        assert!(!p2.is_null(), "cabi_realloc returned null");
        if n2 == 0 {
            assert!(p2 as usize == align, "zero-sized allocation must return the alignment itself");
        }
        let keep = if n1 < n2 { n1 } else { n2 };
        let mut i = 0;
        while i < keep {
            assert!(*p2.add(i) == data[i], "realloc lost old contents");
            i += 1;
        }
        let mut i = 0;
        while i < n2 {
            *p2.add(i) = 0x5a; // in bounds and writable for n2 bytes
            i += 1;
        }
        // the block is owned by the caller now: free it the way the canonical
        // ABI user would (size, align); Kani checks the layout is the live one
        if n2 > 0 {
            std::alloc::dealloc(p2, Layout::from_size_align_unchecked(n2, align));
        }

        kani::cover!(n1 == 0 && n2 == 0, "two zero-sized requests");
        kani::cover!(n1 == 0 && n2 == MAXN && align == 65536, "allocate 16 bytes at 64 KiB alignment");
        kani::cover!(n1 == MAXN && n2 == 1, "shrink 16 -> 1");
        kani::cover!(n1 == 3 && n2 == MAXN && align == 1, "grow 3 -> 16");
    }
}

/// Same two requests; `alloc`/`realloc` record what they are asked for.
#[kani::proof]
#[kani::unwind(2)]
#[kani::stub(std::alloc::alloc, rec_alloc)]
#[kani::stub(std::alloc::realloc, rec_realloc)]
fn c24_realloc_ledger() {
    unsafe {
        let align = any_align();
        // sizes are not touched bytewise here: the full range of the property
        let n1 = any_size(1 << 20);
        let p1 = cabi_realloc(ptr::null_mut(), 0, align, n1);
        assert!(!p1.is_null());
        assert!(R.n_realloc == 0);
        if n1 == 0 {
            assert!(R.n_alloc == 0, "zero-sized request must not reach the global allocator");
            assert!(p1 as usize == align);
        } else {
            assert!(R.n_alloc == 1);
            assert!(R.a_size == n1 && R.a_align == align, "alloc Layout differs from the requested size/alignment");
            assert!(p1 == R.a_ptr, "cabi_realloc does not return the allocator's block");
        }

        let n2 = any_size(1 << 20);
        kani::assume(n1 == 0 || n2 > 0);
        let p2 = cabi_realloc(p1, n1, align, n2);
        assert!(!p2.is_null());
        if n1 == 0 {
            assert!(R.n_realloc == 0);
            if n2 == 0 {
                assert!(R.n_alloc == 0 && p2 as usize == align);
            } else {
                assert!(R.n_alloc == 1 && R.a_size == n2 && R.a_align == align && p2 == R.a_ptr);
            }
        } else {
            assert!(R.n_alloc == 1 && R.n_realloc == 1);
            assert!(R.r_old == p1, "realloc called on a different block");
            assert!(R.r_size == n1 && R.r_align == align, "realloc Layout is not the old block's (size, align)");
            assert!(R.r_new_size == n2);
            assert!(p2 == R.r_ptr);
        }
        kani::cover!(n1 == 0 && n2 == 0);
        kani::cover!(n1 == (1 << 20) && n2 == 1 && align == 65536);
        kani::cover!(n1 == 0 && n2 == (1 << 20) && align == 1);
    }
}

// ---- Cleanup -------------------------------------------------------------------

/// `Cleanup::new` / `Drop` / `forget` against the recording allocator.
#[kani::proof]
#[kani::unwind(18)]
#[kani::stub(std::alloc::alloc, rec_alloc)]
#[kani::stub(std::alloc::dealloc, rec_dealloc)]
fn c24_cleanup_ledger() {
    unsafe {
        let align = any_align();
        let size = any_size(MAXN);
        let layout = Layout::from_size_align_unchecked(size, align);
        let (p, c) = Cleanup::new(layout);
        assert!(p.is_null() == (size == 0), "Cleanup::new: pointer is null exactly when the size is zero");
        assert!(c.is_none() == (size == 0), "Cleanup::new: guard present exactly when the size is non-zero");
        if size == 0 {
            assert!(R.n_alloc == 0);
        } else {
            assert!(R.n_alloc == 1 && R.a_size == size && R.a_align == align && R.a_ptr == p);
        }
        let forget: bool = kani::any();
        match c {
            Some(c) => {
                if forget {
                    c.forget();
                    assert!(R.n_dealloc == 0, "forget() must not free");
                } else {
                    drop(c);
                    assert!(R.n_dealloc == 1, "dropping the guard frees exactly once");
                    assert!(R.d_ptr == p && R.d_size == size && R.d_align == align, "freed with a different pointer/layout");
                }
            }
            None => assert!(R.n_dealloc == 0),
        }
        kani::cover!(size == 0);
        kani::cover!(size == MAXN && !forget && align == 65536);
        kani::cover!(size == 1 && forget);
    }
}

/// The same against Kani's heap model: the block is writable for `size`
/// bytes, freed exactly once by `Drop` (leak check on), and not freed by
/// `forget` (the harness frees it itself: a double free would be flagged).
#[kani::proof]
#[kani::unwind(18)]
fn c24_cleanup_model() {
    unsafe {
        let align = any_align();
        let size = any_size(MAXN);
        let layout = Layout::from_size_align_unchecked(size, align);
        let (p, c) = Cleanup::new(layout);
        assert!(p.is_null() == (size == 0));
        assert!(c.is_none() == (size == 0));
        let mut i = 0;
        while i < size {
            *p.add(i) = i as u8;
            i += 1;
        }
        let forget: bool = kani::any();
        if let Some(c) = c {
            if forget {
                c.forget();
                // still allocated and intact
                assert!(size == 0 || *p == 0);
                std::alloc::dealloc(p, layout);
            } else {
                drop(c);
            }
        }
        kani::cover!(size == 0);
        kani::cover!(size == MAXN && !forget);
        kani::cover!(size == 2 && forget);
    }
}

// ---- generated cabi_dealloc ------------------------------------------------------

#[kani::proof]
#[kani::unwind(2)]
#[kani::stub(std::alloc::dealloc, rec_dealloc)]
fn c24_cabi_dealloc_ledger() {
    unsafe {
        let align = any_align();
        let size = any_size(1 << 20);
        // what the canonical ABI hands to post-return code: a block obtained
        // from cabi_realloc(0, 0, align, size)
        let p = cabi_realloc(ptr::null_mut(), 0, align, size);
        generated::cabi_dealloc(p, size, align);
        if size == 0 {
            assert!(R.n_dealloc == 0, "zero-sized block is the dangling `align` pointer and must not be freed");
        } else {
            assert!(R.n_dealloc == 1);
            assert!(R.d_ptr == p && R.d_size == size && R.d_align == align, "cabi_dealloc frees with a different pointer/layout");
        }
        kani::cover!(size == 0);
        kani::cover!(size == (1 << 20) && align == 65536);
    }
}

#[kani::proof]
#[kani::unwind(18)]
fn c24_cabi_dealloc_model() {
    unsafe {
        let align = any_align();
        let size = any_size(MAXN);
        let p = cabi_realloc(ptr::null_mut(), 0, align, size);
        let mut i = 0;
        while i < size {
            *p.add(i) = 1;
            i += 1;
        }
        generated::cabi_dealloc(p, size, align);
        // leak check on: the block is gone; Kani flags an invalid free for size 0
        kani::cover!(size == 0);
        kani::cover!(size == MAXN);
    }
}
