//! Engine E3 "rtkani": Kani proof harnesses over the real async runtime of
//! wit-bindgen (`/repo/crates/guest-rust/src/rt/**`), at "L1 operation level"
//! (DESIGN.md section 1, E3).
//!
//! The harness plays two roles at once:
//!
//! * the **exporting task / executor**: it installs its own `wasip3_task`
//!   (C ABI v1, or v2 with a vtable) through the stubbed `wasip3_task_set`,
//!   polls the real future with `Waker::noop()` and delivers events by calling
//!   the callback the runtime registered;
//! * the **component-model host**: `Subtask` / `StreamOps` / `FutureOps`
//!   implementations whose answers are `kani::any()` constrained only by the
//!   canonical-ABI contract, and which carry the assertions (ledgers).
//!
//! Every harness name starts with the property id it serves (`c21_...`).
//! Everything is `#[cfg(kani)]`; an ordinary `cargo build` sees an empty crate.
#![cfg(kani)]
#![recursion_limit = "512"]
#![allow(static_mut_refs)]
#![allow(clippy::missing_safety_doc)]

pub mod mock_task;

mod c18;
mod c19;
mod c20;
mod c21;
mod c24;
