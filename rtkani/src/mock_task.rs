//! The harness-side "exporting task": an implementation of the `wasip3_task`
//! C ABI (crates/guest-rust/src/rt/async_support/cabi.rs) that records what
//! the runtime does with it.
//!
//! Contract implemented (from the doc comments in cabi.rs):
//!
//! * `waitable_register(ptr, waitable, cb, cb_ptr)` stores `(cb, cb_ptr)` for
//!   `waitable`, returns the previous `cb_ptr` or NULL;
//! * `waitable_unregister(ptr, waitable)` removes and returns it, or NULL;
//! * `clone(ptr)` hands out an owned reference, `drop(ptr)` releases one and
//!   must never be called on `wasip3_task::ptr` itself;
//! * an event is delivered by *removing* the entry and then calling
//!   `cb(cb_ptr, code)` (what `TaskState::deliver_waitable_event` does).
//!
//! Up to two tasks (index 0 = "A", 1 = "B").  Task pointers are addresses of
//! bytes of the `TOK` array: `TOK[t][0]` is `wasip3_task::ptr` and `TOK[t][k]`,
//! `k >= 1`, is the k-th clone (only when `CLONE_DISTINCT`; otherwise `clone`
//! returns the same pointer, like the in-tree executor's
//! `Arc::into_raw(Arc::clone(..))`).

use core::ffi::c_void;
use core::ptr;
pub use wit_bindgen::rt::async_support::verif_hooks::{
    wasip3_task, wasip3_task_v2, wasip3_task_vtable,
};

pub type Callback = unsafe extern "C" fn(*mut c_void, u32);

unsafe extern "C" fn no_callback(_: *mut c_void, _: u32) {
    assert!(false, "mock task invoked a callback slot that was never filled");
}

/// Per-task ledger.  Deliberately flat scalars (no `Option<struct>`): CBMC's
/// points-to analysis loses the callback pointer through niche-encoded enums
/// and the proof then blows up.
pub struct Ledger {
    /// The one registration slot (every harness drives a single waitable).
    pub reg_set: bool,
    pub reg_waitable: u32,
    pub reg_cb: Callback,
    pub reg_ptr: *mut c_void,
    /// v2: live clones (count) and, with `CLONE_DISTINCT`, which ones.
    pub clones_live: u32,
    pub clones_made: u32,
    pub clone_mask: u32,
    pub n_register: u32,
    pub n_unregister: u32,
    pub n_delivered: u32,
}

impl Ledger {
    pub const NEW: Ledger = Ledger {
        reg_set: false,
        reg_waitable: 0,
        reg_cb: no_callback,
        reg_ptr: ptr::null_mut(),
        clones_live: 0,
        clones_made: 0,
        clone_mask: 0,
        n_register: 0,
        n_unregister: 0,
        n_delivered: 0,
    };
}

pub const NTASK: usize = 2;
pub static mut L: [Ledger; NTASK] = [Ledger::NEW, Ledger::NEW];
/// Scalar state of the mock, in ONE struct with a magic first field.
///
/// Why not separate `static mut`s: Kani 0.68 resolves a *constant* whose bytes
/// equal the initializer of some `static mut` to that very static (seen: the
/// standard library's `ZERO_CAP` (8 zero bytes) was compiled as a read of
/// `static mut G.cur: *mut wasip3_task = null_mut()`, so every `Vec::new()` got
/// the current task pointer as its capacity once the harness had installed a
/// task).  Every mutable static of this crate therefore starts with a byte
/// pattern that no constant of the code under test has.
pub struct Globals {
    pub magic: u64,
    /// Value held by the (stubbed) `wasip3_task_set` cell.
    pub cur: *mut wasip3_task,
    /// Whether `clone` returns a fresh pointer (true) or the same one (false).
    pub clone_distinct: bool,
    /// The waitable handle the operation under test is allowed to register
    /// (0 = not yet known / any).
    pub expect_waitable: u32,
    /// Set by a harness while the memory of the operation under test is alive.
    /// Registration while the memory is gone would be a dangling registration.
    pub op_alive: bool,
    /// The callback pointer of the first registration; the operation is pinned,
    /// so every later registration must hand over the same pointer.
    pub expect_ptr: *mut c_void,
    /// The operation (or its owner) has released the handle `expect_waitable`
    /// (`subtask.drop`, `{future,stream}.drop-*`): its index is dead.  A task
    /// that is then asked to register / unregister that waitable would call
    /// `waitable.join` on a closed handle -- a trap in a real host, or, once
    /// the index is re-used, a join/unjoin of somebody else's waitable.
    pub handle_closed: bool,
}
pub static mut G: Globals = Globals {
    magic: 0x6d6f_636b_5f74_6b01,
    cur: ptr::null_mut(),
    clone_distinct: false,
    expect_waitable: 0,
    op_alive: true,
    expect_ptr: ptr::null_mut(),
    handle_closed: false,
};

/// Task pointers are addresses of bytes of this array (never dereferenced by
/// the runtime): `TOK[t][0]` is `wasip3_task::ptr` of task `t`, `TOK[t][k]`
/// its k-th clone.  Real addresses rather than integers cast to pointers,
/// because pointer/integer casts are very expensive for CBMC.
pub const MAXCLONE: usize = 6;
pub static mut TOK: [[u8; MAXCLONE]; NTASK] = [[0xa1, 0xa2, 0xa3, 0xa4, 0xa5, 0xa6], [0xb1, 0xb2, 0xb3, 0xb4, 0xb5, 0xb6]];

pub fn task_ptr(t: usize) -> *mut c_void {
    unsafe { ptr::addr_of_mut!(TOK[t][0]) as *mut c_void }
}

/// Which clone of task `T` is `p` (0 = the task's own pointer)?  The task
/// index is a const generic: every task has its own set of C ABI functions,
/// so nothing about *which* task is symbolic.  Pointer comparisons only (no
/// `offset_from`: pointer arithmetic is expensive for CBMC).
fn decode<const T: usize>(p: *mut c_void) -> u32 {
    let p = p as *const u8;
    unsafe {
        if p == ptr::addr_of!(TOK[T][0]) {
            return 0;
        }
        assert!(G.clone_distinct, "task callback invoked with a pointer that is not the task's");
        // MAXCLONE == 6, unrolled by hand (no loop: harness unwind bounds stay about the code under test)
        if p == ptr::addr_of!(TOK[T][1]) {
            return 1;
        }
        if p == ptr::addr_of!(TOK[T][2]) {
            return 2;
        }
        if p == ptr::addr_of!(TOK[T][3]) {
            return 3;
        }
        if p == ptr::addr_of!(TOK[T][4]) {
            return 4;
        }
        if p == ptr::addr_of!(TOK[T][5]) {
            return 5;
        }
    }
    assert!(false, "task callback invoked with a pointer that does not belong to this task");
    0
}

unsafe fn check_ptr_live<const T: usize>(p: *mut c_void) {
    let k = decode::<T>(p);
    if k != 0 {
        assert!(G.clone_distinct);
        assert!(
            L[T].clone_mask & (1 << k) != 0,
            "task vtable called through a clone that was already dropped"
        );
    }
}

pub unsafe fn registered_anywhere(waitable: u32) -> bool {
    (L[0].reg_set && L[0].reg_waitable == waitable) || (L[1].reg_set && L[1].reg_waitable == waitable)
}

pub unsafe fn anything_registered() -> bool {
    L[0].reg_set || L[1].reg_set
}

pub unsafe extern "C" fn t_register<const T: usize>(
    p: *mut c_void,
    waitable: u32,
    cb: Callback,
    cb_ptr: *mut c_void,
) -> *mut c_void {
    check_ptr_live::<T>(p);
    assert!(
        !(G.handle_closed && waitable == G.expect_waitable),
        "waitable_register names a handle the operation already released (waitable.join on a closed index)"
    );
    assert!(G.op_alive, "registration made after the operation's memory was released");
    assert!(!cb_ptr.is_null());
    if G.expect_ptr.is_null() {
        G.expect_ptr = cb_ptr;
    } else {
        assert!(cb_ptr == G.expect_ptr, "registered a different callback pointer for the same (pinned) operation");
    }
    if G.expect_waitable != 0 {
        assert!(waitable == G.expect_waitable, "registered a waitable the operation does not own");
    }
    // A waitable lives in at most one waitable-set; joining the set of task
    // `T` while the other task still holds a callback pointer for it would
    // leave that pointer behind forever.
    assert!(
        !(L[1 - T].reg_set && L[1 - T].reg_waitable == waitable),
        "waitable registered with a second task while still registered with the first"
    );
    L[T].n_register += 1;
    let prev = if L[T].reg_set {
        assert!(L[T].reg_waitable == waitable, "mock task holds one waitable at a time");
        L[T].reg_ptr
    } else {
        ptr::null_mut()
    };
    L[T].reg_set = true;
    L[T].reg_waitable = waitable;
    L[T].reg_cb = cb;
    L[T].reg_ptr = cb_ptr;
    prev
}

pub unsafe extern "C" fn t_unregister<const T: usize>(p: *mut c_void, waitable: u32) -> *mut c_void {
    check_ptr_live::<T>(p);
    assert!(
        !(G.handle_closed && waitable == G.expect_waitable),
        "waitable_unregister names a handle the operation already released (waitable.join on a closed index)"
    );
    L[T].n_unregister += 1;
    if L[T].reg_set && L[T].reg_waitable == waitable {
        L[T].reg_set = false;
        L[T].reg_ptr
    } else {
        ptr::null_mut()
    }
}

pub unsafe extern "C" fn t_clone<const T: usize>(p: *mut c_void) -> *mut c_void {
    let k = decode::<T>(p);
    assert!(k == 0 || L[T].clone_mask & (1 << k) != 0);
    L[T].clones_live += 1;
    L[T].clones_made += 1;
    if G.clone_distinct {
        let k = L[T].clones_made;
        assert!((k as usize) < MAXCLONE, "harness bound: at most 5 clones per task");
        L[T].clone_mask |= 1 << k;
        ptr::addr_of_mut!(TOK[T][k as usize]) as *mut c_void
    } else {
        task_ptr(T)
    }
}

pub unsafe extern "C" fn t_drop<const T: usize>(p: *mut c_void) {
    let k = decode::<T>(p);
    assert!(L[T].clones_live > 0, "task `drop` without a matching `clone`");
    L[T].clones_live -= 1;
    if G.clone_distinct {
        assert!(k != 0, "`drop` called on `wasip3_task::ptr` itself");
        assert!(L[T].clone_mask & (1 << k) != 0, "clone dropped twice");
        L[T].clone_mask &= !(1 << k);
    }
}

pub static VTABLE_A: wasip3_task_vtable = wasip3_task_vtable {
    waitable_register: t_register::<0>,
    waitable_unregister: t_unregister::<0>,
    clone: t_clone::<0>,
    drop: t_drop::<0>,
};
pub static VTABLE_B: wasip3_task_vtable = wasip3_task_vtable {
    waitable_register: t_register::<1>,
    waitable_unregister: t_unregister::<1>,
    clone: t_clone::<1>,
    drop: t_drop::<1>,
};

fn mk_v1(t: usize, vt: &'static wasip3_task_vtable) -> wasip3_task {
    wasip3_task {
        version: 1,
        ptr: task_ptr(t),
        waitable_register: vt.waitable_register,
        waitable_unregister: vt.waitable_unregister,
    }
}

fn mk_v2(t: usize, vt: &'static wasip3_task_vtable) -> wasip3_task_v2 {
    wasip3_task_v2 {
        v1: wasip3_task {
            version: 2,
            ptr: task_ptr(t),
            waitable_register: vt.waitable_register,
            waitable_unregister: vt.waitable_unregister,
        },
        vtable: vt,
    }
}

// Separate constructors per task so that a single-task harness never
// references task B's functions (CBMC turns every indirect call into a switch
// over all address-taken functions of that signature).
pub fn new_v1_a() -> wasip3_task {
    mk_v1(0, &VTABLE_A)
}
pub fn new_v2_a() -> wasip3_task_v2 {
    mk_v2(0, &VTABLE_A)
}
pub fn new_v1_b() -> wasip3_task {
    mk_v1(1, &VTABLE_B)
}
pub fn new_v2_b() -> wasip3_task_v2 {
    mk_v2(1, &VTABLE_B)
}

/// Replacement for `cabi::wasip3_task_set` (a weak C symbol on wasm, an
/// `unreachable!()` shim natively): a single global cell.
pub unsafe fn stub_task_set(p: *mut wasip3_task) -> *mut wasip3_task {
    let prev = G.cur;
    G.cur = p;
    prev
}

/// Deliver `code` for the waitable registered with task `t`, the way
/// `TaskState::deliver_waitable_event` does: remove the entry first, then
/// invoke the callback.
pub unsafe fn deliver(t: usize, code: u32) {
    assert!(L[t].reg_set, "harness error: deliver without registration");
    assert!(G.op_alive, "event delivered to an operation whose memory is gone");
    L[t].reg_set = false;
    L[t].n_delivered += 1;
    (L[t].reg_cb)(L[t].reg_ptr, code);
}

/// End-of-life obligations once the operation's memory is gone.
pub unsafe fn assert_quiescent() {
    assert!(!L[0].reg_set, "callback pointer left registered with task A after the operation ended");
    assert!(!L[1].reg_set, "callback pointer left registered with task B after the operation ended");
    assert!(L[0].clones_live == 0, "v2 task A: clone not balanced by drop");
    assert!(L[1].clones_live == 0, "v2 task B: clone not balanced by drop");
}
