//! The harness-side "exporting task": an implementation of the `wasip3_task`
//! C ABI (crates/guest-rust/src/rt/async_support/cabi.rs) that records what
//! the runtime does with it.
//!
//! Contract implemented (from the doc comments in cabi.rs):
//!
//! * `waitable_register(ptr, waitable, cb, cb_ptr)` stores `(cb, cb_ptr)` for
//!   `waitable`, returns the previous `cb_ptr` or NULL;
//! * `waitable_unregister(ptr, waitable)` removes and returns it, or NULL;
//! * `clone(ptr)` hands out an owned reference, `drop(ptr)` releases one and
//!   must never be called on `wasip3_task::ptr` itself;
//! * an event is delivered by *removing* the entry and then calling
//!   `cb(cb_ptr, code)` (what `TaskState::deliver_waitable_event` does).
//!
//! Up to two tasks (index 0 = "A", 1 = "B").  Task pointers are addresses of
//! bytes of the `TOK` array: `TOK[t][0]` is `wasip3_task::ptr` and `TOK[t][k]`,
//! `k >= 1`, is the k-th clone (only when `CLONE_DISTINCT`; otherwise `clone`
//! returns the same pointer, like the in-tree executor's
//! `Arc::into_raw(Arc::clone(..))`).

use core::ffi::c_void;
use core::ptr;
pub use wit_bindgen::rt::async_support::verif_hooks::{
    wasip3_task, wasip3_task_v2, wasip3_task_vtable,
};

pub type Callback = unsafe extern "C" fn(*mut c_void, u32);

unsafe extern "C" fn no_callback(_: *mut c_void, _: u32) {
    assert!(false, "mock task invoked a callback slot that was never filled");
}

/// Per-task ledger.  Deliberately flat scalars (no `Option<struct>`): CBMC's
/// points-to analysis loses the callback pointer through niche-encoded enums
/// and the proof then blows up.
pub struct Ledger {
    /// The one registration slot (every harness drives a single waitable).
    pub reg_set: bool,
    pub reg_waitable: u32,
    pub reg_cb: Callback,
    pub reg_ptr: *mut c_void,
    /// v2: live clones (count) and, with `CLONE_DISTINCT`, which ones.
    pub clones_live: u32,
    pub clones_made: u32,
    pub clone_mask: u32,
    pub n_register: u32,
    pub n_unregister: u32,
    pub n_delivered: u32,
}

impl Ledger {
    pub const NEW: Ledger = Ledger {
        reg_set: false,
        reg_waitable: 0,
        reg_cb: no_callback,
        reg_ptr: ptr::null_mut(),
        clones_live: 0,
        clones_made: 0,
        clone_mask: 0,
        n_register: 0,
        n_unregister: 0,
        n_delivered: 0,
    };
}

pub const NTASK: usize = 2;
pub static mut L: [Ledger; NTASK] = [Ledger::NEW, Ledger::NEW];
/// Value held by the (stubbed) `wasip3_task_set` cell.
pub static mut CUR: *mut wasip3_task = ptr::null_mut();
/// Whether `clone` returns a fresh pointer (true) or the same one (false).
pub static mut CLONE_DISTINCT: bool = false;
/// The waitable handle the operation under test is allowed to register
/// (0 = not yet known / any).
pub static mut EXPECT_WAITABLE: u32 = 0;
/// Set by a harness while the memory of the operation under test is alive.
/// Registration while the memory is gone would be a dangling registration.
pub static mut OP_ALIVE: bool = true;
/// The callback pointer of the first registration; the operation is pinned,
/// so every later registration must hand over the same pointer.
pub static mut EXPECT_PTR: *mut c_void = ptr::null_mut();

/// Task pointers are addresses of bytes of this array (never dereferenced by
/// the runtime): `TOK[t][0]` is `wasip3_task::ptr` of task `t`, `TOK[t][k]`
/// its k-th clone.  Real addresses rather than integers cast to pointers,
/// because pointer/integer casts are very expensive for CBMC.
pub const MAXCLONE: usize = 8;
pub static mut TOK: [[u8; MAXCLONE]; NTASK] = [[0; MAXCLONE]; NTASK];

pub fn task_ptr(t: usize) -> *mut c_void {
    unsafe { ptr::addr_of_mut!(TOK[t][0]) as *mut c_void }
}

/// Which clone of task `T` is `p` (0 = the task's own pointer)?  The task
/// index is a const generic: every task has its own set of C ABI functions,
/// so nothing about *which* task is symbolic.
fn decode<const T: usize>(p: *mut c_void) -> u32 {
    let base = unsafe { ptr::addr_of!(TOK[T]) as *const u8 };
    // `offset_from` makes Kani check that `p` points into `TOK[T]` at all.
    let off = unsafe { (p as *const u8).offset_from(base) };
    assert!(
        off >= 0 && (off as usize) < MAXCLONE,
        "task callback invoked with a pointer that does not belong to this task"
    );
    off as u32
}

unsafe fn check_ptr_live<const T: usize>(p: *mut c_void) {
    let k = decode::<T>(p);
    if k != 0 {
        assert!(CLONE_DISTINCT);
        assert!(
            L[T].clone_mask & (1 << k) != 0,
            "task vtable called through a clone that was already dropped"
        );
    }
}

pub unsafe fn registered_anywhere(waitable: u32) -> bool {
    (L[0].reg_set && L[0].reg_waitable == waitable) || (L[1].reg_set && L[1].reg_waitable == waitable)
}

pub unsafe fn anything_registered() -> bool {
    L[0].reg_set || L[1].reg_set
}

pub unsafe extern "C" fn t_register<const T: usize>(
    p: *mut c_void,
    waitable: u32,
    cb: Callback,
    cb_ptr: *mut c_void,
) -> *mut c_void {
    check_ptr_live::<T>(p);
    assert!(OP_ALIVE, "registration made after the operation's memory was released");
    assert!(!cb_ptr.is_null());
    if EXPECT_PTR.is_null() {
        EXPECT_PTR = cb_ptr;
    } else {
        assert!(cb_ptr == EXPECT_PTR, "registered a different callback pointer for the same (pinned) operation");
    }
    if EXPECT_WAITABLE != 0 {
        assert!(waitable == EXPECT_WAITABLE, "registered a waitable the operation does not own");
    }
    // A waitable lives in at most one waitable-set; joining the set of task
    // `T` while the other task still holds a callback pointer for it would
    // leave that pointer behind forever.
    assert!(
        !(L[1 - T].reg_set && L[1 - T].reg_waitable == waitable),
        "waitable registered with a second task while still registered with the first"
    );
    L[T].n_register += 1;
    let prev = if L[T].reg_set {
        assert!(L[T].reg_waitable == waitable, "mock task holds one waitable at a time");
        L[T].reg_ptr
    } else {
        ptr::null_mut()
    };
    L[T].reg_set = true;
    L[T].reg_waitable = waitable;
    L[T].reg_cb = cb;
    L[T].reg_ptr = cb_ptr;
    prev
}

pub unsafe extern "C" fn t_unregister<const T: usize>(p: *mut c_void, waitable: u32) -> *mut c_void {
    check_ptr_live::<T>(p);
    L[T].n_unregister += 1;
    if L[T].reg_set && L[T].reg_waitable == waitable {
        L[T].reg_set = false;
        L[T].reg_ptr
    } else {
        ptr::null_mut()
    }
}

pub unsafe extern "C" fn t_clone<const T: usize>(p: *mut c_void) -> *mut c_void {
    let k = decode::<T>(p);
    assert!(k == 0 || L[T].clone_mask & (1 << k) != 0);
    L[T].clones_live += 1;
    L[T].clones_made += 1;
    if CLONE_DISTINCT {
        let k = L[T].clones_made;
        assert!((k as usize) < MAXCLONE, "harness bound: at most 7 clones per task");
        L[T].clone_mask |= 1 << k;
        ptr::addr_of_mut!(TOK[T][k as usize]) as *mut c_void
    } else {
        task_ptr(T)
    }
}

pub unsafe extern "C" fn t_drop<const T: usize>(p: *mut c_void) {
    let k = decode::<T>(p);
    assert!(L[T].clones_live > 0, "task `drop` without a matching `clone`");
    L[T].clones_live -= 1;
    if CLONE_DISTINCT {
        assert!(k != 0, "`drop` called on `wasip3_task::ptr` itself");
        assert!(L[T].clone_mask & (1 << k) != 0, "clone dropped twice");
        L[T].clone_mask &= !(1 << k);
    }
}

pub static VTABLE_A: wasip3_task_vtable = wasip3_task_vtable {
    waitable_register: t_register::<0>,
    waitable_unregister: t_unregister::<0>,
    clone: t_clone::<0>,
    drop: t_drop::<0>,
};
pub static VTABLE_B: wasip3_task_vtable = wasip3_task_vtable {
    waitable_register: t_register::<1>,
    waitable_unregister: t_unregister::<1>,
    clone: t_clone::<1>,
    drop: t_drop::<1>,
};

fn mk_v1(t: usize, vt: &'static wasip3_task_vtable) -> wasip3_task {
    wasip3_task {
        version: 1,
        ptr: task_ptr(t),
        waitable_register: vt.waitable_register,
        waitable_unregister: vt.waitable_unregister,
    }
}

fn mk_v2(t: usize, vt: &'static wasip3_task_vtable) -> wasip3_task_v2 {
    wasip3_task_v2 {
        v1: wasip3_task {
            version: 2,
            ptr: task_ptr(t),
            waitable_register: vt.waitable_register,
            waitable_unregister: vt.waitable_unregister,
        },
        vtable: vt,
    }
}

// Separate constructors per task so that a single-task harness never
// references task B's functions (CBMC turns every indirect call into a switch
// over all address-taken functions of that signature).
pub fn new_v1_a() -> wasip3_task {
    mk_v1(0, &VTABLE_A)
}
pub fn new_v2_a() -> wasip3_task_v2 {
    mk_v2(0, &VTABLE_A)
}
pub fn new_v1_b() -> wasip3_task {
    mk_v1(1, &VTABLE_B)
}
pub fn new_v2_b() -> wasip3_task_v2 {
    mk_v2(1, &VTABLE_B)
}

/// Replacement for `cabi::wasip3_task_set` (a weak C symbol on wasm, an
/// `unreachable!()` shim natively): a single global cell.
pub unsafe fn stub_task_set(p: *mut wasip3_task) -> *mut wasip3_task {
    let prev = CUR;
    CUR = p;
    prev
}

/// Deliver `code` for the waitable registered with task `t`, the way
/// `TaskState::deliver_waitable_event` does: remove the entry first, then
/// invoke the callback.
pub unsafe fn deliver(t: usize, code: u32) {
    assert!(L[t].reg_set, "harness error: deliver without registration");
    assert!(OP_ALIVE, "event delivered to an operation whose memory is gone");
    L[t].reg_set = false;
    L[t].n_delivered += 1;
    (L[t].reg_cb)(L[t].reg_ptr, code);
}

/// End-of-life obligations once the operation's memory is gone.
pub unsafe fn assert_quiescent() {
    assert!(!L[0].reg_set, "callback pointer left registered with task A after the operation ended");
    assert!(!L[1].reg_set, "callback pointer left registered with task B after the operation ended");
    assert!(L[0].clones_live == 0, "v2 task A: clone not balanced by drop");
    assert!(L[1].clones_live == 0, "v2 task B: clone not balanced by drop");
}
