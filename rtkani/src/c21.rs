//! C21 — async import calls release parameters and results exactly once.
//!
//! Real code: `Subtask::call`, `SubtaskOps::{start, in_progress_update,
//! in_progress_cancel}`, `InProgress::{flag_started, ptr_results}`,
//! `SubtaskHandle::drop` (subtask.rs), all of `WaitableOperation`
//! (waitable.rs), `rt::Cleanup`.
//!
//! Mock host contract (component-model canonical ABI, `canon lower` with
//! `async`, `subtask.cancel` (sync), `subtask.drop`):
//!
//! * the call returns `RETURNED` with no handle, or `STARTING`/`STARTED` packed
//!   with a non-zero handle `< 2^28`;
//! * status events are monotone: after `STARTING` the guest may be told
//!   `STARTED` or `RETURNED` (events coalesce), after `STARTED` only
//!   `RETURNED`; an event is delivered only while the subtask is joined to the
//!   task's set, i.e. registered with the mock task;
//! * `subtask.cancel` on a not-yet-started call answers `STARTED_CANCELLED`,
//!   `RETURNED_CANCELLED` or `RETURNED`; on a started call `RETURNED_CANCELLED`
//!   or `RETURNED`; it traps once the resolution was delivered, when called
//!   twice, and while the subtask is still joined to a set;
//! * `subtask.drop` traps unless the resolution was delivered;
//! * the host reads the parameter area during the call and writes the result
//!   area right before it reports `RETURNED` (so a guest that frees the area
//!   early is caught by Kani's dangling-pointer check).

use crate::mock_task as mt;
use core::alloc::Layout;
use core::future::Future;
use core::pin::pin;
use core::task::{Context, Poll, Waker};
use wit_bindgen::rt::async_support::Subtask;

const STARTING: u32 = 0;
const STARTED: u32 = 1;
const RETURNED: u32 = 2;
const STARTED_CANCELLED: u32 = 3;
const RETURNED_CANCELLED: u32 = 4;

const TOKEN: u32 = 0x5eed_00a7;
const RESULT_VAL: u32 = 0x0dd_ba1b;

struct Host {
    /// unique first bytes: see mock_task::Globals
    magic: u64,
    handle: u32,
    /// Last status the guest was told.
    seen: u32,
    /// The guest was told a terminal status (2, 3 or 4).
    resolved_delivered: bool,
    /// The guest was told `RETURNED`.
    returned: bool,
    cancel_answer: u32,
    cancel_calls: u32,
    drop_calls: u32,
    call_imports: u32,
    area_size: usize,
    params_ptr: *mut u8,
    results_ptr: *mut u8,
    lowered: u32,
    dealloc_lists: u32,
    dealloc_lists_and_own: u32,
    lifted: u32,
    params_rust_dropped: u32,
    results_rust_dropped: u32,
}

static mut H: Host = Host {
    magic: 0x6332_315f_686f_7374,
    handle: 0,
    seen: STARTING,
    resolved_delivered: false,
    returned: false,
    cancel_answer: u32::MAX,
    cancel_calls: 0,
    drop_calls: 0,
    call_imports: 0,
    area_size: 0,
    params_ptr: core::ptr::null_mut(),
    results_ptr: core::ptr::null_mut(),
    lowered: 0,
    dealloc_lists: 0,
    dealloc_lists_and_own: 0,
    lifted: 0,
    params_rust_dropped: 0,
    results_rust_dropped: 0,
};

struct Params {
    token: u32,
}
impl Drop for Params {
    fn drop(&mut self) {
        unsafe { H.params_rust_dropped += 1 }
    }
}

struct Results {
    val: u32,
}
impl Drop for Results {
    fn drop(&mut self) {
        unsafe { H.results_rust_dropped += 1 }
    }
}

#[derive(Clone, Copy)]
struct Lower {
    /// Indirect parameters: pointer to the parameter record (null when the
    /// layout is empty, i.e. everything is flat).
    ptr: *mut u8,
    /// Flat parameter.
    flat: u32,
}

/// The "generated bindings" of one async import.  `size` is the size of the
/// parameter+result area (`abi_layout`), `roff` the offset of the results.
/// The area holds one byte of parameters at offset 0 and one byte of results
/// at `roff` (byte accesses: the point is liveness and identity of the area,
/// not its contents).
struct Imp<const SIZE: usize, const ROFF: usize>;

unsafe fn host_write_results() {
    H.returned = true;
    H.resolved_delivered = true;
    if H.area_size > 0 {
        // The host stores the results through the pointer it was given.
        *H.results_ptr = RESULT_VAL as u8;
    }
}

unsafe fn check_params(l: Lower) {
    assert!(l.flat == TOKEN, "lowered flat parameter corrupted");
    if H.area_size > 0 {
        assert!(l.ptr == H.params_ptr, "lowered parameter pointer is not the allocated area");
        // indirect parameters: the record must still be allocated and intact
        // (read through the host's copy of the pointer, just shown equal)
        assert!(*H.params_ptr == TOKEN as u8, "parameter area freed or overwritten before its lists were released");
    } else {
        assert!(l.ptr.is_null());
    }
}

unsafe impl<const SIZE: usize, const ROFF: usize> Subtask for Imp<SIZE, ROFF> {
    type Params = Params;
    type ParamsLower = Lower;
    type Results = Results;

    fn abi_layout(&mut self) -> Layout {
        unsafe { Layout::from_size_align_unchecked(SIZE, 1) }
    }

    fn results_offset(&mut self) -> usize {
        ROFF
    }

    unsafe fn params_lower(&mut self, params: Params, dst: *mut u8) -> Lower {
        H.lowered += 1;
        let token = params.token;
        core::mem::forget(params);
        H.params_ptr = dst;
        if SIZE > 0 {
            assert!(!dst.is_null(), "Cleanup::new returned null for a non-empty layout");
            *dst = token as u8;
        } else {
            assert!(dst.is_null(), "Cleanup::new must return null for an empty layout");
        }
        Lower { ptr: dst, flat: token }
    }

    unsafe fn call_import(&mut self, params: Lower, results: *mut u8) -> u32 {
        H.call_imports += 1;
        assert!(H.call_imports == 1, "import called twice");
        check_params(params);
        H.results_ptr = results;
        if SIZE > 0 {
            assert!(results == H.params_ptr.add(ROFF), "result pointer is not area + results_offset");
        }
        let st: u32 = kani::any();
        kani::assume(st == STARTING || st == STARTED || st == RETURNED);
        H.seen = st;
        if st == RETURNED {
            host_write_results();
            return RETURNED;
        }
        let h: u32 = kani::any();
        kani::assume(h >= 1 && h < (1 << 28));
        H.handle = h;
        mt::G.expect_waitable = h;
        st | (h << 4)
    }

    unsafe fn params_dealloc_lists(&mut self, lower: Lower) {
        H.dealloc_lists += 1;
        assert!(H.seen != STARTING, "parameter lists released although the callee was never told to have started");
        check_params(lower);
    }

    unsafe fn params_dealloc_lists_and_own(&mut self, lower: Lower) {
        H.dealloc_lists_and_own += 1;
        check_params(lower);
    }

    unsafe fn results_lift(&mut self, src: *mut u8) -> Results {
        H.lifted += 1;
        assert!(H.returned, "results lifted although the call did not return");
        if SIZE > 0 {
            assert!(src == H.results_ptr, "results lifted from a pointer the host did not write");
            assert!(*H.results_ptr == RESULT_VAL as u8, "result area freed or overwritten before the lift");
        } else {
            assert!(src.is_null());
        }
        Results { val: RESULT_VAL }
    }
}

/// `[subtask-cancel]` (sync form).
unsafe fn stub_subtask_cancel(handle: u32) -> u32 {
    assert!(handle != 0 && handle == H.handle, "subtask.cancel on a handle the host never issued");
    assert!(!H.resolved_delivered, "subtask.cancel on a call that is no longer in progress (host traps)");
    assert!(H.cancel_calls == 0, "subtask.cancel twice (host traps)");
    assert!(
        !mt::registered_anywhere(handle),
        "subtask.cancel while the subtask is still registered with a task"
    );
    H.cancel_calls += 1;
    let ans: u32 = kani::any();
    if H.seen == STARTING {
        kani::assume(ans == STARTED_CANCELLED || ans == RETURNED_CANCELLED || ans == RETURNED);
    } else {
        kani::assume(ans == RETURNED_CANCELLED || ans == RETURNED);
    }
    H.cancel_answer = ans;
    H.seen = ans;
    H.resolved_delivered = true;
    if ans == RETURNED {
        host_write_results();
    }
    ans
}

/// `[subtask-drop]`.
unsafe fn stub_subtask_drop(handle: u32) {
    assert!(handle != 0 && handle == H.handle, "subtask.drop on a handle the host never issued");
    assert!(H.resolved_delivered, "subtask.drop before the resolution was delivered (host traps)");
    assert!(
        !mt::registered_anywhere(handle),
        "subtask.drop while the subtask is still registered with a task"
    );
    assert!(H.drop_calls == 0, "subtask.drop twice");
    H.drop_calls += 1;
    mt::G.handle_closed = true;
}

/// The host reports progress for the registered subtask.
unsafe fn host_event(t: usize) {
    let code: u32 = kani::any();
    if H.seen == STARTING {
        kani::assume(code == STARTED || code == RETURNED);
    } else {
        kani::assume(code == RETURNED);
    }
    H.seen = code;
    if code == RETURNED {
        host_write_results();
    }
    mt::deliver(t, code);
}

unsafe fn can_event() -> bool {
    mt::L[0].reg_set && !H.resolved_delivered && H.handle != 0
}

/// Poll the call future once.
unsafe fn step_poll<F: Future<Output = Results>>(
    fut: core::pin::Pin<&mut F>,
    cx: &mut Context<'_>,
    task: *mut mt::wasip3_task,
) -> Option<Results> {
    let r = match fut.poll(cx) {
        Poll::Ready(r) => Some(r),
        Poll::Pending => {
            assert!(mt::L[0].reg_set, "pending subtask is not registered with the task");
            assert!(mt::L[0].reg_waitable == H.handle);
            None
        }
    };
    assert!(mt::G.cur == task, "wasip3_task_set cell not restored");
    r
}

/// Straight-line schedules.  `P` = poll the future, `E` = the host reports
/// progress (always possible when the previous poll returned `Pending`: the
/// subtask is then registered and unresolved).  The future is dropped when the
/// script ends, or earlier as soon as a poll returns `Ready`.  Nested `if`s
/// rather than a loop so that CBMC keeps the state-machine discriminants
/// concrete along each path.
macro_rules! steps {
    ($fut:ident, $cx:ident, $task:ident, $res:ident;) => {};
    ($fut:ident, $cx:ident, $task:ident, $res:ident; P $($rest:tt)*) => {
        $res = step_poll($fut.as_mut(), &mut $cx, $task);
        if $res.is_none() {
            steps!($fut, $cx, $task, $res; $($rest)*);
        }
    };
    ($fut:ident, $cx:ident, $task:ident, $res:ident; E $($rest:tt)*) => {
        assert!(can_event(), "harness: no event possible here");
        host_event(0);
        steps!($fut, $cx, $task, $res; $($rest)*);
    };
}

/// Installs the mock exporting task.
/// * `version`: task C ABI version (1 or 2; `None` = symbolic);
/// * v2 only: whether `clone` hands out fresh pointers is symbolic.
macro_rules! scenario {
    ($size:expr, $roff:expr, $version:expr; $($script:tt)*) => {{
        let mut imp = Imp::<$size, $roff>;
        H.area_size = $size;
        let mut t1 = mt::new_v1_a();
        let mut t2 = mt::new_v2_a();
        let version: u32 = match $version {
            Some(v) => v,
            None => if kani::any() { 1 } else { 2 },
        };
        let task: *mut mt::wasip3_task = if version == 1 {
            &mut t1
        } else {
            (&mut t2 as *mut mt::wasip3_task_v2).cast()
        };
        mt::G.cur = task;
        mt::G.clone_distinct = if version == 1 { false } else { kani::any() };

        let mut cx = Context::from_waker(Waker::noop());
        #[allow(unused_assignments, unused_mut)]
        let mut result: Option<Results> = None;
        {
            #[allow(unused_mut)]
            let mut fut = pin!(imp.call(Params { token: TOKEN }));
            steps!(fut, cx, task, result; $($script)*);
            // `fut` is dropped here: no-op if it completed, cancellation otherwise.
        }
        mt::G.op_alive = false;
        assert!(mt::G.cur == task, "wasip3_task_set cell not restored");
        finish(result, version);
    }};
}

/// Ledger checks once the future is gone.
unsafe fn finish(result: Option<Results>, version: u32) {
    mt::assert_quiescent();
    if version == 1 {
        assert!(mt::L[0].clones_made == 0, "v1 task has no vtable to clone through");
    }

    if H.lowered == 0 {
        // never started: the parameters were dropped as a Rust value
        assert!(H.call_imports == 0);
        assert!(H.params_rust_dropped == 1, "unstarted call: parameters not dropped exactly once");
        assert!(H.dealloc_lists == 0 && H.dealloc_lists_and_own == 0);
        assert!(H.lifted == 0 && H.drop_calls == 0 && H.cancel_calls == 0);
    } else {
        assert!(H.lowered == 1 && H.params_rust_dropped == 0);
        assert!(H.call_imports == 1);
        assert!(H.resolved_delivered, "future ended while the call is still in progress");
        // exactly one of the two parameter clean-ups, exactly once
        assert!(
            H.dealloc_lists + H.dealloc_lists_and_own == 1,
            "lowered parameters must be released exactly once"
        );
        // owned parameters released by the guest only if cancelled before start
        assert!(
            (H.dealloc_lists_and_own == 1) == (H.cancel_answer == STARTED_CANCELLED),
            "owned parameters are released by the guest iff the call was cancelled before it started"
        );
    }
    // results lifted exactly once iff the call returned
    assert!(H.lifted == if H.returned { 1 } else { 0 }, "results lifted exactly once iff the call returned");
    // subtask handle dropped exactly once iff one was created
    assert!(
        H.drop_calls == if H.handle != 0 { 1 } else { 0 },
        "subtask handle dropped exactly once iff one was created"
    );
    if H.handle == 0 {
        assert!(H.cancel_calls == 0);
    }
    // every event the host delivered was consumed by the state machine
    // the lifted value is the one the host stored, and is owned exactly once
    if let Some(r) = &result {
        assert!(r.val == RESULT_VAL);
        assert!(H.returned && H.cancel_calls == 0);
    }
    let held = if result.is_some() { 1 } else { 0 };
    assert!(H.results_rust_dropped + held == H.lifted, "lifted results owned exactly once");
    core::mem::forget(result);
}

macro_rules! c21 {
    ($name:ident, $unwind:expr, $size:expr, $roff:expr, $version:expr, [$($script:tt)*], $covers:expr) => {
        #[kani::proof]
        #[kani::unwind($unwind)]
        #[kani::stub(wit_bindgen::rt::async_support::cabi::wasip3_task_set, crate::mock_task::stub_task_set)]
        #[kani::stub(wit_bindgen::rt::async_support::subtask::cancel, stub_subtask_cancel)]
        #[kani::stub(wit_bindgen::rt::async_support::subtask::drop, stub_subtask_drop)]
        fn $name() {
            unsafe {
                scenario!($size, $roff, $version; $($script)*);
                let f: fn() = $covers;
                f();
            }
        }
    };
}

// ---- vacuity witnesses (one set per schedule) ---------------------------
fn cov_d() {
    unsafe {
        kani::cover!(H.lowered == 0 && H.params_rust_dropped == 1, "dropped before the first poll");
    }
}
fn cov_pd() {
    unsafe {
        kani::cover!(H.handle == 0 && H.lifted == 1, "returned immediately");
        kani::cover!(H.cancel_answer == STARTED_CANCELLED, "cancel won before start");
        kani::cover!(H.cancel_answer == RETURNED_CANCELLED && H.dealloc_lists == 1, "cancel won after start");
        kani::cover!(H.cancel_answer == RETURNED && H.lifted == 1, "cancel lost: callee returned");
        kani::cover!(mt::L[0].clones_made > 0, "v2 task: clone taken");
    }
}
fn cov_ped() {
    unsafe {
        kani::cover!(
            H.returned && H.cancel_calls == 0 && H.handle != 0 && H.results_rust_dropped == 1,
            "dropped with a queued RETURNED event: results lifted and dropped, no cancel"
        );
        kani::cover!(
            H.cancel_calls == 1 && mt::L[0].n_delivered == 1 && H.cancel_answer == RETURNED_CANCELLED,
            "dropped with a queued STARTED event, then cancelled"
        );
        kani::cover!(
            H.cancel_calls == 1 && mt::L[0].n_delivered == 1 && H.cancel_answer == RETURNED,
            "dropped with a queued STARTED event, cancel lost"
        );
    }
}
fn cov_pepd() {
    unsafe {
        kani::cover!(H.returned && H.cancel_calls == 0 && H.results_rust_dropped == 0, "one event, polled to completion");
        kani::cover!(H.cancel_calls == 1 && mt::L[0].n_register == 2, "started, re-registered, then dropped: cancel");
    }
}
fn cov_peped() {
    unsafe {
        kani::cover!(mt::L[0].n_delivered == 2 && H.results_rust_dropped == 1, "STARTED polled, RETURNED queued at drop");
    }
}
fn cov_pepepd() {
    unsafe {
        kani::cover!(
            mt::L[0].n_delivered == 2 && H.results_rust_dropped == 0 && H.lifted == 1,
            "starting -> started -> returned, polled to completion"
        );
    }
}
fn cov_ppd() {
    unsafe {
        kani::cover!(mt::L[0].n_register == 2 && H.cancel_calls == 1, "re-polled without an event, then dropped");
    }
}
fn cov_ppepd() {
    unsafe {
        kani::cover!(mt::L[0].n_register == 2 && H.lifted == 1 && H.cancel_calls == 0, "re-polled without an event, later completed");
    }
}

// Quick tier: 2-byte area (one parameter byte, one result byte); unwind 3 =
// the two bytes `Cleanup::drop` poisons + loop exit.  Task ABI version and
// clone behaviour symbolic.
c21!(c21_flat_d, 3, 0, 0, None, [], cov_d);
c21!(c21_flat_pd, 3, 0, 0, None, [P], cov_pd);
c21!(c21_flat_ped, 3, 0, 0, None, [P E], cov_ped);
c21!(c21_flat_pepd, 3, 0, 0, None, [P E P], cov_pepd);
c21!(c21_flat_peped, 3, 0, 0, None, [P E P E], cov_peped);
c21!(c21_flat_pepepd, 3, 0, 0, None, [P E P E P], cov_pepepd);
c21!(c21_flat_ppd, 3, 0, 0, None, [P P], cov_ppd);
c21!(c21_flat_ppepd, 3, 0, 0, None, [P P E P], cov_ppepd);

c21!(c21_ind_d, 3, 2, 1, None, [], cov_d);
c21!(c21_ind_pd, 3, 2, 1, None, [P], cov_pd);
c21!(c21_ind_ped, 3, 2, 1, None, [P E], cov_ped);
c21!(c21_ind_pepd, 3, 2, 1, None, [P E P], cov_pepd);
c21!(c21_ind_peped, 3, 2, 1, None, [P E P E], cov_peped);
c21!(c21_ind_pepepd, 3, 2, 1, None, [P E P E P], cov_pepepd);
c21!(c21_ind_ppd, 3, 2, 1, None, [P P], cov_ppd);
c21!(c21_ind_ppepd, 3, 2, 1, None, [P P E P], cov_ppepd);

// Thorough tier: 8-byte area with the results at offset 4 (unwind 9 = eight
// poisoned bytes + loop exit), and longer schedules with more spurious polls.
fn cov_pppd() {
    unsafe {
        kani::cover!(mt::L[0].n_register == 3 && H.cancel_calls == 1, "two spurious re-polls, then dropped");
    }
}
fn cov_peppd() {
    unsafe {
        kani::cover!(
            mt::L[0].n_delivered == 1 && mt::L[0].n_register == 3 && H.cancel_calls == 1 && H.dealloc_lists == 1,
            "STARTED polled, spurious re-poll, dropped: cancel after start"
        );
    }
}
fn cov_ppeped() {
    unsafe {
        kani::cover!(mt::L[0].n_delivered == 2 && mt::L[0].n_register == 3 && H.results_rust_dropped == 1, "spurious poll, two events, RETURNED queued at drop");
    }
}
c21!(c21_deep_pepepd, 9, 8, 4, None, [P E P E P], cov_pepepd);
c21!(c21_deep_peped, 9, 8, 4, None, [P E P E], cov_peped);
c21!(c21_deep_ppepd, 9, 8, 4, None, [P P E P], cov_ppepd);
c21!(c21_deep_pppd, 9, 8, 4, None, [P P P], cov_pppd);
c21!(c21_deep_peppd, 9, 8, 4, None, [P E P P], cov_peppd);
c21!(c21_deep_ppeped, 9, 8, 4, None, [P P E P E], cov_ppeped);
