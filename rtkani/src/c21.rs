//! C21 — async import calls release parameters and results exactly once.
//!
//! Real code: `Subtask::call`, `SubtaskOps::{start, in_progress_update,
//! in_progress_cancel}`, `InProgress::{flag_started, ptr_results}`,
//! `SubtaskHandle::drop` (subtask.rs), all of `WaitableOperation`
//! (waitable.rs), `rt::Cleanup`.
//!
//! Mock host contract (component-model canonical ABI, `canon lower` with
//! `async`, `subtask.cancel` (sync), `subtask.drop`):
//!
//! * the call returns `RETURNED` with no handle, or `STARTING`/`STARTED` packed
//!   with a non-zero handle `< 2^28`;
//! * status events are monotone: after `STARTING` the guest may be told
//!   `STARTED` or `RETURNED` (events coalesce), after `STARTED` only
//!   `RETURNED`; an event is delivered only while the subtask is joined to the
//!   task's set, i.e. registered with the mock task;
//! * `subtask.cancel` on a not-yet-started call answers `STARTED_CANCELLED`,
//!   `RETURNED_CANCELLED` or `RETURNED`; on a started call `RETURNED_CANCELLED`
//!   or `RETURNED`; it traps once the resolution was delivered;
//! * `subtask.drop` traps unless the resolution was delivered;
//! * the host reads the parameter area during the call and writes the result
//!   area right before it reports `RETURNED` (so a guest that frees the area
//!   early is caught by Kani's dangling-pointer check).

use crate::mock_task as mt;
use core::alloc::Layout;
use core::future::Future;
use core::pin::pin;
use core::task::{Context, Poll, Waker};
use wit_bindgen::rt::async_support::Subtask;

const STARTING: u32 = 0;
const STARTED: u32 = 1;
const RETURNED: u32 = 2;
const STARTED_CANCELLED: u32 = 3;
const RETURNED_CANCELLED: u32 = 4;

pub(crate) const TOKEN: u32 = 0x5eed_0001;
const RESULT_VAL: u32 = 0x0dd_ba11;

static mut NOMEM: bool = false;
static mut MEMMODE: u32 = 0; // 0 = u32 accesses, 1 = single byte accesses, 2 = write-only touches

unsafe fn mem_store(p: *mut u8, v: u32) {
    match MEMMODE {
        0 => *(p as *mut u32) = v,
        1 => *p = v as u8,
        _ => *p = v as u8,
    }
}
unsafe fn mem_check(p: *mut u8, v: u32) {
    match MEMMODE {
        0 => assert!(*(p as *const u32) == v),
        1 => assert!(*p == v as u8),
        // liveness only: a store needs a live, in-bounds object as much as a load
        _ => *p = v as u8,
    }
}

static mut CONSTH: bool = false;

pub(crate) struct Host {
    handle: u32,
    /// Last status the guest was told.
    seen: u32,
    /// The guest was told a terminal status (2, 3 or 4).
    resolved_delivered: bool,
    /// The guest was told `RETURNED`.
    returned: bool,
    cancel_answer: u32,
    cancel_calls: u32,
    drop_calls: u32,
    call_imports: u32,
    pub(crate) area_size: usize,
    params_ptr: *mut u8,
    results_ptr: *mut u8,
    lowered: u32,
    dealloc_lists: u32,
    dealloc_lists_and_own: u32,
    lifted: u32,
    params_rust_dropped: u32,
    results_rust_dropped: u32,
    queued_unpolled: bool,
}

pub(crate) static mut H: Host = Host {
    handle: 0,
    seen: STARTING,
    resolved_delivered: false,
    returned: false,
    cancel_answer: u32::MAX,
    cancel_calls: 0,
    drop_calls: 0,
    call_imports: 0,
    area_size: 0,
    params_ptr: core::ptr::null_mut(),
    results_ptr: core::ptr::null_mut(),
    lowered: 0,
    dealloc_lists: 0,
    dealloc_lists_and_own: 0,
    lifted: 0,
    params_rust_dropped: 0,
    results_rust_dropped: 0,
    queued_unpolled: false,
};

pub(crate) struct Params {
    pub(crate) token: u32,
}
impl Drop for Params {
    fn drop(&mut self) {
        unsafe { H.params_rust_dropped += 1 }
    }
}

pub(crate) struct Results {
    val: u32,
}
impl Drop for Results {
    fn drop(&mut self) {
        unsafe { H.results_rust_dropped += 1 }
    }
}

#[derive(Clone, Copy)]
pub(crate) struct Lower {
    /// Indirect parameters: pointer to the parameter record (null when the
    /// layout is empty, i.e. everything is flat).
    ptr: *mut u8,
    /// Flat parameter.
    flat: u32,
}

pub(crate) struct Imp {
    pub(crate) size: usize,
    pub(crate) roff: usize,
}

unsafe fn host_write_results() {
    H.returned = true;
    H.resolved_delivered = true;
    if H.area_size > 0 && !NOMEM {
        // The host stores the results through the pointer it was given.
        mem_store(H.results_ptr, RESULT_VAL);
    }
}

unsafe fn check_params(l: Lower) {
    assert!(l.flat == TOKEN);
    if NOMEM {
        return;
    }
    if H.area_size > 0 && !NOMEM {
        assert!(l.ptr == H.params_ptr);
        // indirect parameters: the record must still be allocated and intact
        // (read through the host's copy of the pointer, just shown equal: a
        // pointer that travelled through the future's state machine has an
        // imprecise points-to set in CBMC and makes the proof explode)
        mem_check(H.params_ptr, TOKEN);
    } else {
        assert!(l.ptr.is_null());
    }
}

unsafe impl Subtask for Imp {
    type Params = Params;
    type ParamsLower = Lower;
    type Results = Results;

    fn abi_layout(&mut self) -> Layout {
        unsafe { Layout::from_size_align_unchecked(self.size, 4) }
    }

    fn results_offset(&mut self) -> usize {
        self.roff
    }

    unsafe fn params_lower(&mut self, params: Params, dst: *mut u8) -> Lower {
        H.lowered += 1;
        let token = params.token;
        core::mem::forget(params);
        H.params_ptr = dst;
        if self.size > 0 {
            assert!(!dst.is_null(), "Cleanup::new returned null for a non-empty layout");
            if !NOMEM {
                mem_store(dst, token);
            }
        } else {
            assert!(dst.is_null(), "Cleanup::new must return null for an empty layout");
        }
        Lower { ptr: dst, flat: token }
    }

    unsafe fn call_import(&mut self, params: Lower, results: *mut u8) -> u32 {
        H.call_imports += 1;
        assert!(H.call_imports == 1, "import called twice");
        check_params(params);
        H.results_ptr = results;
        if self.size > 0 {
            assert!(results == H.params_ptr.add(self.roff));
        }
        let st: u32 = kani::any();
        kani::assume(st == STARTING || st == STARTED || st == RETURNED);
        H.seen = st;
        if st == RETURNED {
            host_write_results();
            return RETURNED;
        }
        let h: u32 = if CONSTH { 5 } else { kani::any() };
        kani::assume(h >= 1 && h < (1 << 28));
        H.handle = h;
        mt::EXPECT_WAITABLE = h;
        st | (h << 4)
    }

    unsafe fn params_dealloc_lists(&mut self, lower: Lower) {
        H.dealloc_lists += 1;
        check_params(lower);
    }

    unsafe fn params_dealloc_lists_and_own(&mut self, lower: Lower) {
        H.dealloc_lists_and_own += 1;
        check_params(lower);
    }

    unsafe fn results_lift(&mut self, src: *mut u8) -> Results {
        H.lifted += 1;
        assert!(H.returned, "results lifted although the call did not return");
        if self.size > 0 && !NOMEM {
            assert!(src == H.results_ptr);
            mem_check(H.results_ptr, RESULT_VAL);
            Results { val: RESULT_VAL }
        } else {
            Results { val: RESULT_VAL }
        }
    }
}

/// `[subtask-cancel]` (sync form).
pub(crate) unsafe fn stub_subtask_cancel(handle: u32) -> u32 {
    assert!(handle != 0 && handle == H.handle, "subtask.cancel on a handle the host never issued");
    assert!(!H.resolved_delivered, "subtask.cancel on a call that is no longer in progress (host traps)");
    assert!(H.cancel_calls == 0, "subtask.cancel twice (host traps)");
    assert!(
        !mt::registered_anywhere(handle),
        "subtask.cancel while the subtask is still registered with a task"
    );
    H.cancel_calls += 1;
    let ans: u32 = kani::any();
    if H.seen == STARTING {
        kani::assume(ans == STARTED_CANCELLED || ans == RETURNED_CANCELLED || ans == RETURNED);
    } else {
        kani::assume(ans == RETURNED_CANCELLED || ans == RETURNED);
    }
    H.cancel_answer = ans;
    H.seen = ans;
    H.resolved_delivered = true;
    if ans == RETURNED {
        host_write_results();
    }
    ans
}

/// `[subtask-drop]`.
pub(crate) unsafe fn stub_subtask_drop(handle: u32) {
    assert!(handle != 0 && handle == H.handle, "subtask.drop on a handle the host never issued");
    assert!(H.resolved_delivered, "subtask.drop before the resolution was delivered (host traps)");
    assert!(
        !mt::registered_anywhere(handle),
        "subtask.drop while the subtask is still registered with a task"
    );
    assert!(H.drop_calls == 0, "subtask.drop twice");
    H.drop_calls += 1;
}

/// The host reports progress for the registered subtask.
unsafe fn host_event(t: usize) {
    let code: u32 = kani::any();
    if H.seen == STARTING {
        kani::assume(code == STARTED || code == RETURNED);
    } else {
        kani::assume(code == RETURNED);
    }
    H.seen = code;
    if code == RETURNED {
        host_write_results();
    }
    H.queued_unpolled = true;
    mt::deliver(t, code);
}

unsafe fn can_event() -> bool {
    mt::L[0].reg_set && !H.resolved_delivered && H.handle != 0
}

unsafe fn run(version: u32, events: usize) {
    run_cfg(version, events, None, None)
}

unsafe fn run_cfg(version: u32, events: usize, big: Option<bool>, distinct: Option<bool>) {
    run_cfg2(version, events, big, distinct, 0)
}

unsafe fn run_cfg2(version: u32, events: usize, big: Option<bool>, distinct: Option<bool>, mode: u32) {
    NOMEM = mode & 8 != 0;
    CONSTH = mode & 16 != 0;
    MEMMODE = (mode >> 5) & 3;
    let big: bool = match big {
        Some(b) => b,
        None => kani::any(),
    };
    let mut imp = Imp {
        size: if big { 8 } else { 0 },
        roff: if big { 4 } else { 0 },
    };
    H.area_size = imp.size;

    let mut t1 = mt::new_v1(0);
    let mut t2 = mt::new_v2(0);
    let task: *mut mt::wasip3_task = if version == 1 {
        &mut t1
    } else {
        (&mut t2 as *mut mt::wasip3_task_v2).cast()
    };
    mt::CUR = task;
    mt::CLONE_DISTINCT = match distinct {
        Some(b) => b,
        None => kani::any(),
    };

    let mut cx = Context::from_waker(Waker::noop());
    let mut result: Option<Results> = None;
    let mut polled = false;
    {
        let mut fut = pin!(imp.call(Params { token: TOKEN }));
        if mode & 1 != 0 || kani::any() {
            polled = true;
            match fut.as_mut().poll(&mut cx) {
                Poll::Ready(r) => result = Some(r),
                Poll::Pending => {
                    assert!(mt::L[0].reg_set, "pending subtask is not registered with the task");
                }
            }
            let mut i = 0;
            while i < events {
                if result.is_some() {
                    break;
                }
                if kani::any() && can_event() {
                    host_event(0);
                }
                if kani::any() {
                    H.queued_unpolled = false;
                    match fut.as_mut().poll(&mut cx) {
                        Poll::Ready(r) => result = Some(r),
                        Poll::Pending => {
                            assert!(
                                mt::L[0].reg_set,
                                "pending subtask is not registered with the task"
                            );
                        }
                    }
                    assert!(mt::CUR == task, "wasip3_task_set cell not restored");
                }
                i += 1;
            }
        }
        // `fut` is dropped here: no-op if it completed, cancellation otherwise.
    }
    mt::OP_ALIVE = false;

    // ---- ledgers -------------------------------------------------------
    if mode & 2 != 0 {
        kani::cover!(result.is_some());
        core::mem::forget(result);
        return;
    }
    mt::assert_quiescent();
    assert!(mt::CUR == task, "wasip3_task_set cell not restored");

    if !polled {
        assert!(H.lowered == 0 && H.call_imports == 0);
    }
    if H.lowered == 0 {
        // never started: the parameters were dropped as a Rust value
        assert!(H.params_rust_dropped == 1);
        assert!(H.dealloc_lists == 0 && H.dealloc_lists_and_own == 0);
        assert!(H.lifted == 0 && H.drop_calls == 0 && H.cancel_calls == 0);
    } else {
        assert!(H.lowered == 1 && H.params_rust_dropped == 0);
        assert!(H.resolved_delivered, "future ended while the call is still in progress");
        // exactly one of the two parameter clean-ups, exactly once
        assert!(H.dealloc_lists + H.dealloc_lists_and_own == 1);
        // owned parameters released by the guest only if cancelled before start
        assert!((H.dealloc_lists_and_own == 1) == (H.cancel_answer == STARTED_CANCELLED));
    }
    // results lifted exactly once iff the call returned
    assert!(H.lifted == if H.returned { 1 } else { 0 });
    // subtask handle dropped exactly once iff one was created
    assert!(H.drop_calls == if H.handle != 0 { 1 } else { 0 });
    if H.handle == 0 {
        assert!(H.cancel_calls == 0);
    }
    // the lifted value is the one the host stored, and is owned exactly once
    if let Some(r) = &result {
        assert!(r.val == RESULT_VAL);
        assert!(H.returned && H.cancel_calls == 0);
    }
    let held = if result.is_some() { 1 } else { 0 };
    assert!(H.results_rust_dropped + held == H.lifted);

    // ---- vacuity witnesses --------------------------------------------
    if mode & 4 != 0 {
        kani::cover!(result.is_some());
        core::mem::forget(result);
        return;
    }
    kani::cover!(H.cancel_answer == STARTED_CANCELLED, "cancel won before start");
    kani::cover!(H.cancel_answer == RETURNED_CANCELLED, "cancel won after start");
    kani::cover!(H.cancel_answer == RETURNED, "cancel lost: callee returned");
    kani::cover!(result.is_some() && H.handle == 0, "returned immediately");
    kani::cover!(
        result.is_some() && mt::L[0].n_delivered == 2,
        "starting -> started -> returned, polled to completion"
    );
    kani::cover!(
        result.is_none() && H.returned && H.cancel_calls == 0 && H.handle != 0,
        "dropped with a queued RETURNED event"
    );
    kani::cover!(!polled, "dropped before the first poll");
    kani::cover!(big && H.lifted == 1, "indirect area, results lifted");
    kani::cover!(!big && H.lifted == 1, "empty layout, results lifted");

    core::mem::forget(result);
}

#[kani::proof]
#[kani::unwind(10)]
#[kani::stub(wit_bindgen::rt::async_support::cabi::wasip3_task_set, crate::mock_task::stub_task_set)]
#[kani::stub(wit_bindgen::rt::async_support::subtask::cancel, stub_subtask_cancel)]
#[kani::stub(wit_bindgen::rt::async_support::subtask::drop, stub_subtask_drop)]
fn c21_subtask_v1() {
    unsafe { run(1, 2) }
}

#[kani::proof]
#[kani::unwind(10)]
#[kani::stub(wit_bindgen::rt::async_support::cabi::wasip3_task_set, crate::mock_task::stub_task_set)]
#[kani::stub(wit_bindgen::rt::async_support::subtask::cancel, stub_subtask_cancel)]
#[kani::stub(wit_bindgen::rt::async_support::subtask::drop, stub_subtask_drop)]
fn c21_subtask_v2() {
    unsafe { run(2, 2) }
}

macro_rules! xh {
    ($name:ident, $v:expr, $e:expr, $b:expr, $d:expr) => {
        xh!($name, $v, $e, $b, $d, 0);
    };
    ($name:ident, $v:expr, $e:expr, $b:expr, $d:expr, $m:expr) => {
        #[kani::proof]
        #[kani::unwind(10)]
        #[kani::stub(wit_bindgen::rt::async_support::cabi::wasip3_task_set, crate::mock_task::stub_task_set)]
        #[kani::stub(wit_bindgen::rt::async_support::subtask::cancel, stub_subtask_cancel)]
        #[kani::stub(wit_bindgen::rt::async_support::subtask::drop, stub_subtask_drop)]
        fn $name() {
            unsafe { run_cfg2($v, $e, $b, $d, $m) }
        }
    };
}
xh!(x21_a, 1, 0, None, None);
xh!(x21_b, 1, 1, None, None);
xh!(x21_c, 1, 2, Some(false), None);
xh!(x21_d, 1, 2, Some(true), Some(false));
xh!(x21_e, 1, 0, Some(true), Some(false), 0);
xh!(x21_f, 1, 0, Some(true), Some(false), 1);
xh!(x21_g, 1, 0, Some(true), Some(false), 2);
xh!(x21_h, 1, 0, Some(true), Some(false), 4);
xh!(x21_k, 1, 1, Some(true), Some(false), 0);
xh!(x21_l, 1, 2, Some(true), Some(false), 2);
xh!(x21_m, 1, 1, Some(true), Some(false), 8);
xh!(x21_n, 1, 1, Some(true), Some(false), 16);
xh!(x21_o, 1, 1, Some(true), Some(false), 24);
xh!(x21_p, 1, 1, Some(true), Some(false), 32);
xh!(x21_q, 1, 1, Some(true), Some(false), 64);
