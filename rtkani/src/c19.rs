//! C19 — stream writes/reads transfer each value exactly once, in order.
//!
//! Real code: `RawStreamWriter::{write, write_buf, write_all, write_one, Drop}`,
//! `StreamWriteOp`, `RawStreamWrite::{poll, cancel}`, `RawStreamReader::{read,
//! next, collect, Drop}`, `StreamReadOp`, `RawStreamRead::{poll, cancel}`
//! (stream_support.rs), `AbiBuffer::{new, abi_ptr_and_len, advance, into_vec,
//! remaining, Drop}` (abi_buffer.rs), `ReturnCode::decode` (async_support.rs),
//! all of `WaitableOperation` (waitable.rs), `Cleanup`.
//!
//! The mock host implements `StreamOps` directly (no vtable: calls are static
//! and the element layout is a literal, which keeps CBMC's formula small).
//! Contract (canonical ABI `stream.{read,write,cancel-*,drop-*}`), items are
//! one byte wide:
//!
//! * `stream.write(h, ptr, n)` answers `COMPLETED(k)` with `1 <= k <= n`
//!   (`k = 0` only for `n = 0`), `DROPPED(k)` with `0 <= k <= n` (the reader
//!   went away after taking `k` items; every later write answers
//!   `DROPPED(0)`), or `BLOCKED`; a blocked write later gets one event
//!   `COMPLETED(k >= 1)` or `DROPPED(k)` while the end is registered;
//!   `stream.cancel-write` (sync) answers `COMPLETED(k>=1)`, `DROPPED(k)` or
//!   `CANCELLED(k)`, and traps unless a write is in progress and the end is
//!   registered nowhere; the host copies the `k` items out of the buffer at
//!   the moment it reports them (dangling-pointer check) and appends them to
//!   its item log;
//! * `stream.read` is the mirror image: the host stores `k` fresh items
//!   (`0x40, 0x41, ...` in order) into the buffer when it reports them;
//! * `drop-readable` / `drop-writable` trap while an operation is in
//!   progress on that end or the end is still registered with a task.

use crate::mock_task as mt;
use core::alloc::Layout;
use core::future::Future;
use core::pin::{pin, Pin};
use core::task::{Context, Poll, Waker};
use wit_bindgen::rt::async_support::verif_hooks::{
    abi_buffer_advance, abi_buffer_new, abi_buffer_ptr_and_len, return_code_decode,
};
use wit_bindgen::rt::async_support::{
    AbiBuffer, RawStreamReader, RawStreamWriter, StreamOps, StreamResult,
};

const BLOCKED: u32 = 0xffff_ffff;
const COMPLETED: u32 = 0;
const DROPPED: u32 = 1;
const CANCELLED: u32 = 2;

/// Items the guest writes: `W0, W0+1, ...`; items the host produces: `R0, R0+1, ...`.
const W0: u8 = 0x10;
const R0: u8 = 0x40;
const MAXI: usize = 4;

struct Host {
    /// unique first bytes: see mock_task::Globals
    magic: u64,
    /// width of one item in the buffer (1, or 4 / 8 for the wide canonical payloads)
    elem_size: usize,
    /// ZST harnesses: what the guest offered / what the host answered
    z_offered: usize,
    z_k: usize,
    /// the host never answers BLOCKED (harnesses about consecutive operations)
    no_block: bool,
    wh: u32,
    rh: u32,
    // write side
    write_in_progress: bool,
    write_ptr: *const u8,
    write_len: usize,
    writes_started: u32,
    log_n: usize, // items received so far; item i must be W0 + i
    reader_dropped: bool,
    cancel_write_calls: u32,
    drop_writable_calls: u32,
    last_k: u32,
    // read side
    read_in_progress: bool,
    read_ptr: *mut u8,
    read_cap: usize,
    reads_started: u32,
    produced_n: usize, // items handed to the guest so far
    writer_dropped: bool,
    cancel_read_calls: u32,
    drop_readable_calls: u32,
    // lifted-payload ledger, per item index (0..MAXI)
    lowered: [u8; MAXI],
    lifted: [u8; MAXI],
    dealloc: [u8; MAXI],
    rust_dropped: [u8; MAXI],
    read_lifted: [u8; MAXI],
    read_dropped: [u8; MAXI],
}

static mut H: Host = Host {
    magic: 0x6331_395f_686f_7374,
    elem_size: 1,
    z_offered: 0,
    z_k: 0,
    no_block: false,
    wh: 0,
    rh: 0,
    write_in_progress: false,
    write_ptr: core::ptr::null(),
    write_len: 0,
    writes_started: 0,
    log_n: 0,
    reader_dropped: false,
    cancel_write_calls: 0,
    drop_writable_calls: 0,
    last_k: 0,
    read_in_progress: false,
    read_ptr: core::ptr::null_mut(),
    read_cap: 0,
    reads_started: 0,
    produced_n: 0,
    writer_dropped: false,
    cancel_read_calls: 0,
    drop_readable_calls: 0,
    lowered: [0; MAXI],
    lifted: [0; MAXI],
    dealloc: [0; MAXI],
    rust_dropped: [0; MAXI],
    read_lifted: [0; MAXI],
    read_dropped: [0; MAXI],
};

/// How many items a host answer may report, given `n` offered.
fn any_k(min: usize, n: usize) -> usize {
    let k: usize = kani::any();
    kani::assume(k >= min && k <= n);
    k
}

/// The host takes `k` items out of the write buffer (unrolled: k <= 3).
unsafe fn host_take(k: usize) {
    assert!(k <= H.write_len && k <= 3);
    let p = H.write_ptr;
    let es = H.elem_size;
    if k > 0 {
        assert!(*p == W0 + H.log_n as u8, "item reached the host out of order, twice, or not at all");
    }
    if k > 1 {
        assert!(*p.add(es) == W0 + H.log_n as u8 + 1, "item reached the host out of order, twice, or not at all");
    }
    if k > 2 {
        assert!(*p.add(2 * es) == W0 + H.log_n as u8 + 2, "item reached the host out of order, twice, or not at all");
    }
    if es > 1 && k > 0 {
        // wide (little-endian) items 0x10, 0x11, ...: every other byte is zero
        assert!(*p.add(1) == 0 && *p.add(es - 1) == 0, "the buffer offered to the host is not element-aligned with the vector");
    }
    H.log_n += k;
    H.last_k = k as u32;
}

/// The host stores `k` fresh items into the read buffer.
unsafe fn host_give(k: usize) {
    assert!(k <= H.read_cap && k <= 3);
    let p = H.read_ptr;
    if k > 0 {
        *p = R0 + H.produced_n as u8;
    }
    if k > 1 {
        *p.add(H.elem_size) = R0 + H.produced_n as u8 + 1;
    }
    if k > 2 {
        *p.add(2 * H.elem_size) = R0 + H.produced_n as u8 + 2;
    }
    H.produced_n += k;
    H.last_k = k as u32;
}

unsafe fn h_new() -> u64 {
    let w: u32 = kani::any();
    let r: u32 = kani::any();
    kani::assume(w >= 1 && w < (1 << 28) && r >= 1 && r < (1 << 28) && r != w);
    H.wh = w;
    H.rh = r;
    ((w as u64) << 32) | (r as u64)
}

unsafe fn h_start_write(h: u32, ptr: *const u8, n: usize) -> u32 {
    assert!(h == H.wh, "stream.write on a handle that is not the writable end");
    assert!(H.drop_writable_calls == 0, "stream.write after drop-writable");
    assert!(!H.write_in_progress, "stream.write while a write is in progress (host traps)");
    assert!(n < (1 << 28));
    H.writes_started += 1;
    H.write_ptr = ptr;
    H.write_len = n;
    mt::G.expect_waitable = h;
    mt::G.expect_ptr = core::ptr::null_mut();
    // canonical ABI: a copy that answered DROPPED leaves the end in CopyState.DONE;
    // any further stream.write on it traps (`trap_if(e.state != IDLE)`)
    assert!(!H.reader_dropped, "stream.write on an end whose previous write already answered DROPPED (host traps)");
    let kind: u32 = kani::any();
    kani::assume(kind == COMPLETED || kind == DROPPED || (kind == BLOCKED && !H.no_block));
    if kind == BLOCKED {
        H.write_in_progress = true;
        return BLOCKED;
    }
    let k = if kind == COMPLETED { any_k(if n == 0 { 0 } else { 1 }, n) } else { any_k(0, n) };
    host_take(k);
    if kind == DROPPED {
        H.reader_dropped = true;
    }
    kind | ((k as u32) << 4)
}

unsafe fn h_cancel_write(h: u32) -> u32 {
    assert!(h == H.wh);
    assert!(H.write_in_progress, "stream.cancel-write without a write in progress (host traps)");
    assert!(!mt::registered_anywhere(h), "stream.cancel-write while the end is still registered with a task");
    H.cancel_write_calls += 1;
    H.write_in_progress = false;
    let kind: u32 = kani::any();
    kani::assume(kind == COMPLETED || kind == DROPPED || kind == CANCELLED);
    let n = H.write_len;
    let k = if kind == COMPLETED { any_k(if n == 0 { 0 } else { 1 }, n) } else { any_k(0, n) };
    host_take(k);
    if kind == DROPPED {
        H.reader_dropped = true;
    }
    kind | ((k as u32) << 4)
}

unsafe fn h_drop_writable(h: u32) {
    assert!(h == H.wh);
    assert!(!H.write_in_progress, "stream.drop-writable while a write is in progress (host traps)");
    assert!(!mt::registered_anywhere(h), "stream.drop-writable while the end is still registered with a task");
    assert!(H.drop_writable_calls == 0, "stream.drop-writable twice");
    H.drop_writable_calls += 1;
    mt::G.handle_closed = true;
}

unsafe fn h_start_read(h: u32, ptr: *mut u8, n: usize) -> u32 {
    assert!(h == H.rh, "stream.read on a handle that is not the readable end");
    assert!(H.drop_readable_calls == 0, "stream.read after drop-readable");
    assert!(!H.read_in_progress, "stream.read while a read is in progress (host traps)");
    H.reads_started += 1;
    H.read_ptr = ptr;
    H.read_cap = n;
    mt::G.expect_waitable = h;
    mt::G.expect_ptr = core::ptr::null_mut();
    assert!(!H.writer_dropped, "stream.read on an end whose previous read already answered DROPPED (host traps)");
    let kind: u32 = kani::any();
    kani::assume(kind == COMPLETED || kind == DROPPED || (kind == BLOCKED && !H.no_block));
    if kind == BLOCKED {
        H.read_in_progress = true;
        return BLOCKED;
    }
    let k = if kind == COMPLETED { any_k(if n == 0 { 0 } else { 1 }, n) } else { any_k(0, n) };
    host_give(k);
    if kind == DROPPED {
        H.writer_dropped = true;
    }
    kind | ((k as u32) << 4)
}

unsafe fn h_cancel_read(h: u32) -> u32 {
    assert!(h == H.rh);
    assert!(H.read_in_progress, "stream.cancel-read without a read in progress (host traps)");
    assert!(!mt::registered_anywhere(h), "stream.cancel-read while the end is still registered with a task");
    H.cancel_read_calls += 1;
    H.read_in_progress = false;
    let kind: u32 = kani::any();
    kani::assume(kind == COMPLETED || kind == DROPPED || kind == CANCELLED);
    let n = H.read_cap;
    let k = if kind == COMPLETED { any_k(if n == 0 { 0 } else { 1 }, n) } else { any_k(0, n) };
    host_give(k);
    if kind == DROPPED {
        H.writer_dropped = true;
    }
    kind | ((k as u32) << 4)
}

unsafe fn h_drop_readable(h: u32) {
    assert!(h == H.rh);
    assert!(!H.read_in_progress, "stream.drop-readable while a read is in progress (host traps)");
    assert!(!mt::registered_anywhere(h), "stream.drop-readable while the end is still registered with a task");
    assert!(H.drop_readable_calls == 0, "stream.drop-readable twice");
    H.drop_readable_calls += 1;
    mt::G.handle_closed = true;
}

unsafe fn write_event() {
    assert!(H.write_in_progress && mt::L[0].reg_set, "harness: no write event possible here");
    H.write_in_progress = false;
    let kind: u32 = kani::any();
    kani::assume(kind == COMPLETED || kind == DROPPED);
    let n = H.write_len;
    let k = if kind == COMPLETED { any_k(if n == 0 { 0 } else { 1 }, n) } else { any_k(0, n) };
    host_take(k);
    if kind == DROPPED {
        H.reader_dropped = true;
    }
    mt::deliver(0, kind | ((k as u32) << 4));
}

unsafe fn read_event() {
    assert!(H.read_in_progress && mt::L[0].reg_set, "harness: no read event possible here");
    H.read_in_progress = false;
    let kind: u32 = kani::any();
    kani::assume(kind == COMPLETED || kind == DROPPED);
    let n = H.read_cap;
    let k = if kind == COMPLETED { any_k(if n == 0 { 0 } else { 1 }, n) } else { any_k(0, n) };
    host_give(k);
    if kind == DROPPED {
        H.writer_dropped = true;
    }
    mt::deliver(0, kind | ((k as u32) << 4));
}

// ---- payload classes -------------------------------------------------------------

/// Canonical payload: `u8`, native layout == canonical layout, no lists.
#[derive(Clone, Copy)]
struct OpsU8;

unsafe impl StreamOps for OpsU8 {
    type Payload = u8;
    fn new(&mut self) -> u64 {
        unsafe { h_new() }
    }
    fn elem_layout(&self) -> Layout {
        Layout::new::<u8>()
    }
    fn native_abi_matches_canonical_abi(&self) -> bool {
        true
    }
    fn contains_lists(&self) -> bool {
        false
    }
    unsafe fn lower(&mut self, _: u8, _: *mut u8) {
        assert!(false, "lower called for a canonical payload");
    }
    unsafe fn dealloc_lists(&mut self, _: *mut u8) {
        assert!(false, "dealloc_lists called for a payload without lists");
    }
    unsafe fn lift(&mut self, _: *mut u8) -> u8 {
        assert!(false, "lift called for a canonical payload");
        0
    }
    unsafe fn start_write(&mut self, s: u32, p: *const u8, n: usize) -> u32 {
        h_start_write(s, p, n)
    }
    unsafe fn start_read(&mut self, s: u32, p: *mut u8, n: usize) -> u32 {
        h_start_read(s, p, n)
    }
    unsafe fn cancel_read(&mut self, s: u32) -> u32 {
        h_cancel_read(s)
    }
    unsafe fn cancel_write(&mut self, s: u32) -> u32 {
        h_cancel_write(s)
    }
    unsafe fn drop_readable(&mut self, s: u32) {
        h_drop_readable(s)
    }
    unsafe fn drop_writable(&mut self, s: u32) {
        h_drop_writable(s)
    }
}

/// Lifted payload with lists: an owning Rust value `Val(b)` whose canonical
/// form is the byte `b`; ownership is tracked per item.
struct Val(u8);
impl Drop for Val {
    fn drop(&mut self) {
        unsafe {
            if self.0 >= R0 {
                H.read_dropped[(self.0 - R0) as usize] += 1;
            } else {
                H.rust_dropped[(self.0 - W0) as usize] += 1;
            }
        }
    }
}

#[derive(Clone, Copy)]
struct OpsVal;

unsafe impl StreamOps for OpsVal {
    type Payload = Val;
    fn new(&mut self) -> u64 {
        unsafe { h_new() }
    }
    fn elem_layout(&self) -> Layout {
        Layout::new::<u8>()
    }
    fn native_abi_matches_canonical_abi(&self) -> bool {
        false
    }
    fn contains_lists(&self) -> bool {
        true
    }
    unsafe fn lower(&mut self, v: Val, dst: *mut u8) {
        let b = v.0;
        core::mem::forget(v);
        H.lowered[(b - W0) as usize] += 1;
        *dst = b;
    }
    unsafe fn dealloc_lists(&mut self, dst: *mut u8) {
        let b = *dst;
        assert!(b >= W0 && ((b - W0) as usize) < H.log_n, "lists of an item released although the host did not take it");
        H.dealloc[(b - W0) as usize] += 1;
    }
    unsafe fn lift(&mut self, src: *mut u8) -> Val {
        let b = *src;
        if b >= R0 {
            H.read_lifted[(b - R0) as usize] += 1;
        } else {
            H.lifted[(b - W0) as usize] += 1;
        }
        Val(b)
    }
    unsafe fn start_write(&mut self, s: u32, p: *const u8, n: usize) -> u32 {
        h_start_write(s, p, n)
    }
    unsafe fn start_read(&mut self, s: u32, p: *mut u8, n: usize) -> u32 {
        h_start_read(s, p, n)
    }
    unsafe fn cancel_read(&mut self, s: u32) -> u32 {
        h_cancel_read(s)
    }
    unsafe fn cancel_write(&mut self, s: u32) -> u32 {
        h_cancel_write(s)
    }
    unsafe fn drop_readable(&mut self, s: u32) {
        h_drop_readable(s)
    }
    unsafe fn drop_writable(&mut self, s: u32) {
        h_drop_writable(s)
    }
}

/// Payload abstraction for the generic drivers below.
trait Item: Sized + 'static {
    type Ops: StreamOps<Payload = Self> + Copy;
    const OPS: Self::Ops;
    const LIFTED: bool;
    /// size of one item in the canonical buffer
    const SIZE: usize;
    fn make(b: u8) -> Self;
    /// Take a value back into the harness: check its identity, release it without running `Drop`.
    fn check_and_forget(self, b: u8);
}
impl Item for u8 {
    type Ops = OpsU8;
    const OPS: OpsU8 = OpsU8;
    const LIFTED: bool = false;
    const SIZE: usize = 1;
    fn make(b: u8) -> u8 {
        b
    }
    fn check_and_forget(self, b: u8) {
        assert!(self == b, "value handed back is not the expected item");
    }
}
impl Item for Val {
    type Ops = OpsVal;
    const OPS: OpsVal = OpsVal;
    const LIFTED: bool = true;
    const SIZE: usize = 1;
    fn make(b: u8) -> Val {
        Val(b)
    }
    fn check_and_forget(self, b: u8) {
        assert!(self.0 == b, "value handed back is not the expected item");
        core::mem::forget(self);
    }
}

/// Canonical payloads wider than one byte (`u32`, `u64`): same layout in Rust
/// and in the canonical ABI, no lists -- the vector itself is the buffer, and
/// the cursor of a partially written buffer counts ELEMENTS, not bytes.
struct OpsW<T>(core::marker::PhantomData<T>);
impl<T> Clone for OpsW<T> {
    fn clone(&self) -> Self {
        OpsW(core::marker::PhantomData)
    }
}
impl<T> Copy for OpsW<T> {}

unsafe impl<T: Copy + 'static> StreamOps for OpsW<T> {
    type Payload = T;
    fn new(&mut self) -> u64 {
        unsafe { h_new() }
    }
    fn elem_layout(&self) -> Layout {
        Layout::new::<T>()
    }
    fn native_abi_matches_canonical_abi(&self) -> bool {
        true
    }
    fn contains_lists(&self) -> bool {
        false
    }
    unsafe fn lower(&mut self, _: T, _: *mut u8) {
        assert!(false, "lower called for a canonical payload");
    }
    unsafe fn dealloc_lists(&mut self, _: *mut u8) {
        assert!(false, "dealloc_lists called for a payload without lists");
    }
    unsafe fn lift(&mut self, _: *mut u8) -> T {
        assert!(false, "lift called for a canonical payload");
        core::mem::zeroed()
    }
    unsafe fn start_write(&mut self, s: u32, p: *const u8, n: usize) -> u32 {
        h_start_write(s, p, n)
    }
    unsafe fn start_read(&mut self, s: u32, p: *mut u8, n: usize) -> u32 {
        h_start_read(s, p, n)
    }
    unsafe fn cancel_read(&mut self, s: u32) -> u32 {
        h_cancel_read(s)
    }
    unsafe fn cancel_write(&mut self, s: u32) -> u32 {
        h_cancel_write(s)
    }
    unsafe fn drop_readable(&mut self, s: u32) {
        h_drop_readable(s)
    }
    unsafe fn drop_writable(&mut self, s: u32) {
        h_drop_writable(s)
    }
}
macro_rules! wide_item {
    ($t:ty) => {
        impl Item for $t {
            type Ops = OpsW<$t>;
            const OPS: OpsW<$t> = OpsW(core::marker::PhantomData);
            const LIFTED: bool = false;
            const SIZE: usize = core::mem::size_of::<$t>();
            fn make(b: u8) -> $t {
                b as $t
            }
            fn check_and_forget(self, b: u8) {
                assert!(self == b as $t, "value handed back is not the expected item");
            }
        }
    };
}
wide_item!(u32);
wide_item!(u64);

/// `vec![make(W0), make(W0+1), ...]` of length `LEN` (<= 3) with exact capacity.
fn items<T: Item, const LEN: usize>() -> Vec<T> {
    let mut v = Vec::with_capacity(LEN);
    if LEN > 0 {
        v.push(T::make(W0));
    }
    if LEN > 1 {
        v.push(T::make(W0 + 1));
    }
    if LEN > 2 {
        v.push(T::make(W0 + 2));
    }
    v
}

/// Takes the vector a write handed back: it must hold exactly the items
/// `from..LEN`, in order.  Returns how many came back.
unsafe fn take_back_rest<T: Item>(mut v: Vec<T>, from: usize, len: usize) -> usize {
    let n = v.len();
    assert!(n == len - from, "wrong number of untransferred values handed back");
    // pop from the back: item (len-1), (len-2), ...
    if n > 2 {
        v.pop().unwrap().check_and_forget(W0 + (from + 2) as u8);
    }
    if n > 1 {
        v.pop().unwrap().check_and_forget(W0 + (from + 1) as u8);
    }
    if n > 0 {
        v.pop().unwrap().check_and_forget(W0 + from as u8);
    }
    n
}

unsafe fn install_task(t1: &mut mt::wasip3_task, t2: &mut mt::wasip3_task_v2) {
    let task: *mut mt::wasip3_task = if kani::any() { t1 } else { (t2 as *mut mt::wasip3_task_v2).cast() };
    mt::G.cur = task;
    mt::G.clone_distinct = false;
}

fn pending_is_registered() {
    unsafe {
        assert!(mt::L[0].reg_set, "pending operation is not registered with the task");
    }
}

// ---- ReturnCode::decode ------------------------------------------------------------

/// All 2^32 inputs that are valid encodings: `BLOCKED`, or `(amount << 4) | tag`
/// with `tag in {COMPLETED, DROPPED, CANCELLED}`.
#[kani::proof]
fn c19_return_code_valid() {
    let v: u32 = kani::any();
    kani::assume(v == BLOCKED || (v & 0xf) <= CANCELLED);
    let (tag, amt) = return_code_decode(v);
    if v == BLOCKED {
        assert!(tag == BLOCKED && amt == 0);
    } else {
        assert!(tag == (v & 0xf), "wrong result kind");
        assert!(amt == (v >> 4), "wrong item count");
        assert!(((amt << 4) | tag) == v, "decode is not the inverse of the canonical encoding");
    }
    kani::cover!(v == BLOCKED);
    kani::cover!(tag == DROPPED && amt == (1 << 28) - 1);
    kani::cover!(tag == CANCELLED && amt == 0);
}

/// Every other input is rejected (panic), never mistaken for a result.
#[kani::proof]
#[kani::should_panic]
fn c19_return_code_invalid_traps() {
    let v: u32 = kani::any();
    kani::assume(v != BLOCKED && (v & 0xf) > CANCELLED);
    let _ = return_code_decode(v);
    // only reachable if `decode` returned; the runner treats a failure of this
    // particular check as a violation (`should_panic` alone would be satisfied
    // by a single panicking input)
    assert!(false, "INVALID-CODE-ACCEPTED: ReturnCode::decode returned for an invalid code");
}

// ---- AbiBuffer one-step harnesses ---------------------------------------------------

/// From the state reached by `new(items[0..LEN])` + `advance(a)` (any `a <=
/// LEN`, i.e. every valid (cursor, len) state), one more `advance(b)`,
/// `abi_ptr_and_len`, `remaining` and `into_vec`.
unsafe fn abibuf<T: Item, const LEN: usize>() {
    H.elem_size = T::SIZE;
    let v: Vec<T> = items::<T, LEN>();
    let base = v.as_ptr() as *const u8;
    let mut buf: AbiBuffer<T::Ops> = abi_buffer_new(v, T::OPS);
    let (p0, n0) = abi_buffer_ptr_and_len(&buf);
    assert!(n0 == LEN && buf.remaining() == LEN);
    if !T::LIFTED {
        assert!(p0 == base || LEN == 0, "canonical payload: the ABI pointer is the vector's own storage");
    }
    // pretend the host has taken everything we advance over (dealloc_lists checks it)
    let a = any_k(0, LEN);
    H.log_n = a;
    abi_buffer_advance(&mut buf, a);
    assert!(buf.remaining() == LEN - a);
    let (p1, n1) = abi_buffer_ptr_and_len(&buf);
    assert!(n1 == LEN - a);
    if LEN > 0 {
        assert!(p1 == p0.add(a * T::SIZE), "ABI pointer must move by one element per advanced item");
    }
    if n1 > 0 {
        assert!(*p1 == W0 + a as u8, "ABI pointer does not point at the first unsent item");
    }
    let b = any_k(0, LEN - a);
    H.log_n = a + b;
    abi_buffer_advance(&mut buf, b);
    assert!(buf.remaining() == LEN - a - b);
    let (p2, n2) = abi_buffer_ptr_and_len(&buf);
    assert!(n2 == LEN - a - b);
    if LEN > 0 {
        assert!(p2 == p0.add((a + b) * T::SIZE), "ABI pointer must move by one element per advanced item");
    }
    if n2 > 0 {
        assert!(*p2 == W0 + (a + b) as u8);
    }
    let keep: bool = kani::any();
    let mut back = 0;
    if keep {
        back = take_back_rest(buf.into_vec(), a + b, LEN);
    } else {
        drop(buf); // untransferred values are dropped with the buffer
    }
    ledger_write::<T>(LEN, a + b, back);
    kani::cover!(a + b == LEN, "advanced to the end");
    kani::cover!(a > 0 && b > 0 && a + b < LEN || LEN < 3, "two partial advances");
    kani::cover!(keep && back == LEN, "nothing sent, everything handed back");
    kani::cover!(!keep && a + b < LEN || LEN == 0, "untransferred values dropped with the buffer");
}

/// Ownership of the `len` written items once the write side is finished:
/// items `0..sent` went to the host, `back` items (the last ones) are held by
/// the harness, the rest was dropped.
unsafe fn ledger_write<T: Item>(len: usize, sent: usize, back: usize) {
    assert!(sent <= len && back <= len - sent);
    let mut i = 0;
    while i < len {
        if T::LIFTED {
            assert!(H.lowered[i] == 1, "every item is lowered exactly once");
            if i < sent {
                assert!(H.dealloc[i] == 1 && H.lifted[i] == 0 && H.rust_dropped[i] == 0, "a transferred item's lists are released exactly once and it is not lifted back");
            } else {
                assert!(H.dealloc[i] == 0 && H.lifted[i] == 1, "an untransferred item is lifted back exactly once and its lists are not released");
                let held = if i >= len - back { 1 } else { 0 };
                assert!(H.rust_dropped[i] + held == 1, "an untransferred item is handed back or dropped, exactly once");
            }
        }
        i += 1;
    }
}

macro_rules! c19_abibuf {
    ($name:ident, $t:ty, $len:expr) => {
        #[kani::proof]
        #[kani::unwind(5)]
        fn $name() {
            unsafe { abibuf::<$t, $len>() }
        }
    };
}
c19_abibuf!(c19_abibuf_u8_len0, u8, 0);
c19_abibuf!(c19_abibuf_u8_len1, u8, 1);
c19_abibuf!(c19_abibuf_u8_len3, u8, 3);
c19_abibuf!(c19_abibuf_val_len0, Val, 0);
c19_abibuf!(c19_abibuf_val_len1, Val, 1);
c19_abibuf!(c19_abibuf_val_len3, Val, 3);
c19_abibuf!(c19_abibuf_u32_len3, u32, 3);
c19_abibuf!(c19_abibuf_u64_len2, u64, 2);
c19_abibuf!(c19_deep_abibuf_u8_len2, u8, 2);
c19_abibuf!(c19_deep_abibuf_val_len2, Val, 2);

// ---- single write -----------------------------------------------------------------

#[derive(Clone, Copy, PartialEq)]
enum End {
    None,
    Complete,
    Dropped,
    Cancelled,
}

/// Handles the `(StreamResult, AbiBuffer)` a write resolved to: the count must
/// be the host's, the buffer must hold exactly the untransferred items.
unsafe fn write_result<T: Item>(res: StreamResult, buf: AbiBuffer<T::Ops>, before: usize, len: usize, back: &mut usize) -> End {
    let sent_now = H.log_n - before;
    let end = match res {
        StreamResult::Complete(n) => {
            assert!(n == sent_now, "write reports a different count than the host transferred");
            End::Complete
        }
        StreamResult::Dropped => {
            assert!(sent_now == 0 && H.reader_dropped, "write reports 'dropped' but the host did not say so");
            End::Dropped
        }
        StreamResult::Cancelled => {
            assert!(sent_now == 0, "write reports 'cancelled, nothing sent' but the host took items");
            End::Cancelled
        }
    };
    assert!(buf.remaining() == len - H.log_n, "buffer does not hold exactly the untransferred items");
    *back = take_back_rest(buf.into_vec(), H.log_n, len);
    end
}

macro_rules! wsteps {
    ($t:ty, $f:ident, $cx:ident, $len:expr, $back:ident, $end:ident;) => {};
    ($t:ty, $f:ident, $cx:ident, $len:expr, $back:ident, $end:ident; P $($rest:tt)*) => {
        match $f.as_mut().poll(&mut $cx) {
            Poll::Ready((res, buf)) => {
                $end = write_result::<$t>(res, buf, 0, $len, &mut $back);
            }
            Poll::Pending => {
                pending_is_registered();
                wsteps!($t, $f, $cx, $len, $back, $end; $($rest)*);
            }
        }
    };
    ($t:ty, $f:ident, $cx:ident, $len:expr, $back:ident, $end:ident; E $($rest:tt)*) => {
        write_event();
        wsteps!($t, $f, $cx, $len, $back, $end; $($rest)*);
    };
    ($t:ty, $f:ident, $cx:ident, $len:expr, $back:ident, $end:ident; C $($rest:tt)*) => {
        let (res, buf) = $f.as_mut().cancel();
        $end = write_result::<$t>(res, buf, 0, $len, &mut $back);
    };
}

unsafe fn finish_write<T: Item>(len: usize, back: usize) {
    mt::G.op_alive = false;
    mt::assert_quiescent();
    assert!(!H.write_in_progress, "write future gone but the host still has a write in progress");
    assert!(H.drop_writable_calls == 1, "writable end must be dropped exactly once");
    assert!(H.log_n <= len);
    ledger_write::<T>(len, H.log_n, back);
}

macro_rules! c19w {
    ($name:ident, $t:ty, $len:expr, [$($script:tt)*], $covers:expr) => {
        #[kani::proof]
        #[kani::unwind(5)]
        #[kani::stub(wit_bindgen::rt::async_support::cabi::wasip3_task_set, crate::mock_task::stub_task_set)]
        fn $name() {
            unsafe {
                let mut t1 = mt::new_v1_a();
                let mut t2 = mt::new_v2_a();
                install_task(&mut t1, &mut t2);
                let mut cx = Context::from_waker(Waker::noop());
                let handles = h_new();
                H.elem_size = <$t as Item>::SIZE;
                let mut tx = RawStreamWriter::new((handles >> 32) as u32, <$t as Item>::OPS);
                let mut back = 0usize;
                #[allow(unused_assignments, unused_mut)]
                let mut end = End::None;
                {
                    #[allow(unused_mut)]
                    let mut f = pin!(tx.write(items::<$t, $len>()));
                    wsteps!($t, f, cx, $len, back, end; $($script)*);
                    // dropped here: mid-flight unless it resolved
                }
                drop(tx);
                finish_write::<$t>($len, back);
                let _ = end;
                let f: fn() = $covers;
                f();
            }
        }
    };
}

fn cw_pc<const N: usize>() {
    unsafe {
        kani::cover!(H.cancel_write_calls == 0 && H.log_n == N, "everything written at once");
        kani::cover!(H.cancel_write_calls == 0 && H.log_n == 1 && !H.reader_dropped, "partial write");
        kani::cover!(H.cancel_write_calls == 0 && H.log_n == 1 && H.reader_dropped, "reader dropped after a partial transfer");
        kani::cover!(H.cancel_write_calls == 1 && H.log_n == 0 && !H.reader_dropped, "cancel won, nothing sent");
        kani::cover!(H.cancel_write_calls == 1 && H.log_n == N - 1, "cancel raced a partial transfer (CANCELLED(k), k > 0)");
    }
}
fn cw_pec<const N: usize>() {
    unsafe {
        kani::cover!(H.cancel_write_calls == 0 && mt::L[0].n_delivered == 1 && H.log_n == N - 1, "cancel() with a partial completion already queued");
        kani::cover!(H.cancel_write_calls == 0 && mt::L[0].n_delivered == 1 && H.reader_dropped && H.log_n == 0, "cancel() with a reader-dropped event already queued");
    }
}
fn cw_pep<const N: usize>() {
    unsafe {
        kani::cover!(mt::L[0].n_delivered == 1 && H.log_n == N, "blocked write completed by an event");
        kani::cover!(mt::L[0].n_delivered == 1 && H.log_n == 1 && H.reader_dropped, "blocked write: one item, then the reader went away");
    }
}
fn cw_pd<const N: usize>() {
    unsafe {
        kani::cover!(H.cancel_write_calls == 1 && H.log_n == 1, "dropped mid-flight, one item had gone through: the rest is dropped");
        kani::cover!(H.cancel_write_calls == 1 && H.log_n == 0, "dropped mid-flight, cancelled: all values dropped");
    }
}
fn cw_ped<const N: usize>() {
    unsafe {
        kani::cover!(H.cancel_write_calls == 0 && mt::L[0].n_delivered == 1 && H.log_n == N - 1, "dropped with a partial completion queued");
    }
}
fn cw_pep1() {
    unsafe {
        kani::cover!(mt::L[0].n_delivered == 1 && H.log_n == 1 && !H.reader_dropped, "blocked write completed by an event");
        kani::cover!(mt::L[0].n_delivered == 1 && H.log_n == 0 && H.reader_dropped, "blocked write: the reader went away, value handed back");
    }
}
fn cr_pep1() {
    unsafe {
        kani::cover!(mt::L[0].n_delivered == 1 && H.produced_n == 1, "blocked read completed by an event");
        kani::cover!(mt::L[0].n_delivered == 1 && H.produced_n == 0 && H.writer_dropped, "blocked read: writer went away");
    }
}
fn cw_len0() {
    unsafe {
        kani::cover!(H.writes_started == 1 && H.log_n == 0, "zero-length write");
    }
}

// quick tier: 2 items (counts 0, 1 = partial, 2 = all); thorough tier: 3 items
// for the canonical payload (the lifted payload with 3 items exceeds the
// 12 GB cap as soon as an event is involved)
c19w!(c19_write_u8_pc, u8, 2, [P C], cw_pc::<2>);
c19w!(c19_write_u8_pec, u8, 2, [P E C], cw_pec::<2>);
c19w!(c19_write_u8_pep, u8, 2, [P E P], cw_pep::<2>);
c19w!(c19_write_u8_pd, u8, 2, [P], cw_pd::<2>);
c19w!(c19_write_u8_ped, u8, 2, [P E], cw_ped::<2>);
c19w!(c19_write_u8_len0_pc, u8, 0, [P C], cw_len0);
c19w!(c19_write_val_pc, Val, 2, [P C], cw_pc::<2>);
c19w!(c19_write_val_pep, Val, 1, [P E P], cw_pep1);
c19w!(c19_write_val_pd, Val, 2, [P], cw_pd::<2>);
c19w!(c19_deep_write_val_pec, Val, 2, [P E C], cw_pec::<2>);
c19w!(c19_deep_write_val_ped, Val, 2, [P E], cw_ped::<2>);
c19w!(c19_deep_write_u8_len3_pc, u8, 3, [P C], cw_pc::<3>);
c19w!(c19_deep_write_u8_len3_pec, u8, 3, [P E C], cw_pec::<3>);
c19w!(c19_deep_write_u8_len3_pep, u8, 3, [P E P], cw_pep::<3>);
c19w!(c19_deep_write_u8_len3_pd, u8, 3, [P], cw_pd::<3>);
c19w!(c19_deep_write_val_len3_pc, Val, 3, [P C], cw_pc::<3>);
c19w!(c19_deep_write_val_len3_pd, Val, 3, [P], cw_pd::<3>);

// ---- write_all / write_one: several rendezvous -------------------------------------

/// Drives an `async fn` of the writer: poll, and whenever it is pending let
/// the host resolve the blocked write, up to `ROUNDS` times.
macro_rules! drive {
    ($f:ident, $cx:ident, $out:ident, $event:ident; ) => {};
    ($f:ident, $cx:ident, $out:ident, $event:ident; R $($rest:tt)*) => {
        match $f.as_mut().poll(&mut $cx) {
            Poll::Ready(v) => $out = Some(v),
            Poll::Pending => {
                pending_is_registered();
                $event();
                drive!($f, $cx, $out, $event; $($rest)*);
            }
        }
    };
}

macro_rules! c19wall {
    ($name:ident, $t:ty, $len:expr, $unwind:expr, [$($rounds:tt)*]) => {
        #[kani::proof]
        #[kani::unwind($unwind)]
        #[kani::stub(wit_bindgen::rt::async_support::cabi::wasip3_task_set, crate::mock_task::stub_task_set)]
        fn $name() {
            unsafe {
                let mut t1 = mt::new_v1_a();
                let mut t2 = mt::new_v2_a();
                install_task(&mut t1, &mut t2);
                let mut cx = Context::from_waker(Waker::noop());
                let handles = h_new();
                let mut tx = RawStreamWriter::new((handles >> 32) as u32, <$t as Item>::OPS);
                let mut out: Option<Vec<$t>> = None;
                {
                    let mut f = pin!(tx.write_all(items::<$t, $len>()));
                    drive!(f, cx, out, write_event; $($rounds)*);
                    // a last poll after the last event
                    if out.is_none() {
                        if let Poll::Ready(v) = f.as_mut().poll(&mut cx) {
                            out = Some(v);
                        }
                    }
                    // dropped here (mid-flight if the bound on rendezvous was hit)
                }
                drop(tx);
                let mut back = 0;
                if let Some(v) = out {
                    // write_all returns exactly the values that were not sent, and
                    // only when the reader went away
                    assert!(v.len() == $len - H.log_n);
                    assert!(v.is_empty() || H.reader_dropped, "write_all gave up although the reader is still there");
                    back = take_back_rest(v, H.log_n, $len);
                }
                finish_write::<$t>($len, back);
                kani::cover!(back == 0 && H.log_n == $len && H.writes_started == $len, "all items sent one by one, one rendezvous each");
                kani::cover!(back == $len - 1 && H.reader_dropped, "reader dropped after the first item: the rest is handed back");
                kani::cover!(H.writes_started == 2 && H.log_n == $len && mt::L[0].n_delivered == 2, "two blocked writes completed by events");
            }
        }
    };
}
c19wall!(c19_write_all_u8, u8, 2, 4, [R R]);
c19wall!(c19_deep_write_all_u8_len3, u8, 3, 5, [R R R]);
c19wall!(c19_deep_write_all_val, Val, 2, 4, [R R]);

#[kani::proof]
#[kani::unwind(2)]
#[kani::stub(wit_bindgen::rt::async_support::cabi::wasip3_task_set, crate::mock_task::stub_task_set)]
fn c19_write_one_u8() {
    unsafe {
        let mut t1 = mt::new_v1_a();
        let mut t2 = mt::new_v2_a();
        install_task(&mut t1, &mut t2);
        let mut cx = Context::from_waker(Waker::noop());
        let handles = h_new();
        let mut tx = RawStreamWriter::new((handles >> 32) as u32, OpsU8);
        let mut out: Option<Option<u8>> = None;
        {
            let mut f = pin!(tx.write_one(W0));
            drive!(f, cx, out, write_event; R);
            if out.is_none() {
                if let Poll::Ready(v) = f.as_mut().poll(&mut cx) {
                    out = Some(v);
                }
            }
        }
        drop(tx);
        if let Some(r) = out {
            match r {
                None => assert!(H.log_n == 1, "write_one says sent, the host has nothing"),
                Some(v) => assert!(v == W0 && H.log_n == 0 && H.reader_dropped, "write_one hands the value back only when the reader is gone"),
            }
        }
        finish_write::<u8>(1, 0);
        kani::cover!(out == Some(None) && mt::L[0].n_delivered == 1, "sent after blocking");
        kani::cover!(out == Some(Some(W0)), "reader gone: value handed back");
    }
}

// ---- single read ------------------------------------------------------------------

/// Takes the vector a read handed back: it must hold exactly the items the
/// host produced (`R0..`), in order.
unsafe fn take_read<T: Item>(mut v: Vec<T>, cap: usize) -> usize {
    let n = v.len();
    assert!(n == H.produced_n, "read hands back a different number of items than the host produced");
    assert!(v.capacity() >= cap);
    if n > 2 {
        v.pop().unwrap().check_and_forget(R0 + 2);
    }
    if n > 1 {
        v.pop().unwrap().check_and_forget(R0 + 1);
    }
    if n > 0 {
        v.pop().unwrap().check_and_forget(R0);
    }
    n
}

unsafe fn read_result<T: Item>(res: StreamResult, v: Vec<T>, cap: usize, held: &mut usize) -> End {
    let end = match res {
        StreamResult::Complete(n) => {
            assert!(n == H.produced_n && n == H.last_k as usize, "read reports a different count than the host transferred");
            End::Complete
        }
        StreamResult::Dropped => {
            assert!(H.produced_n == 0 && H.writer_dropped, "read reports 'dropped' but the host did not say so");
            End::Dropped
        }
        StreamResult::Cancelled => {
            assert!(H.produced_n == 0, "read reports 'cancelled, nothing read' but the host stored items");
            End::Cancelled
        }
    };
    *held = take_read(v, cap);
    end
}

macro_rules! rsteps {
    ($t:ty, $f:ident, $cx:ident, $cap:expr, $held:ident, $end:ident;) => {};
    ($t:ty, $f:ident, $cx:ident, $cap:expr, $held:ident, $end:ident; P $($rest:tt)*) => {
        match $f.as_mut().poll(&mut $cx) {
            Poll::Ready((res, v)) => {
                $end = read_result::<$t>(res, v, $cap, &mut $held);
            }
            Poll::Pending => {
                pending_is_registered();
                rsteps!($t, $f, $cx, $cap, $held, $end; $($rest)*);
            }
        }
    };
    ($t:ty, $f:ident, $cx:ident, $cap:expr, $held:ident, $end:ident; E $($rest:tt)*) => {
        read_event();
        rsteps!($t, $f, $cx, $cap, $held, $end; $($rest)*);
    };
    ($t:ty, $f:ident, $cx:ident, $cap:expr, $held:ident, $end:ident; C $($rest:tt)*) => {
        let (res, v) = $f.as_mut().cancel();
        $end = read_result::<$t>(res, v, $cap, &mut $held);
    };
}

/// Ownership of the items the host produced: each is lifted exactly once (for
/// a lifted payload) and then held by the harness or dropped exactly once.
unsafe fn finish_read<T: Item>(held: usize) {
    mt::G.op_alive = false;
    mt::assert_quiescent();
    assert!(!H.read_in_progress, "read future gone but the host still has a read in progress");
    assert!(H.drop_readable_calls == 1, "readable end must be dropped exactly once");
    assert!(held <= H.produced_n && H.produced_n <= 3);
    if T::LIFTED {
        let mut i = 0;
        while i < 3 {
            if i < H.produced_n {
                assert!(H.read_lifted[i] == 1, "an item the host stored must be lifted exactly once");
                let h = if i < held { 1 } else { 0 };
                assert!(H.read_dropped[i] + h == 1, "a received item is handed to the caller or dropped, exactly once");
            } else {
                assert!(H.read_lifted[i] == 0 && H.read_dropped[i] == 0, "an item the host never stored was lifted");
            }
            i += 1;
        }
    } else {
        // canonical payload dropped with the future: nothing to release; items
        // the caller got are exactly the host's (checked in take_read)
    }
}

macro_rules! c19r {
    ($name:ident, $t:ty, $cap:expr, [$($script:tt)*], $covers:expr) => {
        #[kani::proof]
        #[kani::unwind(5)]
        #[kani::stub(wit_bindgen::rt::async_support::cabi::wasip3_task_set, crate::mock_task::stub_task_set)]
        fn $name() {
            unsafe {
                let mut t1 = mt::new_v1_a();
                let mut t2 = mt::new_v2_a();
                install_task(&mut t1, &mut t2);
                let mut cx = Context::from_waker(Waker::noop());
                let handles = h_new();
                let mut rx = RawStreamReader::new(handles as u32, <$t as Item>::OPS);
                let mut held = 0usize;
                #[allow(unused_assignments, unused_mut)]
                let mut end = End::None;
                {
                    #[allow(unused_mut)]
                    let mut f = pin!(rx.read(Vec::<$t>::with_capacity($cap)));
                    rsteps!($t, f, cx, $cap, held, end; $($script)*);
                }
                drop(rx);
                finish_read::<$t>(held);
                let _ = end;
                let f: fn() = $covers;
                f();
            }
        }
    };
}

fn cr_pc<const N: usize>() {
    unsafe {
        kani::cover!(H.cancel_read_calls == 0 && H.produced_n == N, "buffer filled at once");
        kani::cover!(H.cancel_read_calls == 0 && H.produced_n == 1 && !H.writer_dropped, "partial read");
        kani::cover!(H.cancel_read_calls == 0 && H.produced_n == 1 && H.writer_dropped, "writer dropped after a partial transfer");
        kani::cover!(H.cancel_read_calls == 1 && H.produced_n == 0 && !H.writer_dropped, "cancel won, nothing read");
        kani::cover!(H.cancel_read_calls == 1 && H.produced_n == N, "cancel lost: the buffer was filled");
    }
}
fn cr_pec<const N: usize>() {
    unsafe {
        kani::cover!(H.cancel_read_calls == 0 && mt::L[0].n_delivered == 1 && H.produced_n == N, "cancel() with a completion already queued");
    }
}
fn cr_pep<const N: usize>() {
    unsafe {
        kani::cover!(mt::L[0].n_delivered == 1 && H.produced_n == N, "blocked read completed by an event");
        kani::cover!(mt::L[0].n_delivered == 1 && H.produced_n == 0 && H.writer_dropped, "blocked read: writer went away");
    }
}
fn cr_pd<const N: usize>() {
    unsafe {
        kani::cover!(H.cancel_read_calls == 1 && H.produced_n == N, "dropped mid-flight, items had arrived: they are dropped with the future");
        kani::cover!(H.cancel_read_calls == 1 && H.produced_n == 0, "dropped mid-flight, cancelled");
    }
}
fn cr_ped<const N: usize>() {
    unsafe {
        kani::cover!(H.cancel_read_calls == 0 && mt::L[0].n_delivered == 1 && H.produced_n == 1, "dropped with a completion queued");
    }
}

c19r!(c19_read_u8_pc, u8, 2, [P C], cr_pc::<2>);
c19r!(c19_read_u8_pec, u8, 2, [P E C], cr_pec::<2>);
c19r!(c19_read_u8_pep, u8, 2, [P E P], cr_pep::<2>);
c19r!(c19_read_u8_pd, u8, 2, [P], cr_pd::<2>);
c19r!(c19_read_u8_ped, u8, 2, [P E], cr_ped::<2>);
c19r!(c19_read_val_pc, Val, 2, [P C], cr_pc::<2>);
c19r!(c19_read_val_pep, Val, 1, [P E P], cr_pep1);
c19r!(c19_read_val_pd, Val, 2, [P], cr_pd::<2>);
c19r!(c19_deep_read_val_pec, Val, 2, [P E C], cr_pec::<2>);
c19r!(c19_deep_read_val_ped, Val, 2, [P E], cr_ped::<2>);
c19r!(c19_deep_read_u8_cap3_pc, u8, 3, [P C], cr_pc::<3>);
c19r!(c19_deep_read_u8_cap3_pec, u8, 3, [P E C], cr_pec::<3>);
c19r!(c19_deep_read_u8_cap3_pep, u8, 3, [P E P], cr_pep::<3>);
c19r!(c19_deep_read_u8_cap3_pd, u8, 3, [P], cr_pd::<3>);

// ---- next / collect ------------------------------------------------------------------

#[kani::proof]
#[kani::unwind(5)]
#[kani::stub(wit_bindgen::rt::async_support::cabi::wasip3_task_set, crate::mock_task::stub_task_set)]
fn c19_next_u8() {
    unsafe {
        let mut t1 = mt::new_v1_a();
        let mut t2 = mt::new_v2_a();
        install_task(&mut t1, &mut t2);
        let mut cx = Context::from_waker(Waker::noop());
        let handles = h_new();
        let mut rx = RawStreamReader::new(handles as u32, OpsU8);
        let mut out: Option<Option<u8>> = None;
        {
            let mut f = pin!(rx.next());
            drive!(f, cx, out, read_event; R);
            if out.is_none() {
                if let Poll::Ready(v) = f.as_mut().poll(&mut cx) {
                    out = Some(v);
                }
            }
        }
        drop(rx);
        if let Some(r) = out {
            match r {
                Some(v) => assert!(v == R0 && H.produced_n == 1, "next() yields an item the host did not produce"),
                None => assert!(H.produced_n == 0 && H.writer_dropped, "next() yields None although the writer is still there"),
            }
        }
        finish_read::<u8>(0);
        kani::cover!(out == Some(Some(R0)) && mt::L[0].n_delivered == 1, "item after blocking");
        kani::cover!(out == Some(None), "end of stream");
    }
}

// ---- two consecutive operations on one end --------------------------------------------
//
// write -> (partial) result -> the same buffer resumed with `write_buf`; and
// the read-side twin.  Covers: the resumed buffer starts at the first unsent
// ELEMENT (payloads wider than a byte), and an end on which the host has
// reported DROPPED -- also together with a non-zero count, which the caller
// only sees as `Complete(n)` -- is never handed to the intrinsic again (the
// mock traps, as the canonical ABI does for an end in CopyState.DONE).

unsafe fn check_write_res(res: StreamResult, before: usize) -> End {
    let sent_now = H.log_n - before;
    match res {
        StreamResult::Complete(n) => {
            assert!(n == sent_now, "write reports a different count than the host transferred");
            End::Complete
        }
        StreamResult::Dropped => {
            assert!(sent_now == 0 && H.reader_dropped, "write reports 'dropped' but the host did not say so");
            End::Dropped
        }
        StreamResult::Cancelled => {
            assert!(sent_now == 0, "write reports 'cancelled, nothing sent' but the host took items");
            End::Cancelled
        }
    }
}

unsafe fn write_twice<T: Item, const LEN: usize>() {
    let mut t1 = mt::new_v1_a();
    let mut t2 = mt::new_v2_a();
    install_task(&mut t1, &mut t2);
    let mut cx = Context::from_waker(Waker::noop());
    let handles = h_new();
    H.elem_size = T::SIZE;
    // both rendezvous are answered at once (COMPLETED(k) / DROPPED(k)): blocking,
    // events and cancellation of a single write are the other harnesses' subject
    H.no_block = true;
    let mut tx = RawStreamWriter::new((handles >> 32) as u32, T::OPS);

    let (res1, buf) = {
        let mut f = pin!(tx.write(items::<T, LEN>()));
        match f.as_mut().poll(&mut cx) {
            Poll::Ready(x) => x,
            Poll::Pending => {
                assert!(false, "harness: host does not block here");
                return;
            }
        }
    };
    let end1 = check_write_res(res1, 0);
    assert!(buf.remaining() == LEN - H.log_n, "buffer does not hold exactly the untransferred items");
    let sent1 = H.log_n;
    let dropped1 = H.reader_dropped;
    let calls1 = H.writes_started;
    let mut resumed = false;
    let back;
    if end1 == End::Complete && buf.remaining() > 0 {
        // the caller was told `Complete(n)`, n < len: resume with the rest
        resumed = true;
        let (res2, buf2) = {
            let mut f = pin!(tx.write_buf(buf));
            match f.as_mut().poll(&mut cx) {
                Poll::Ready(x) => x,
                Poll::Pending => {
                    assert!(false, "harness: host does not block here");
                    return;
                }
            }
        };
        let end2 = check_write_res(res2, sent1);
        if dropped1 {
            assert!(end2 == End::Dropped, "a write on an end whose peer is gone must report 'dropped'");
            assert!(H.writes_started == calls1, "stream.write issued again although the host had reported DROPPED");
        }
        assert!(buf2.remaining() == LEN - H.log_n, "buffer does not hold exactly the untransferred items");
        back = take_back_rest(buf2.into_vec(), H.log_n, LEN);
    } else {
        back = take_back_rest(buf.into_vec(), H.log_n, LEN);
    }
    drop(tx);
    finish_write::<T>(LEN, back);
    kani::cover!(resumed && sent1 == 1 && !dropped1 && H.log_n == LEN && H.writes_started == 2, "partial write, resumed, rest delivered");
    kani::cover!(resumed && sent1 == 1 && dropped1 && H.writes_started == 1, "DROPPED with one item transferred; the resumed write is refused without calling the host");
    kani::cover!(!resumed && H.log_n == LEN, "everything in the first write");
}

macro_rules! c19w2 {
    ($name:ident, $t:ty, $len:expr) => {
        #[kani::proof]
        #[kani::unwind(5)]
        #[kani::stub(wit_bindgen::rt::async_support::cabi::wasip3_task_set, crate::mock_task::stub_task_set)]
        fn $name() {
            unsafe { write_twice::<$t, $len>() }
        }
    };
}
c19w2!(c19_write2_u8, u8, 2);
c19w2!(c19_write2_u32, u32, 2);
c19w2!(c19_deep_write2_u64_len3, u64, 3);

#[kani::proof]
#[kani::unwind(5)]
#[kani::stub(wit_bindgen::rt::async_support::cabi::wasip3_task_set, crate::mock_task::stub_task_set)]
fn c19_read2_u8() {
    unsafe {
        let mut t1 = mt::new_v1_a();
        let mut t2 = mt::new_v2_a();
        install_task(&mut t1, &mut t2);
        let mut cx = Context::from_waker(Waker::noop());
        let handles = h_new();
        H.no_block = true;
        let mut rx = RawStreamReader::new(handles as u32, OpsU8);
        let (res1, v) = {
            let mut f = pin!(rx.read(Vec::<u8>::with_capacity(2)));
            match f.as_mut().poll(&mut cx) {
                Poll::Ready(x) => x,
                Poll::Pending => {
                    assert!(false, "harness: host does not block here");
                    return;
                }
            }
        };
        let got1 = H.produced_n;
        let dropped1 = H.writer_dropped;
        let calls1 = H.reads_started;
        assert!(v.len() == got1, "read exposes a different number of items than the host stored");
        let mut second = false;
        let v = if let StreamResult::Complete(n) = res1 {
            assert!(n == got1);
            if n == 1 {
                // one slot of spare capacity left: read again into the same vector
                second = true;
                let (res2, v2) = {
                    let mut f = pin!(rx.read(v));
                    match f.as_mut().poll(&mut cx) {
                        Poll::Ready(x) => x,
                        Poll::Pending => {
                            assert!(false, "harness: host does not block here");
                            return;
                        }
                    }
                };
                if dropped1 {
                    assert!(res2 == StreamResult::Dropped, "a read on an end whose peer is gone must report 'dropped'");
                    assert!(H.reads_started == calls1, "stream.read issued again although the host had reported DROPPED");
                }
                if let StreamResult::Complete(m) = res2 {
                    assert!(m == H.produced_n - got1, "second read reports a different count than the host transferred");
                }
                v2
            } else {
                v
            }
        } else {
            assert!(got1 == 0);
            v
        };
        drop(rx);
        let held = take_read(v, 2);
        finish_read::<u8>(held);
        kani::cover!(second && !dropped1 && H.produced_n == 2 && H.reads_started == 2, "partial read, second read fills the vector");
        kani::cover!(second && dropped1 && H.reads_started == 1, "DROPPED with one item; the next read is refused without calling the host");
    }
}

// ---- per-copy length clamp (Buffer.MAX_LENGTH = 2^28 - 1) --------------------------------
//
// A vector of 2^28 real items is out of CBMC's reach, but a vector of
// zero-sized items has any length without any storage: the payload of a
// `stream` without element type.  The length is symbolic over all of usize.

const MAX_LENGTH: usize = (1 << 28) - 1;

#[derive(Clone, Copy)]
struct OpsZst;

unsafe impl StreamOps for OpsZst {
    type Payload = ();
    fn new(&mut self) -> u64 {
        unsafe { h_new() }
    }
    fn elem_layout(&self) -> Layout {
        Layout::new::<()>()
    }
    fn native_abi_matches_canonical_abi(&self) -> bool {
        true
    }
    fn contains_lists(&self) -> bool {
        false
    }
    unsafe fn lower(&mut self, _: (), _: *mut u8) {
        assert!(false);
    }
    unsafe fn dealloc_lists(&mut self, _: *mut u8) {
        assert!(false);
    }
    unsafe fn lift(&mut self, _: *mut u8) {
        assert!(false);
    }
    unsafe fn start_write(&mut self, s: u32, _: *const u8, n: usize) -> u32 {
        assert!(s == H.wh);
        H.writes_started += 1;
        H.z_offered = n;
        assert!(n <= MAX_LENGTH, "stream.write offered more than Buffer.MAX_LENGTH = 2^28 - 1 items (host traps)");
        let k = any_k(if n == 0 { 0 } else { 1 }, n);
        H.z_k = k;
        COMPLETED | ((k as u32) << 4)
    }
    unsafe fn start_read(&mut self, s: u32, _: *mut u8, n: usize) -> u32 {
        assert!(s == H.rh);
        H.reads_started += 1;
        H.z_offered = n;
        assert!(n <= MAX_LENGTH, "stream.read offered more than Buffer.MAX_LENGTH = 2^28 - 1 items (host traps)");
        let k = any_k(if n == 0 { 0 } else { 1 }, n);
        H.z_k = k;
        COMPLETED | ((k as u32) << 4)
    }
    unsafe fn cancel_read(&mut self, _: u32) -> u32 {
        assert!(false, "nothing to cancel");
        0
    }
    unsafe fn cancel_write(&mut self, _: u32) -> u32 {
        assert!(false, "nothing to cancel");
        0
    }
    unsafe fn drop_readable(&mut self, s: u32) {
        h_drop_readable(s)
    }
    unsafe fn drop_writable(&mut self, s: u32) {
        h_drop_writable(s)
    }
}

#[kani::proof]
#[kani::unwind(2)]
fn c19_maxlen_write_zst() {
    unsafe {
        let len: usize = kani::any();
        let mut v: Vec<()> = Vec::new();
        v.set_len(len);
        let mut cx = Context::from_waker(Waker::noop());
        let handles = h_new();
        let mut tx = RawStreamWriter::new((handles >> 32) as u32, OpsZst);
        {
            let mut f = pin!(tx.write(v));
            match f.as_mut().poll(&mut cx) {
                Poll::Ready((res, buf)) => {
                    assert!(H.writes_started == 1);
                    let want = if len < MAX_LENGTH { len } else { MAX_LENGTH };
                    assert!(H.z_offered == want, "stream.write must be offered min(remaining, 2^28 - 1) items");
                    assert!(res == StreamResult::Complete(H.z_k), "write reports a different count than the host transferred");
                    assert!(buf.remaining() == len - H.z_k, "buffer does not hold exactly the untransferred items");
                    let rest = buf.into_vec();
                    assert!(rest.len() == len - H.z_k);
                }
                Poll::Pending => assert!(false, "host answered at once"),
            }
        }
        drop(tx);
        kani::cover!(len == MAX_LENGTH + 1 && H.z_offered == MAX_LENGTH, "2^28 items: one copy of 2^28 - 1");
        kani::cover!(len == usize::MAX && H.z_k == MAX_LENGTH, "usize::MAX items, a full copy");
        kani::cover!(len == 5 && H.z_k == 2, "short vector, partial copy");
    }
}

#[kani::proof]
#[kani::unwind(2)]
fn c19_maxlen_read_zst() {
    unsafe {
        let len: usize = kani::any();
        let mut v: Vec<()> = Vec::new();
        v.set_len(len);
        let mut cx = Context::from_waker(Waker::noop());
        let handles = h_new();
        let mut rx = RawStreamReader::new(handles as u32, OpsZst);
        {
            let mut f = pin!(rx.read(v));
            match f.as_mut().poll(&mut cx) {
                Poll::Ready((res, out)) => {
                    let spare = usize::MAX - len; // capacity of a Vec of zero-sized items is usize::MAX
                    let want = if spare < MAX_LENGTH { spare } else { MAX_LENGTH };
                    assert!(H.z_offered == want, "stream.read must be offered min(spare capacity, 2^28 - 1) items");
                    assert!(res == StreamResult::Complete(H.z_k), "read reports a different count than the host transferred");
                    assert!(out.len() == len + H.z_k, "read exposes a different number of items than the host stored");
                }
                Poll::Pending => assert!(false, "host answered at once"),
            }
        }
        drop(rx);
        kani::cover!(len == 0 && H.z_offered == MAX_LENGTH && H.z_k == MAX_LENGTH, "empty vector: one copy of 2^28 - 1");
        kani::cover!(len == usize::MAX - 3 && H.z_k == 3, "three slots of spare capacity");
    }
}
