//! C20 — futures deliver exactly one value and never strand a writer.
//!
//! Real code: `future_new`, `FutureWriter::{write, Drop}` (default value),
//! `FutureWrite::{poll, cancel, Drop}`, `RawFutureWriter::{write,
//! write_and_forget (DeferredWrite), Drop}`, `FutureWriteOp`, `RawFutureReader`
//! (`into_future`, `Drop`), `RawFutureRead::{poll, cancel}`, `FutureReadOp`
//! (future_support.rs); all of `WaitableOperation` (waitable.rs); `Cleanup`.
//!
//! The mock host is the `FutureVtable` the bindings generator would emit: a
//! static table of `extern "C"` intrinsics plus lower/lift/dealloc_lists.
//! Contract (component-model canonical ABI, `future.{new,read,write,
//! cancel-read,cancel-write,drop-readable,drop-writable}`):
//!
//! * `future.write` answers COMPLETED (the host has taken the value out of the
//!   buffer), DROPPED (the reader is gone; from then on every write answers
//!   DROPPED) or BLOCKED; a blocked write later gets one COMPLETED or DROPPED
//!   event while the writable end is registered;
//! * `future.cancel-write` (sync) answers COMPLETED, DROPPED or CANCELLED and
//!   traps unless a write is in progress and the end is registered nowhere;
//! * `future.drop-writable` **traps unless a write COMPLETED or answered
//!   DROPPED** (the rule the property is about), and while a write is in
//!   progress or the end is still registered;
//! * `future.read` answers COMPLETED (the host stored the value in the buffer)
//!   or BLOCKED; event COMPLETED; `cancel-read` answers COMPLETED or CANCELLED;
//!   `drop-readable` traps while a read is in progress or registered;
//! * the host touches the buffer exactly when it completes the operation.

use crate::mock_task as mt;
use core::alloc::Layout;
use core::future::{Future, IntoFuture};
use core::pin::{pin, Pin};
use core::task::{Context, Poll, Waker};
use wit_bindgen::rt::async_support::{
    future_new, raw_future_new, FutureOps, FutureVtable, FutureWriteCancel, FutureWriter,
    RawFutureWrite, RawFutureWriteCancel, RawFutureWriter,
};

const BLOCKED: u32 = 0xffff_ffff;
const COMPLETED: u32 = 0;
const DROPPED: u32 = 1;
const CANCELLED: u32 = 2;

const USER: u8 = 7;
const DEFAULT: u8 = 9;
const HOSTVAL: u8 = 0x2a;

/// Payload with an ownership ledger.
struct Val(u8);
impl Drop for Val {
    fn drop(&mut self) {
        unsafe {
            if self.0 == USER {
                H.user_dropped += 1;
            } else if self.0 == DEFAULT {
                H.default_dropped += 1;
            } else {
                H.hostval_dropped += 1;
            }
        }
    }
}

struct Host {
    /// unique first bytes: see mock_task::Globals
    magic: u64,
    wh: u32,
    rh: u32,
    elem_size: usize,
    // write side
    write_in_progress: bool,
    write_buf: *const u8,
    writes_started: u32,
    delivered: u32,
    delivered_val: u8,
    reader_dropped: bool,
    writer_told_dropped: bool,
    cancel_write_calls: u32,
    drop_writable_calls: u32,
    writer_handed_back: bool,
    // read side
    read_in_progress: bool,
    read_buf: *mut u8,
    reads_started: u32,
    read_completed: u32,
    cancel_read_calls: u32,
    drop_readable_calls: u32,
    // payload ledger
    n_lower: u32,
    n_lift: u32,
    n_dealloc: u32,
    defaults_made: u32,
    user_dropped: u32,
    default_dropped: u32,
    hostval_dropped: u32,
    fix_v2: bool,
    deferred_calls: u32,
    deferred_blocked: bool,
}

static mut H: Host = Host {
    magic: 0x6332_305f_686f_7374,
    wh: 0,
    rh: 0,
    elem_size: 1,
    write_in_progress: false,
    write_buf: core::ptr::null(),
    writes_started: 0,
    delivered: 0,
    delivered_val: 0,
    reader_dropped: false,
    writer_told_dropped: false,
    cancel_write_calls: 0,
    drop_writable_calls: 0,
    writer_handed_back: false,
    read_in_progress: false,
    read_buf: core::ptr::null_mut(),
    reads_started: 0,
    read_completed: 0,
    cancel_read_calls: 0,
    drop_readable_calls: 0,
    n_lower: 0,
    n_lift: 0,
    n_dealloc: 0,
    defaults_made: 0,
    user_dropped: 0,
    default_dropped: 0,
    hostval_dropped: 0,
    fix_v2: false,
    deferred_calls: 0,
    deferred_blocked: false,
};

// ---- the "generated" vtable ----------------------------------------------------

unsafe fn v_lower(value: Val, dst: *mut u8) {
    H.n_lower += 1;
    let id = value.0;
    core::mem::forget(value);
    if H.elem_size > 0 {
        assert!(!dst.is_null());
        *dst = id;
    } else {
        assert!(dst.is_null());
        // zero-sized payload: the identity travels out of band
        H.delivered_val = id;
    }
}
unsafe fn v_dealloc_lists(dst: *mut u8) {
    H.n_dealloc += 1;
    assert!(H.delivered == 1, "lists of the written value released although the host did not take the value");
    if H.elem_size > 0 {
        // the buffer must still be alive when the lists inside it are released
        let _ = *dst;
    }
}
unsafe fn v_lift(src: *mut u8) -> Val {
    H.n_lift += 1;
    if H.elem_size > 0 {
        Val(*src)
    } else {
        assert!(src.is_null());
        Val(if H.reads_started > 0 { HOSTVAL } else { H.delivered_val })
    }
}

unsafe fn host_take_written_value() {
    assert!(H.delivered == 0, "host took two values from one future");
    H.delivered = 1;
    if H.elem_size > 0 {
        H.delivered_val = *H.write_buf; // dangling-pointer check: buffer alive at completion
    }
}

unsafe extern "C" fn v_new() -> u64 {
    let w: u32 = kani::any();
    let r: u32 = kani::any();
    kani::assume(w >= 1 && w < (1 << 28) && r >= 1 && r < (1 << 28) && r != w);
    H.wh = w;
    H.rh = r;
    ((w as u64) << 32) | (r as u64)
}

unsafe extern "C" fn v_start_write(h: u32, buf: *const u8) -> u32 {
    assert!(h == H.wh, "future.write on a handle that is not the writable end");
    assert!(H.drop_writable_calls == 0, "future.write after drop-writable");
    assert!(!H.write_in_progress, "future.write while a write is in progress (host traps)");
    assert!(H.delivered == 0, "future.write after the value was already delivered (host traps)");
    H.writes_started += 1;
    H.write_buf = buf;
    mt::G.expect_waitable = h;
    mt::G.expect_ptr = core::ptr::null_mut(); // a new operation: its own callback pointer
    if H.reader_dropped {
        H.writer_told_dropped = true;
        return DROPPED;
    }
    let ans: u32 = kani::any();
    kani::assume(ans == COMPLETED || ans == DROPPED || ans == BLOCKED);
    if ans == COMPLETED {
        host_take_written_value();
    } else if ans == DROPPED {
        H.reader_dropped = true;
        H.writer_told_dropped = true;
    } else {
        H.write_in_progress = true;
    }
    ans
}

unsafe extern "C" fn v_cancel_write(h: u32) -> u32 {
    assert!(h == H.wh);
    assert!(H.write_in_progress, "future.cancel-write without a write in progress (host traps)");
    assert!(!mt::registered_anywhere(h), "future.cancel-write while the end is still registered with a task");
    H.cancel_write_calls += 1;
    H.write_in_progress = false;
    let ans: u32 = kani::any();
    kani::assume(ans == COMPLETED || ans == DROPPED || ans == CANCELLED);
    if ans == COMPLETED {
        host_take_written_value();
    } else if ans == DROPPED {
        H.reader_dropped = true;
        H.writer_told_dropped = true;
    }
    ans
}

unsafe extern "C" fn v_drop_writable(h: u32) {
    assert!(h == H.wh);
    assert!(!H.write_in_progress, "future.drop-writable while a write is in progress (host traps)");
    assert!(
        H.delivered == 1 || H.writer_told_dropped,
        "future.drop-writable before a value was delivered or the reader was seen dropped (host traps)"
    );
    assert!(!mt::registered_anywhere(h), "future.drop-writable while the end is still registered with a task");
    assert!(H.drop_writable_calls == 0, "future.drop-writable twice");
    H.drop_writable_calls += 1;
    mt::G.handle_closed = true;
}

unsafe fn host_complete_read() {
    assert!(H.read_completed == 0);
    H.read_completed = 1;
    if H.elem_size > 0 {
        *H.read_buf = HOSTVAL; // dangling-pointer check: buffer alive at completion
    }
}

unsafe extern "C" fn v_start_read(h: u32, buf: *mut u8) -> u32 {
    assert!(h == H.rh, "future.read on a handle that is not the readable end");
    assert!(H.drop_readable_calls == 0);
    assert!(!H.read_in_progress, "future.read while a read is in progress (host traps)");
    assert!(H.read_completed == 0, "future.read after the value was already read (host traps)");
    H.reads_started += 1;
    H.read_buf = buf;
    mt::G.expect_waitable = h;
    mt::G.expect_ptr = core::ptr::null_mut();
    let ans: u32 = kani::any();
    kani::assume(ans == COMPLETED || ans == BLOCKED);
    if ans == COMPLETED {
        host_complete_read();
    } else {
        H.read_in_progress = true;
    }
    ans
}

unsafe extern "C" fn v_cancel_read(h: u32) -> u32 {
    assert!(h == H.rh);
    assert!(H.read_in_progress, "future.cancel-read without a read in progress (host traps)");
    assert!(!mt::registered_anywhere(h), "future.cancel-read while the end is still registered with a task");
    H.cancel_read_calls += 1;
    H.read_in_progress = false;
    let ans: u32 = kani::any();
    kani::assume(ans == COMPLETED || ans == CANCELLED);
    if ans == COMPLETED {
        host_complete_read();
    }
    ans
}

unsafe extern "C" fn v_drop_readable(h: u32) {
    assert!(h == H.rh);
    assert!(!H.read_in_progress, "future.drop-readable while a read is in progress (host traps)");
    assert!(!mt::registered_anywhere(h), "future.drop-readable while the end is still registered with a task");
    assert!(H.drop_readable_calls == 0, "future.drop-readable twice");
    H.drop_readable_calls += 1;
    mt::G.handle_closed = true;
}

// Stand-ins for the intrinsics of the end a harness does not own.  Separate
// tables per side: CBMC turns every call through a table entry into a switch
// over all address-taken functions of that signature, so a write-side harness
// should not even contain the read-side mock (and vice versa).
unsafe extern "C" fn no_start_write(_: u32, _: *const u8) -> u32 {
    assert!(false, "future.write from a read-side scenario");
    0
}
unsafe extern "C" fn no_start_read(_: u32, _: *mut u8) -> u32 {
    assert!(false, "future.read from a write-side scenario");
    0
}
unsafe extern "C" fn no_cancel(_: u32) -> u32 {
    assert!(false, "cancel intrinsic of the other end");
    0
}
unsafe extern "C" fn no_drop(_: u32) {
    assert!(false, "drop intrinsic of the other end");
}

macro_rules! vtable {
    (write $name:ident, $t:ty) => {
        static $name: FutureVtable<Val> = FutureVtable {
            layout: Layout::new::<$t>(),
            lower: v_lower,
            dealloc_lists: v_dealloc_lists,
            lift: v_lift,
            start_write: v_start_write,
            start_read: no_start_read,
            cancel_write: v_cancel_write,
            cancel_read: no_cancel,
            drop_writable: v_drop_writable,
            drop_readable: no_drop,
            new: v_new,
        };
    };
    (read $name:ident, $t:ty) => {
        static $name: FutureVtable<Val> = FutureVtable {
            layout: Layout::new::<$t>(),
            lower: v_lower,
            dealloc_lists: v_dealloc_lists,
            lift: v_lift,
            start_write: no_start_write,
            start_read: v_start_read,
            cancel_write: no_cancel,
            cancel_read: v_cancel_read,
            drop_writable: no_drop,
            drop_readable: v_drop_readable,
            new: v_new,
        };
    };
}
vtable!(write VT1, u8);
vtable!(write VT0, ());
vtable!(read VR1, u8);
vtable!(read VR0, ());

/// Replacement for `alloc::alloc::alloc`: the one allocation on these paths is
/// the 1-byte value buffer (`Cleanup::new` of the element layout).  The layout
/// is loaded through a pointer CBMC cannot always resolve statically; the
/// request size then becomes a symbolic term and the formula explodes
/// (measured: 5.8 M variables / out of memory).  The shim *asserts* that the
/// requested layout is the 1-byte element layout and serves it with a
/// constant-size request.
unsafe fn alloc_one_byte(layout: Layout) -> *mut u8 {
    assert!(layout.size() == 1 && layout.align() == 1, "unexpected allocation request");
    std::alloc::alloc_zeroed(Layout::new::<u8>())
}
/// Same for the zero-sized payload: no allocation at all is expected.
unsafe fn alloc_never(_: Layout) -> *mut u8 {
    assert!(false, "allocation for a zero-sized payload");
    core::ptr::null_mut()
}

fn default_val() -> Val {
    unsafe {
        H.defaults_made += 1;
    }
    Val(DEFAULT)
}

// ---- host events ---------------------------------------------------------------

unsafe fn write_event() {
    assert!(H.write_in_progress && mt::L[0].reg_set, "harness: no write event possible here");
    H.write_in_progress = false;
    let code: u32 = kani::any();
    kani::assume(code == COMPLETED || code == DROPPED);
    if code == COMPLETED {
        host_take_written_value();
    } else {
        H.reader_dropped = true;
        H.writer_told_dropped = true;
    }
    mt::deliver(0, code);
}

unsafe fn read_event() {
    assert!(H.read_in_progress && mt::L[0].reg_set, "harness: no read event possible here");
    H.read_in_progress = false;
    host_complete_read();
    mt::deliver(0, COMPLETED);
}

unsafe fn install_task(t1: &mut mt::wasip3_task, t2: &mut mt::wasip3_task_v2) -> *mut mt::wasip3_task {
    let task: *mut mt::wasip3_task = if !H.fix_v2 && kani::any() { t1 } else { (t2 as *mut mt::wasip3_task_v2).cast() };
    mt::G.cur = task;
    mt::G.clone_distinct = false;
    task
}

fn pending_is_registered() {
    unsafe {
        assert!(mt::L[0].reg_set, "pending operation is not registered with the task");
    }
}

// ---- write side ----------------------------------------------------------------

/// What the user-level write ended as.
#[derive(Clone, Copy, PartialEq)]
enum WEnd {
    None,
    Ok,
    ErrReturned, // FutureWriteError { value } handed back
    CancelAlreadySent,
    CancelDropped,   // value handed back
    CancelCancelled, // value and writer handed back
}

type RawW = RawFutureWrite<&'static FutureVtable<Val>>;

unsafe fn take_back(v: Val, held: &mut u32) {
    assert!(v.0 == USER, "a different value was handed back");
    *held += 1;
    core::mem::forget(v);
}

// ---- (1) raw API: RawFutureWriter::write / RawFutureWrite::{poll, cancel} -----------
//
// Scripts end with an explicit `cancel()` (`C`) or with the write completed;
// when `cancel()` hands the raw writable end back (`Cancelled(value, writer)`)
// the harness keeps it (`mem::forget`): what happens to an unwritten writer is
// the typed API's business (harnesses (2) below).

unsafe fn raw_poll(f: Pin<&mut RawW>, cx: &mut Context<'_>, held: &mut u32) -> WEnd {
    match f.poll(cx) {
        Poll::Ready(Ok(())) => WEnd::Ok,
        Poll::Ready(Err(e)) => {
            take_back(e.value, held);
            WEnd::ErrReturned
        }
        Poll::Pending => {
            pending_is_registered();
            WEnd::None
        }
    }
}

unsafe fn raw_cancel(f: Pin<&mut RawW>, held: &mut u32) -> WEnd {
    match f.cancel() {
        RawFutureWriteCancel::AlreadySent => WEnd::CancelAlreadySent,
        RawFutureWriteCancel::Dropped(v) => {
            take_back(v, held);
            WEnd::CancelDropped
        }
        RawFutureWriteCancel::Cancelled(v, w) => {
            take_back(v, held);
            H.writer_handed_back = true;
            core::mem::forget(w);
            WEnd::CancelCancelled
        }
    }
}

macro_rules! wsteps {
    ($f:ident, $cx:ident, $held:ident, $end:ident;) => {};
    ($f:ident, $cx:ident, $held:ident, $end:ident; P $($rest:tt)*) => {
        $end = raw_poll($f.as_mut(), &mut $cx, &mut $held);
        if $end == WEnd::None {
            wsteps!($f, $cx, $held, $end; $($rest)*);
        }
    };
    ($f:ident, $cx:ident, $held:ident, $end:ident; E $($rest:tt)*) => {
        write_event();
        wsteps!($f, $cx, $held, $end; $($rest)*);
    };
    ($f:ident, $cx:ident, $held:ident, $end:ident; C $($rest:tt)*) => {
        $end = raw_cancel($f.as_mut(), &mut $held);
    };
}

unsafe fn finish_write(end: WEnd, held: u32, wrote: bool) {
    mt::G.op_alive = false;
    mt::assert_quiescent();
    assert!(!H.write_in_progress);
    if H.writer_handed_back {
        // cancel() succeeded and returned the writable end to the caller
        assert!(H.drop_writable_calls == 0 && H.delivered == 0 && end == WEnd::CancelCancelled);
    } else {
        // the writable end is released exactly once, and only when allowed
        // (the mock traps otherwise)
        assert!(H.drop_writable_calls == 1, "writable end must be dropped exactly once");
        // one value at most reached the reader; if the reader did not go away, one did
        assert!(H.delivered == 1 || H.reader_dropped, "writer gone, reader alive, no value delivered: stranded future");
    }
    assert!(H.delivered <= 1);
    // ownership of the user's value
    if wrote {
        let consumed = if H.delivered == 1 && H.delivered_val == USER { 1 } else { 0 };
        assert!(consumed + held + H.user_dropped == 1, "the written value must end up in exactly one place");
    } else {
        assert!(H.user_dropped == 0 && held == 0);
    }
    // ownership of default values
    let consumed_d = if H.delivered == 1 && H.delivered_val == DEFAULT { 1 } else { 0 };
    assert!(consumed_d + H.default_dropped == H.defaults_made, "a default value was leaked or dropped twice");
    assert!(H.defaults_made <= 1);
    // every lowered slot is lifted back xor released after delivery
    assert!(H.n_lower == H.n_lift + H.n_dealloc, "lowered slots must be lifted back or released exactly once");
    assert!(H.n_dealloc == H.delivered);
    // outcome reported to the user matches what the host did
    match end {
        WEnd::Ok | WEnd::CancelAlreadySent => assert!(H.delivered == 1 && H.delivered_val == USER, "reported as sent but the host did not take the value"),
        WEnd::ErrReturned | WEnd::CancelDropped => assert!(H.reader_dropped && H.delivered == 0, "reported 'reader dropped' but the host did not say so"),
        WEnd::CancelCancelled => assert!(H.delivered == 0, "reported 'cancelled' but the host took the value"),
        WEnd::None => {}
    }
}

macro_rules! c20w {
    ($name:ident, $vt:ident, $size:expr, $alloc:ident, [$($script:tt)*], $covers:expr) => {
        #[kani::proof]
        #[kani::unwind(3)]
        #[kani::stub(wit_bindgen::rt::async_support::cabi::wasip3_task_set, crate::mock_task::stub_task_set)]
        #[kani::stub(std::alloc::alloc, $alloc)]
        fn $name() {
            unsafe {
                H.elem_size = $size;
                let mut t1 = mt::new_v1_a();
                let mut t2 = mt::new_v2_a();
                let _task = install_task(&mut t1, &mut t2);
                let mut cx = Context::from_waker(Waker::noop());
                let (tx, rx) = raw_future_new(&$vt);
                rx.take_handle(); // the readable end was handed to the peer
                let mut held: u32 = 0;
                #[allow(unused_assignments, unused_mut)]
                let mut end = WEnd::None;
                {
                    #[allow(unused_mut)]
                    let mut f = pin!(tx.write(Val(USER)));
                    wsteps!(f, cx, held, end; $($script)*);
                    assert!(end != WEnd::None, "harness: raw scripts must run the write to an end");
                }
                finish_write(end, held, true);
                let f: fn() = $covers;
                f();
            }
        }
    };
}

// vacuity witnesses
fn cw_pc() {
    unsafe {
        kani::cover!(H.delivered == 1 && H.writes_started == 1 && H.cancel_write_calls == 0, "write completed at once");
        kani::cover!(H.writer_told_dropped && H.cancel_write_calls == 0, "reader already gone");
        kani::cover!(H.cancel_write_calls == 1 && H.delivered == 1, "cancel(): already sent");
        kani::cover!(H.cancel_write_calls == 1 && H.reader_dropped, "cancel(): reader dropped, value handed back");
        kani::cover!(H.cancel_write_calls == 1 && H.writer_handed_back, "cancel(): cancelled, value and writer handed back");
    }
}
fn cw_pec() {
    unsafe {
        kani::cover!(H.cancel_write_calls == 0 && mt::L[0].n_delivered == 1 && H.delivered == 1, "cancel() with the completion already queued");
        kani::cover!(H.cancel_write_calls == 0 && mt::L[0].n_delivered == 1 && H.reader_dropped, "cancel() with a reader-dropped event already queued");
    }
}
fn cw_pep() {
    unsafe {
        kani::cover!(mt::L[0].n_delivered == 1 && H.delivered == 1, "blocked write completed by an event and polled");
        kani::cover!(mt::L[0].n_delivered == 1 && H.reader_dropped && H.user_dropped == 0, "blocked write: reader dropped, value handed back");
    }
}
fn cw_ppc() {
    unsafe {
        kani::cover!(mt::L[0].n_register == 2 && H.cancel_write_calls == 1, "spurious re-poll, then cancel()");
    }
}
fn cw_c() {
    unsafe {
        kani::cover!(H.writes_started == 0 && H.writer_handed_back, "cancel() before the first poll");
    }
}

c20w!(c20_rawwrite_c, VT1, 1, alloc_one_byte, [C], cw_c);
c20w!(c20_rawwrite_pc, VT1, 1, alloc_one_byte, [P C], cw_pc);
c20w!(c20_rawwrite_pec, VT1, 1, alloc_one_byte, [P E C], cw_pec);
c20w!(c20_rawwrite_pep, VT1, 1, alloc_one_byte, [P E P], cw_pep);
c20w!(c20_rawwrite_zst_pc, VT0, 0, alloc_never, [P C], cw_pc);
c20w!(c20_deep_rawwrite_ppc, VT1, 1, alloc_one_byte, [P P C], cw_ppc);

// ---- (2) typed API: FutureWriter / FutureWrite and the default value ------------------
//
// `RawFutureWriter::write_and_forget` is replaced by `stub_write_and_forget`:
// the same protocol as the real `DeferredWrite` (start the write and poll it
// once; poll it again when the completion event arrives; drop the result),
// but driven by the harness on its own stack instead of by an `Arc` that is
// its own waker, and with the completion event delivered right away.  Reason (measured): with the real `DeferredWrite` CBMC's symbolic
// execution does not terminate (> 20 min) -- every waker drop may be the last
// reference of the `Arc`, whose destructor drops the write, which cancels,
// which drops a waker, ...  The `Arc`/`Wake` mechanics of `DeferredWrite` are
// therefore outside the claim; *when* a default value is written, with which
// value, and that the writable end is only released afterwards, is inside.


/// Harness-driven equivalent of `DeferredWrite`: start the write and poll it;
/// if it blocks, the host's completion event is delivered (here, i.e. before
/// anything else happens in the scenario) and the write is polled again, as
/// `DeferredWrite::wake` would; its result is dropped.
fn stub_write_and_forget<O: FutureOps + 'static>(this: RawFutureWriter<O>, value: O::Payload) {
    unsafe {
        H.deferred_calls += 1;
        assert!(H.deferred_calls == 1, "more than one deferred write for one future");
        let mut cx = Context::from_waker(Waker::noop());
        let mut f = pin!(this.write(value));
        match f.as_mut().poll(&mut cx) {
            Poll::Ready(r) => drop(r),
            Poll::Pending => {
                pending_is_registered();
                H.deferred_blocked = true;
                write_event();
                match f.as_mut().poll(&mut cx) {
                    Poll::Ready(r) => drop(r),
                    Poll::Pending => assert!(false, "deferred write still pending after its completion event"),
                }
            }
        }
    }
}

unsafe fn typed_setup(t1: &mut mt::wasip3_task, t2: &mut mt::wasip3_task_v2) -> FutureWriter<Val> {
    H.elem_size = 1;
    H.fix_v2 = true; // the typed scenarios are the expensive ones: task C ABI v2 only (what the in-tree executor provides)
    let _task = install_task(t1, t2);
    let (tx, rx) = future_new(default_val, &VT1);
    rx.take_handle();
    tx
}

/// A `FutureWriter` that is never written.
#[kani::proof]
#[kani::unwind(3)]
#[kani::stub(wit_bindgen::rt::async_support::cabi::wasip3_task_set, crate::mock_task::stub_task_set)]
#[kani::stub(wit_bindgen::rt::async_support::RawFutureWriter::write_and_forget, stub_write_and_forget)]
#[kani::stub(std::alloc::alloc, alloc_one_byte)]
fn c20_typed_writer_dropped_unwritten() {
    unsafe {
        let mut t1 = mt::new_v1_a();
        let mut t2 = mt::new_v2_a();
        let tx = typed_setup(&mut t1, &mut t2);
        drop(tx);
        finish_write(WEnd::None, 0, false);
        kani::cover!(H.delivered == 1 && H.delivered_val == DEFAULT && mt::L[0].n_delivered == 0, "default delivered at once");
        kani::cover!(H.delivered == 1 && H.delivered_val == DEFAULT && mt::L[0].n_delivered == 1, "default write blocked, completed by an event");
        kani::cover!(H.default_dropped == 1 && mt::L[0].n_delivered == 0, "default write: reader gone");
        kani::cover!(H.default_dropped == 1 && mt::L[0].n_delivered == 1, "default write blocked, then the reader went away");
    }
}

/// A `FutureWrite` dropped before its first poll.
#[kani::proof]
#[kani::unwind(3)]
#[kani::stub(wit_bindgen::rt::async_support::cabi::wasip3_task_set, crate::mock_task::stub_task_set)]
#[kani::stub(wit_bindgen::rt::async_support::RawFutureWriter::write_and_forget, stub_write_and_forget)]
#[kani::stub(std::alloc::alloc, alloc_one_byte)]
fn c20_typed_write_dropped_unpolled() {
    unsafe {
        let mut t1 = mt::new_v1_a();
        let mut t2 = mt::new_v2_a();
        let tx = typed_setup(&mut t1, &mut t2);
        drop(tx.write(Val(USER)));
        finish_write(WEnd::None, 0, true);
        kani::cover!(H.user_dropped == 1 && H.delivered == 1 && H.delivered_val == DEFAULT, "user value dropped, default delivered");
        kani::cover!(H.user_dropped == 1 && H.default_dropped == 1, "user value dropped, default found the reader gone");
    }
}

/// A `FutureWrite` polled once and dropped mid-flight.
#[kani::proof]
#[kani::unwind(3)]
#[kani::stub(wit_bindgen::rt::async_support::cabi::wasip3_task_set, crate::mock_task::stub_task_set)]
#[kani::stub(wit_bindgen::rt::async_support::RawFutureWriter::write_and_forget, stub_write_and_forget)]
#[kani::stub(std::alloc::alloc, alloc_one_byte)]
fn c20_typed_write_dropped_midflight() {
    unsafe {
        let mut t1 = mt::new_v1_a();
        let mut t2 = mt::new_v2_a();
        let tx = typed_setup(&mut t1, &mut t2);
        let mut cx = Context::from_waker(Waker::noop());
        let mut held = 0;
        let mut end = WEnd::None;
        {
            let mut f = pin!(tx.write(Val(USER)));
            match f.as_mut().poll(&mut cx) {
                Poll::Ready(Ok(())) => end = WEnd::Ok,
                Poll::Ready(Err(e)) => {
                    take_back(e.value, &mut held);
                    end = WEnd::ErrReturned;
                }
                Poll::Pending => pending_is_registered(),
            }
        }
        finish_write(end, held, true);
        kani::cover!(H.cancel_write_calls == 1 && H.delivered == 1 && H.delivered_val == USER, "dropped mid-flight, cancel lost: value sent");
        kani::cover!(H.cancel_write_calls == 1 && H.defaults_made == 1 && H.delivered == 1 && H.delivered_val == DEFAULT, "dropped mid-flight, cancelled: default value delivered instead");
        kani::cover!(H.cancel_write_calls == 1 && H.defaults_made == 1 && H.default_dropped == 1, "dropped mid-flight, cancelled, default found the reader gone");
        kani::cover!(H.defaults_made == 1 && mt::L[0].n_delivered == 1, "default write blocked, completed later by an event (DeferredWrite)");
    }
}

/// `FutureWrite::cancel()` (typed): the outcome is mapped faithfully; when
/// the write is cancelled the value *and a live `FutureWriter`* come back.  The
/// harness keeps that writer (`mem::forget`): dropping an unwritten
/// `FutureWriter` is `c20_typed_writer_dropped_unwritten`'s scenario (doing
/// both in one harness runs CBMC out of its 12 GB cap).
#[kani::proof]
#[kani::unwind(3)]
#[kani::stub(wit_bindgen::rt::async_support::cabi::wasip3_task_set, crate::mock_task::stub_task_set)]
#[kani::stub(wit_bindgen::rt::async_support::RawFutureWriter::write_and_forget, stub_write_and_forget)]
#[kani::stub(std::alloc::alloc, alloc_one_byte)]
fn c20_typed_cancel() {
    unsafe {
        let mut t1 = mt::new_v1_a();
        let mut t2 = mt::new_v2_a();
        let tx = typed_setup(&mut t1, &mut t2);
        let mut cx = Context::from_waker(Waker::noop());
        let mut held = 0;
        let mut end = WEnd::None;
        {
            let mut f = pin!(tx.write(Val(USER)));
            match f.as_mut().poll(&mut cx) {
                Poll::Ready(Ok(())) => end = WEnd::Ok,
                Poll::Ready(Err(e)) => {
                    take_back(e.value, &mut held);
                    end = WEnd::ErrReturned;
                }
                Poll::Pending => {
                    pending_is_registered();
                    match f.as_mut().cancel() {
                        FutureWriteCancel::AlreadySent => end = WEnd::CancelAlreadySent,
                        FutureWriteCancel::Dropped(v) => {
                            take_back(v, &mut held);
                            end = WEnd::CancelDropped;
                        }
                        FutureWriteCancel::Cancelled(v, w) => {
                            take_back(v, &mut held);
                            end = WEnd::CancelCancelled;
                            H.writer_handed_back = true;
                            core::mem::forget(w);
                        }
                    }
                }
            }
        }
        assert!(H.deferred_calls == 0, "cancel() itself must not write a default value");
        finish_write(end, held, true);
        kani::cover!(end == WEnd::CancelCancelled, "cancel(): cancelled, value and writer handed back");
        kani::cover!(end == WEnd::CancelAlreadySent, "cancel(): already sent");
        kani::cover!(end == WEnd::CancelDropped, "cancel(): reader dropped");
    }
}

// ---- read side -----------------------------------------------------------------

#[derive(Clone, Copy, PartialEq)]
enum REnd {
    None,
    Value,
    CancelValue,
    CancelReader,
}

macro_rules! rsteps {
    ($f:ident, $cx:ident, $held:ident, $end:ident;) => {};
    ($f:ident, $cx:ident, $held:ident, $end:ident; P $($rest:tt)*) => {
        match $f.as_mut().poll(&mut $cx) {
            Poll::Ready(v) => {
                assert!(v.0 == HOSTVAL, "read yields a value the host did not write");
                $held += 1;
                core::mem::forget(v);
                $end = REnd::Value;
            }
            Poll::Pending => {
                pending_is_registered();
                rsteps!($f, $cx, $held, $end; $($rest)*);
            }
        }
    };
    ($f:ident, $cx:ident, $held:ident, $end:ident; E $($rest:tt)*) => {
        read_event();
        rsteps!($f, $cx, $held, $end; $($rest)*);
    };
    ($f:ident, $cx:ident, $held:ident, $end:ident; C $($rest:tt)*) => {
        match $f.as_mut().cancel() {
            Ok(v) => {
                assert!(v.0 == HOSTVAL);
                $held += 1;
                core::mem::forget(v);
                $end = REnd::CancelValue;
            }
            Err(reader) => {
                $end = REnd::CancelReader;
                drop(reader); // the readable end comes back and is released by the user
            }
        }
    };
}

unsafe fn finish_read(end: REnd, held: u32) {
    mt::G.op_alive = false;
    mt::assert_quiescent();
    assert!(!H.read_in_progress, "read future gone but the host still has a read in progress");
    assert!(H.drop_readable_calls == 1, "readable end must be dropped exactly once");
    // the value is lifted exactly once iff the host completed the read
    assert!(H.n_lift == H.read_completed, "value lifted exactly once iff the host completed the read");
    assert!(held + H.hostval_dropped == H.n_lift, "the read value must be owned exactly once");
    assert!(H.n_lower == 0 && H.n_dealloc == 0);
    match end {
        REnd::Value | REnd::CancelValue => assert!(H.read_completed == 1 && held == 1),
        REnd::CancelReader => assert!(H.read_completed == 0, "cancel reported 'cancelled' although the host completed the read"),
        REnd::None => {}
    }
}

macro_rules! c20r {
    ($name:ident, $vt:ident, $size:expr, $alloc:ident, [$($script:tt)*], $covers:expr) => {
        #[kani::proof]
        #[kani::unwind(3)]
        #[kani::stub(wit_bindgen::rt::async_support::cabi::wasip3_task_set, crate::mock_task::stub_task_set)]
        #[kani::stub(std::alloc::alloc, $alloc)]
        fn $name() {
            unsafe {
                H.elem_size = $size;
                let mut t1 = mt::new_v1_a();
                let mut t2 = mt::new_v2_a();
                let _task = install_task(&mut t1, &mut t2);
                let mut cx = Context::from_waker(Waker::noop());
                let (tx, rx) = raw_future_new(&$vt);
                core::mem::forget(tx); // the writable end was handed to the peer
                let mut held: u32 = 0;
                #[allow(unused_assignments, unused_mut)]
                let mut end = REnd::None;
                {
                    #[allow(unused_mut)]
                    let mut f = pin!(rx.into_future());
                    rsteps!(f, cx, held, end; $($script)*);
                }
                finish_read(end, held);
                let f: fn() = $covers;
                f();
            }
        }
    };
}

fn cr_d() {
    unsafe {
        kani::cover!(H.reads_started == 0 && H.drop_readable_calls == 1, "reader dropped unread");
    }
}
fn cr_pd() {
    unsafe {
        kani::cover!(H.read_completed == 1 && H.cancel_read_calls == 0 && mt::L[0].n_register == 0, "value available at once");
        kani::cover!(H.cancel_read_calls == 1 && H.read_completed == 1 && H.hostval_dropped == 1, "read dropped mid-flight, cancel lost: value lifted and dropped");
        kani::cover!(H.cancel_read_calls == 1 && H.read_completed == 0, "read dropped mid-flight, cancelled");
    }
}
fn cr_ped() {
    unsafe {
        kani::cover!(mt::L[0].n_delivered == 1 && H.cancel_read_calls == 0 && H.hostval_dropped == 1, "completion queued when the read future is dropped");
    }
}
fn cr_pep() {
    unsafe {
        kani::cover!(mt::L[0].n_delivered == 1 && H.read_completed == 1 && H.hostval_dropped == 0, "blocked read completed by an event and polled");
    }
}
fn cr_pc() {
    unsafe {
        kani::cover!(H.cancel_read_calls == 1 && H.read_completed == 1, "cancel(): value arrived");
        kani::cover!(H.cancel_read_calls == 1 && H.read_completed == 0 && H.drop_readable_calls == 1, "cancel(): cancelled, reader handed back");
    }
}
fn cr_pec() {
    unsafe {
        kani::cover!(H.cancel_read_calls == 0 && mt::L[0].n_delivered == 1 && H.read_completed == 1, "cancel() with the completion already queued");
    }
}

c20r!(c20_read_d, VR1, 1, alloc_one_byte, [], cr_d);
c20r!(c20_read_c, VR1, 1, alloc_one_byte, [C], cr_d);
c20r!(c20_read_pd, VR1, 1, alloc_one_byte, [P], cr_pd);
c20r!(c20_read_ped, VR1, 1, alloc_one_byte, [P E], cr_ped);
c20r!(c20_read_pepd, VR1, 1, alloc_one_byte, [P E P], cr_pep);
c20r!(c20_read_pc, VR1, 1, alloc_one_byte, [P C], cr_pc);
c20r!(c20_read_pec, VR1, 1, alloc_one_byte, [P E C], cr_pec);
c20r!(c20_read_zst_pd, VR0, 0, alloc_never, [P], cr_pd);
c20r!(c20_deep_read_ppd, VR1, 1, alloc_one_byte, [P P], cr_pd);
