//! (to be filled)
