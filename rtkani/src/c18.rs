//! C18 — the async runtime registers, delivers and unregisters waitables exactly.
//!
//! Real code: all of waitable.rs — `WaitableOperation::{new, register_waker,
//! unregister_waker, poll_complete, poll_complete_with_code, cancel, Drop}`,
//! `CabiTask::{new, unregister, Drop}`, `cabi_wake`, `CompletionStatus` —
//! driven through a minimal `WaitableOp` (the hook re-exports the trait and
//! the struct) that stands for any stream/future/subtask operation:
//!
//! * `start` answers `PENDING` (blocked), `PROGRESS` (progress that does not
//!   finish the operation, like a subtask's STARTED) or `DONE`;
//! * events carry `PROGRESS` or `DONE`, only while the waitable is registered
//!   and unresolved; delivery = remove the registration, call the callback;
//! * the (synchronous) cancel intrinsic answers `DONE` or `CANCELLED`, traps
//!   (assert) when the waitable is still registered with any task, when the
//!   operation already resolved, or when called twice;
//! * dropping the in-progress state stands for the handle-level intrinsic
//!   (`subtask.drop`, ...): it traps unless the operation resolved and the
//!   waitable is registered nowhere.
//!
//! What is asserted (mock task + ledger):
//! pending => registered with the *current* task, always with the same
//! callback pointer; never registered with two tasks at once; cancel / handle
//! drop only while registered nowhere; nothing registered and no task clone
//! alive once the operation's memory is gone; every code the host produced
//! (start answer, events, cancel answer) reaches `in_progress_update` exactly
//! once and in order; every delivered event wakes the waker exactly once and
//! waker clones are balanced by drops.

use crate::mock_task as mt;
use core::pin::{pin, Pin};
use core::task::{Context, Poll, RawWaker, RawWakerVTable, Waker};
use wit_bindgen::rt::async_support::verif_hooks::{WaitableOp, WaitableOperation};

const PENDING: u32 = 0;
const PROGRESS: u32 = 1;
const DONE: u32 = 2;
const CANCELLED: u32 = 3;

struct Host {
    /// unique first bytes: see mock_task::Globals
    magic: u64,
    handle: u32,
    started: u32,
    start_cancelled: u32,
    resolved: bool,
    cancel_calls: u32,
    n_host_codes: u32,
    seq_host: u32,
    n_update: u32,
    seq_guest: u32,
    state_dropped: u32,
    wakes: u32,
    waker_clones: u32,
    waker_drops: u32,
}

static mut H: Host = Host {
    magic: 0x6331_385f_686f_7374,
    handle: 0,
    started: 0,
    start_cancelled: 0,
    resolved: false,
    cancel_calls: 0,
    n_host_codes: 0,
    seq_host: 0,
    n_update: 0,
    seq_guest: 0,
    state_dropped: 0,
    wakes: 0,
    waker_clones: 0,
    waker_drops: 0,
};

unsafe fn host_code(code: u32) {
    H.n_host_codes += 1;
    H.seq_host = H.seq_host * 4 + code;
    if code == DONE || code == CANCELLED {
        H.resolved = true;
    }
}

/// In-progress state; its destructor is the handle-level drop intrinsic.
struct InProg;
impl Drop for InProg {
    fn drop(&mut self) {
        unsafe {
            H.state_dropped += 1;
            mt::G.handle_closed = true;
            assert!(H.resolved, "in-progress state (handle) dropped before the operation resolved");
            assert!(
                !mt::registered_anywhere(H.handle),
                "handle dropped while its waitable is still registered with a task"
            );
        }
    }
}

struct Op;

unsafe impl WaitableOp for Op {
    type Start = ();
    type InProgress = InProg;
    type Result = u32;
    type Cancel = Option<u32>;

    fn start(&mut self, _: ()) -> (u32, InProg) {
        unsafe {
            H.started += 1;
            assert!(H.started == 1, "operation started twice");
            let h: u32 = kani::any();
            kani::assume(h >= 1 && h < (1 << 28));
            H.handle = h;
            mt::G.expect_waitable = h;
            let code: u32 = kani::any();
            kani::assume(code == PENDING || code == PROGRESS || code == DONE);
            host_code(code);
            (code, InProg)
        }
    }

    fn start_cancelled(&mut self, _: ()) -> Option<u32> {
        unsafe {
            H.start_cancelled += 1;
        }
        None
    }

    fn in_progress_update(&mut self, state: InProg, code: u32) -> Result<u32, InProg> {
        unsafe {
            H.n_update += 1;
            H.seq_guest = H.seq_guest * 4 + code;
        }
        match code {
            PENDING | PROGRESS => Err(state),
            _ => Ok(code), // `state` dropped here: handle released
        }
    }

    fn in_progress_waitable(&mut self, _: &InProg) -> u32 {
        unsafe { H.handle }
    }

    fn in_progress_cancel(&mut self, _: &mut InProg) -> u32 {
        unsafe {
            assert!(!H.resolved, "cancel intrinsic on an operation that already resolved (host traps)");
            assert!(H.cancel_calls == 0, "cancel intrinsic called twice (host traps)");
            assert!(
                !mt::registered_anywhere(H.handle),
                "cancel intrinsic while the waitable is still registered with a task"
            );
            H.cancel_calls += 1;
            let ans: u32 = kani::any();
            kani::assume(ans == DONE || ans == CANCELLED);
            host_code(ans);
            ans
        }
    }

    fn result_into_cancel(&mut self, r: u32) -> Option<u32> {
        Some(r)
    }
}

// ---- counting waker -----------------------------------------------------------

static WAKER_VT: RawWakerVTable = RawWakerVTable::new(w_clone, w_wake, w_wake_by_ref, w_drop);
unsafe fn w_clone(p: *const ()) -> RawWaker {
    H.waker_clones += 1;
    RawWaker::new(p, &WAKER_VT)
}
unsafe fn w_wake(_: *const ()) {
    H.wakes += 1;
    H.waker_drops += 1; // `wake` consumes the waker
}
unsafe fn w_wake_by_ref(_: *const ()) {
    H.wakes += 1;
}
unsafe fn w_drop(_: *const ()) {
    H.waker_drops += 1;
}

// ---- driver --------------------------------------------------------------------

type Wo = WaitableOperation<Op>;

/// Which task's set currently holds the waitable (if any) delivers the event.
unsafe fn host_event() {
    assert!(!H.resolved && H.handle != 0, "harness: no event possible here");
    let code: u32 = kani::any();
    kani::assume(code == PROGRESS || code == DONE);
    host_code(code);
    let wakes = H.wakes;
    if mt::L[0].reg_set {
        mt::deliver(0, code);
    } else {
        assert!(mt::L[1].reg_set, "harness: no event possible here (not registered)");
        mt::deliver(1, code);
    }
    assert!(H.wakes == wakes + 1, "a delivered event must wake the registered waker exactly once");
}

unsafe fn step_poll(op: Pin<&mut Wo>, cx: &mut Context<'_>, cur: usize) -> Option<u32> {
    let task = mt::G.cur;
    let r = match op.poll_complete(cx) {
        Poll::Ready(r) => Some(r),
        Poll::Pending => {
            assert!(mt::L[cur].reg_set, "pending operation is not registered with the current task");
            assert!(mt::L[cur].reg_waitable == H.handle);
            assert!(!mt::L[1 - cur].reg_set, "pending operation is (also) registered with another task");
            None
        }
    };
    assert!(mt::G.cur == task, "wasip3_task_set cell not restored");
    r
}

/// Scripts: `P` poll, `E` host event, `A`/`B` make task A/B current, `C`
/// explicit `cancel()`; the operation is dropped when the script ends.
macro_rules! steps {
    ($op:ident, $cx:ident, $tasks:ident, $cur:ident, $res:ident, $cancel:ident;) => {};
    ($op:ident, $cx:ident, $tasks:ident, $cur:ident, $res:ident, $cancel:ident; P $($rest:tt)*) => {
        $res = step_poll($op.as_mut(), &mut $cx, $cur);
        if $res.is_none() {
            steps!($op, $cx, $tasks, $cur, $res, $cancel; $($rest)*);
        }
    };
    ($op:ident, $cx:ident, $tasks:ident, $cur:ident, $res:ident, $cancel:ident; E $($rest:tt)*) => {
        host_event();
        steps!($op, $cx, $tasks, $cur, $res, $cancel; $($rest)*);
    };
    ($op:ident, $cx:ident, $tasks:ident, $cur:ident, $res:ident, $cancel:ident; A $($rest:tt)*) => {
        $cur = 0;
        mt::G.cur = $tasks[0];
        steps!($op, $cx, $tasks, $cur, $res, $cancel; $($rest)*);
    };
    ($op:ident, $cx:ident, $tasks:ident, $cur:ident, $res:ident, $cancel:ident; B $($rest:tt)*) => {
        $cur = 1;
        mt::G.cur = $tasks[1];
        steps!($op, $cx, $tasks, $cur, $res, $cancel; $($rest)*);
    };
    ($op:ident, $cx:ident, $tasks:ident, $cur:ident, $res:ident, $cancel:ident; C $($rest:tt)*) => {
        $cancel = Some($op.as_mut().cancel());
        steps!($op, $cx, $tasks, $cur, $res, $cancel; $($rest)*);
    };
}

/// `$va`/`$vb`: C ABI version of task A / B (`None` = symbolic 1 or 2).  The
/// one-task form never constructs task B (so CBMC does not see B's functions
/// as candidates of the indirect calls).
macro_rules! scenario {
    (one, $va:expr; $($script:tt)*) => {{
        let va: u32 = match $va { Some(v) => v, None => if kani::any() { 1 } else { 2 } };
        let mut a1 = mt::new_v1_a();
        let mut a2 = mt::new_v2_a();
        let ta: *mut mt::wasip3_task = if va == 1 { &mut a1 } else { (&mut a2 as *mut mt::wasip3_task_v2).cast() };
        let tasks = [ta, ta];
        scenario!(@run tasks, va, 0; $($script)*);
    }};
    (two, $va:expr, $vb:expr; $($script:tt)*) => {{
        let va: u32 = match $va { Some(v) => v, None => if kani::any() { 1 } else { 2 } };
        let vb: u32 = match $vb { Some(v) => v, None => if kani::any() { 1 } else { 2 } };
        let mut a1 = mt::new_v1_a();
        let mut a2 = mt::new_v2_a();
        let mut b1 = mt::new_v1_b();
        let mut b2 = mt::new_v2_b();
        let ta: *mut mt::wasip3_task = if va == 1 { &mut a1 } else { (&mut a2 as *mut mt::wasip3_task_v2).cast() };
        let tb: *mut mt::wasip3_task = if vb == 1 { &mut b1 } else { (&mut b2 as *mut mt::wasip3_task_v2).cast() };
        let tasks = [ta, tb];
        scenario!(@run tasks, va, vb; $($script)*);
    }};
    (@run $tasks:ident, $va:ident, $vb:expr; $($script:tt)*) => {{
        mt::G.clone_distinct = kani::any();
        #[allow(unused_mut, unused_assignments)]
        let mut cur: usize = 0;
        mt::G.cur = $tasks[0];

        H.waker_clones = 1; // the harness's own reference
        let waker = Waker::from_raw(RawWaker::new(core::ptr::null(), &WAKER_VT));
        #[allow(unused_mut)]
        let mut cx = Context::from_waker(&waker);
        #[allow(unused_assignments, unused_mut)]
        let mut result: Option<u32> = None;
        #[allow(unused_assignments, unused_mut)]
        let mut cancelled: Option<Option<u32>> = None;
        {
            #[allow(unused_mut)]
            let mut op = pin!(WaitableOperation::new(Op, ()));
            steps!(op, cx, $tasks, cur, result, cancelled; $($script)*);
            if cancelled.is_some() {
                assert!(op.is_done(), "operation not done after cancel()");
            }
            // dropped here
        }
        mt::G.op_alive = false;
        assert!(mt::G.cur == $tasks[cur], "wasip3_task_set cell not restored");
        drop(waker);
        finish(result, cancelled, $va, $vb);
    }};
}

unsafe fn finish(result: Option<u32>, cancelled: Option<Option<u32>>, va: u32, vb: u32) {
    // nothing may point at the operation's memory any more
    mt::assert_quiescent();
    if va == 1 {
        assert!(mt::L[0].clones_made == 0);
    }
    if vb == 1 {
        assert!(mt::L[1].clones_made == 0);
    }
    // every code the host produced was consumed exactly once, in order
    assert!(H.n_update == H.n_host_codes, "a host code was dropped or consumed twice");
    assert!(H.seq_guest == H.seq_host, "codes reached in_progress_update out of order");
    if H.started == 0 {
        assert!(H.start_cancelled == 1 && H.state_dropped == 0 && H.cancel_calls == 0);
        assert!(result.is_none());
        if let Some(c) = cancelled {
            assert!(c.is_none());
        }
    } else {
        assert!(H.start_cancelled == 0);
        assert!(H.resolved, "operation ended while still in progress");
        assert!(H.state_dropped == 1, "in-progress state must be released exactly once");
        let last = H.seq_host & 3;
        if let Some(r) = result {
            assert!(r == DONE && H.cancel_calls == 0);
        }
        if let Some(c) = cancelled {
            assert!(c == Some(last), "cancel() must report the code the host produced last");
        }
    }
    // wake-ups and waker references
    assert!(H.wakes == mt::L[0].n_delivered + mt::L[1].n_delivered);
    assert!(H.waker_clones == H.waker_drops, "a cloned waker was leaked or dropped twice");
}

macro_rules! c18 {
    ($name:ident, one, $va:expr, [$($script:tt)*], $covers:expr) => {
        c18!(@h $name, $covers, { scenario!(one, $va; $($script)*); });
    };
    ($name:ident, two, $va:expr, $vb:expr, [$($script:tt)*], $covers:expr) => {
        c18!(@h $name, $covers, { scenario!(two, $va, $vb; $($script)*); });
    };
    (@h $name:ident, $covers:expr, $body:block) => {
        #[kani::proof]
        #[kani::unwind(2)]
        #[kani::stub(wit_bindgen::rt::async_support::cabi::wasip3_task_set, crate::mock_task::stub_task_set)]
        fn $name() {
            unsafe {
                $body;
                let f: fn() = $covers;
                f();
            }
        }
    };
}

// ---- vacuity witnesses -----------------------------------------------------------
fn cov_unstarted() {
    unsafe {
        kani::cover!(H.start_cancelled == 1);
    }
}
fn cov_p() {
    unsafe {
        kani::cover!(H.n_host_codes == 1 && H.resolved, "completed by start");
        kani::cover!(H.cancel_calls == 1 && (H.seq_host & 3) == CANCELLED, "cancel won");
        kani::cover!(H.cancel_calls == 1 && (H.seq_host & 3) == DONE, "cancel lost");
        kani::cover!(mt::L[0].clones_made == 1 && mt::G.clone_distinct, "v2 task, fresh-pointer clone");
        kani::cover!(mt::L[0].n_register == 1 && mt::L[0].clones_made == 0, "v1 task");
    }
}
fn cov_pe() {
    unsafe {
        kani::cover!(H.cancel_calls == 0 && mt::L[0].n_delivered == 1 && H.n_update == 2, "queued DONE consumed by drop/cancel, no cancel intrinsic");
        kani::cover!(H.cancel_calls == 1 && mt::L[0].n_delivered == 1 && H.n_update == 3, "queued PROGRESS consumed, then cancel intrinsic");
    }
}
fn cov_pep() {
    unsafe {
        kani::cover!(H.cancel_calls == 0 && mt::L[0].n_delivered == 1 && H.state_dropped == 1, "event polled to completion");
        kani::cover!(H.cancel_calls == 1 && mt::L[0].n_register == 2, "PROGRESS polled: re-registered, then cancelled");
    }
}
fn cov_pepep() {
    unsafe {
        kani::cover!(mt::L[0].n_delivered == 2 && H.cancel_calls == 0 && H.n_update == 3, "two events polled to completion");
    }
}
fn cov_pp() {
    unsafe {
        kani::cover!(mt::L[0].n_register == 2 && H.cancel_calls == 1, "spurious re-poll re-registers; then cancel");
        kani::cover!(mt::L[0].n_register == 2 && mt::L[0].clones_made == 2, "fresh-pointer clones: second registration re-clones the task");
    }
}
fn cov_ppep() {
    unsafe {
        kani::cover!(mt::L[0].n_register == 2 && mt::L[0].n_delivered == 1 && H.cancel_calls == 0, "spurious re-poll, then event polled to completion");
        kani::cover!(mt::L[0].n_register == 3 && H.cancel_calls == 1, "spurious re-poll, PROGRESS polled, then cancelled");
    }
}
fn cov_db() {
    unsafe {
        kani::cover!(mt::L[0].n_register == 1 && mt::L[1].n_register == 0 && H.cancel_calls == 1, "registered with A, dropped while B is current");
    }
}
fn cov_ab_cancel() {
    unsafe {
        kani::cover!(mt::L[0].n_register >= 1 && mt::L[1].n_register >= 1 && H.cancel_calls == 1, "registered with A, then B, then cancelled");
    }
}
fn cov_a_e_b() {
    unsafe {
        kani::cover!(mt::L[0].n_delivered == 1 && mt::L[1].n_register == 1 && H.cancel_calls == 1, "event delivered by task A, re-registered with B, cancelled");
        kani::cover!(mt::L[0].n_delivered == 1 && mt::L[1].n_register == 0 && H.cancel_calls == 0, "event delivered by task A, completed under B");
    }
}
fn cov_ab_eb() {
    unsafe {
        kani::cover!(mt::L[0].n_register == 1 && mt::L[1].n_delivered == 1 && H.cancel_calls == 0, "registered with A, moved to B, event delivered by task B, completed");
        kani::cover!(mt::L[1].n_delivered == 1 && mt::L[1].n_register == 2 && H.cancel_calls == 1, "moved to B, PROGRESS delivered by B, re-registered, cancelled");
    }
}
// one task (A), C ABI version and clone behaviour symbolic
c18!(c18_one_d, one, None, [], cov_unstarted);
c18!(c18_one_c, one, None, [C], cov_unstarted);
c18!(c18_one_pd, one, None, [P], cov_p);
c18!(c18_one_pc, one, None, [P C], cov_p);
c18!(c18_one_ped, one, None, [P E], cov_pe);
c18!(c18_one_pec, one, None, [P E C], cov_pe);
c18!(c18_one_pepd, one, None, [P E P], cov_pep);
c18!(c18_one_pepc, one, None, [P E P C], cov_pep);
c18!(c18_one_pepepd, one, None, [P E P E P], cov_pepep);
c18!(c18_one_ppd, one, None, [P P], cov_pp);
c18!(c18_one_ppepd, one, None, [P P E P], cov_ppep);

// two tasks, both on the v2 C ABI: the operation is registered under task A
// and re-polled / cancelled / dropped while task B (or A again) is current
c18!(c18_two_v2v2_pa_pb_d, two, Some(2), Some(2), [P B P], cov_ab_cancel);
c18!(c18_two_v2v2_pa_e_pb_d, two, Some(2), Some(2), [P E B P], cov_a_e_b);
c18!(c18_two_v2v2_pa_pb_e_pb, two, Some(2), Some(2), [P B P E P], cov_ab_eb);
c18!(c18_two_v2v2_pa_pb_da, two, Some(2), Some(2), [P B P A], cov_ab_cancel);
c18!(c18_two_v2v2_pa_db, two, Some(2), Some(2), [P B], cov_db);
c18!(c18_two_v2v2_pa_pb_pa_d, two, Some(2), Some(2), [P B P A P], cov_ab_cancel);

// a NON-FINAL event (PROGRESS, like a subtask's STARTED) is delivered and
// re-polled under task A -- unregister by delivery, re-registration with the
// SAME task -- and only then, still pending, the operation moves to task B
fn cov_a_e_a_b() {
    unsafe {
        kani::cover!(
            mt::L[0].n_delivered == 1 && mt::L[0].n_register == 2 && mt::L[1].n_register == 1 && H.cancel_calls == 1 && !mt::G.clone_distinct,
            "PROGRESS re-polled under A (same-pointer clone: task kept), moved to B, cancelled"
        );
        kani::cover!(mt::L[0].n_delivered == 1 && mt::L[0].n_register == 1 && H.cancel_calls == 0, "DONE delivered by A: completed under A");
    }
}
fn cov_a_e_a_b_e_b() {
    unsafe {
        kani::cover!(
            mt::L[0].n_delivered == 1 && mt::L[0].n_register == 2 && mt::L[1].n_delivered == 1 && H.cancel_calls == 0,
            "PROGRESS under A, moved to B, DONE delivered by B and polled"
        );
    }
}
fn cov_a_e_a_db() {
    unsafe {
        kani::cover!(mt::L[0].n_delivered == 1 && mt::L[0].n_register == 2 && mt::L[1].n_register == 0 && H.cancel_calls == 1, "PROGRESS re-polled under A, dropped while B is current");
    }
}
c18!(c18_two_v2v2_pa_e_pa_pb_d, two, Some(2), Some(2), [P E P B P], cov_a_e_a_b);
c18!(c18_two_v2v1_pa_e_pa_pb_d, two, Some(2), Some(1), [P E P B P], cov_a_e_a_b);
c18!(c18_two_v2v2_pa_e_pa_pb_e_pb, two, Some(2), Some(2), [P E P B P E P], cov_a_e_a_b_e_b);
c18!(c18_two_v2v2_pa_e_pa_db, two, Some(2), Some(2), [P E P B], cov_a_e_a_db);

// two tasks where one of them only speaks the v1 C ABI (no clone/drop, so the
// runtime cannot keep a reference to the task it registered with)
c18!(c18_two_v1v1_pa_pb_d, two, Some(1), Some(1), [P B P], cov_ab_cancel);
c18!(c18_two_v1v2_pa_pb_d, two, Some(1), Some(2), [P B P], cov_ab_cancel);
c18!(c18_two_v2v1_pa_pb_d, two, Some(2), Some(1), [P B P], cov_ab_cancel);
c18!(c18_two_v1v1_pa_e_pb_d, two, Some(1), Some(1), [P E B P], cov_a_e_b);
c18!(c18_two_v1v1_pa_db, two, Some(1), Some(1), [P B], cov_db);

// ---- thorough tier: longer schedules ---------------------------------------------
fn cov_ppp() {
    unsafe {
        kani::cover!(mt::L[0].n_register == 3 && H.cancel_calls == 1, "two spurious re-polls");
    }
}
fn cov_pepp() {
    unsafe {
        kani::cover!(mt::L[0].n_delivered == 1 && mt::L[0].n_register == 3 && H.cancel_calls == 1, "PROGRESS polled, spurious re-poll, cancelled");
    }
}
fn cov_pepec() {
    unsafe {
        kani::cover!(mt::L[0].n_delivered == 2 && H.cancel_calls == 0 && H.n_update == 3, "second event (DONE) queued when cancel() is called");
    }
}
fn cov_abab() {
    unsafe {
        kani::cover!(mt::L[0].n_register == 2 && mt::L[1].n_register == 2 && H.cancel_calls == 1, "A, B, A, B then cancelled");
    }
}
fn cov_a_e_b_e_a() {
    unsafe {
        kani::cover!(mt::L[0].n_delivered == 1 && mt::L[1].n_delivered == 1 && H.cancel_calls == 0, "one event from each task, completed");
        kani::cover!(mt::L[0].n_delivered == 1 && mt::L[1].n_delivered == 1 && mt::L[0].n_register == 2 && H.cancel_calls == 1, "one event from each task, back under A, cancelled");
    }
}
c18!(c18_deep_one_pppd, one, None, [P P P], cov_ppp);
c18!(c18_deep_one_peppd, one, None, [P E P P], cov_pepp);
c18!(c18_deep_one_pepec, one, None, [P E P E C], cov_pepec);
c18!(c18_deep_one_ppepepd, one, None, [P P E P E P], cov_pepep);
c18!(c18_deep_two_v2v2_abab, two, Some(2), Some(2), [P B P A P B P], cov_abab);
c18!(c18_deep_two_v2v2_a_e_b_e_a, two, Some(2), Some(2), [P E B P E A P], cov_a_e_b_e_a);
c18!(c18_deep_two_v2v2_pa_pb_e_pa, two, Some(2), Some(2), [P B P E A P], cov_ab_eb_a);
fn cov_ab_eb_a() {
    unsafe {
        kani::cover!(mt::L[1].n_delivered == 1 && mt::L[0].n_register == 2 && H.cancel_calls == 1, "event from B consumed under A, re-registered with A, cancelled");
        kani::cover!(mt::L[1].n_delivered == 1 && mt::L[0].n_register == 1 && H.cancel_calls == 0, "event from B completes the operation under A");
    }
}
