// The `cabi_dealloc` runtime item exactly as the Rust backend emits it
// (crates/rust/src/lib.rs, `RuntimeItem::CabiDealloc`).  engines/rtkani.py
// REGENERATES this file from the repository's current source text before every
// run (in the build snapshot); this checked-in copy only serves manual runs.
pub unsafe fn cabi_dealloc(ptr: *mut u8, size: usize, align: usize) {
    if size == 0 {
        return;
    }
    unsafe {
        let layout = alloc::Layout::from_size_align_unchecked(size, align);
        alloc::dealloc(ptr, layout);
    }
}
