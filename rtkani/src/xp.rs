//! scratch experiments (not part of the engine)
use core::mem::MaybeUninit;

#[kani::proof]
fn xp_vecnew() {
    let v: Vec<MaybeUninit<u8>> = Vec::new();
    assert!(v.capacity() == 0);
}

struct S {
    st: Vec<MaybeUninit<u8>>,
}
impl S {
    fn take(&mut self) -> Vec<u8> {
        let mut storage = core::mem::take(&mut self.st);
        unsafe {
            let ptr = storage.as_mut_ptr();
            let len = storage.len();
            let cap = storage.capacity();
            core::mem::forget(storage);
            Vec::<u8>::from_raw_parts(ptr.cast(), len, cap)
        }
    }
}
impl Drop for S {
    fn drop(&mut self) {
        let _ = self.take();
    }
}
#[kani::proof]
#[kani::unwind(5)]
fn xp_take_twice() {
    let mut v: Vec<MaybeUninit<u8>> = Vec::with_capacity(3);
    v.push(MaybeUninit::new(1));
    let mut s = S { st: v };
    let a = s.take();
    assert!(a.capacity() == 3);
    drop(a);
    drop(s);
}
