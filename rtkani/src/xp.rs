//! scratch experiments (not part of the engine)
use core::alloc::Layout;
use core::ffi::c_void;
use core::future::Future;
use core::pin::pin;
use core::task::{Context, Poll, Waker};
use wit_bindgen::rt::async_support::verif_hooks::{wasip3_task, wasip3_task_v2, wasip3_task_vtable};
use wit_bindgen::rt::async_support::Subtask;

type Callback = unsafe extern "C" fn(*mut c_void, u32);
static mut CUR: *mut wasip3_task = core::ptr::null_mut();
static mut REG_SET: bool = false;
static mut REG_CB: Option<Callback> = None;
static mut REG_PTR: *mut c_void = core::ptr::null_mut();
static mut CANCELS: u32 = 0;
static mut DROPS: u32 = 0;

unsafe fn stub_task_set(p: *mut wasip3_task) -> *mut wasip3_task {
    let prev = CUR;
    CUR = p;
    prev
}
unsafe extern "C" fn t_register(_p: *mut c_void, _w: u32, cb: Callback, cb_ptr: *mut c_void) -> *mut c_void {
    let prev = if REG_SET { REG_PTR } else { core::ptr::null_mut() };
    REG_SET = true;
    REG_CB = Some(cb);
    REG_PTR = cb_ptr;
    prev
}
unsafe extern "C" fn t_unregister(_p: *mut c_void, _w: u32) -> *mut c_void {
    let prev = if REG_SET { REG_PTR } else { core::ptr::null_mut() };
    REG_SET = false;
    prev
}
unsafe fn stub_cancel(_h: u32) -> u32 {
    CANCELS += 1;
    let a: u32 = kani::any();
    kani::assume(a >= 2 && a <= 4);
    a
}
unsafe fn stub_drop(_h: u32) {
    DROPS += 1;
}

struct Imp {
    size: usize,
}
unsafe impl Subtask for Imp {
    type Params = u32;
    type ParamsLower = u32;
    type Results = u32;
    fn abi_layout(&mut self) -> Layout {
        unsafe { Layout::from_size_align_unchecked(self.size, 4) }
    }
    fn results_offset(&mut self) -> usize {
        0
    }
    unsafe fn params_lower(&mut self, params: u32, _dst: *mut u8) -> u32 {
        params
    }
    unsafe fn call_import(&mut self, _params: u32, _results: *mut u8) -> u32 {
        let st: u32 = kani::any();
        kani::assume(st <= 2);
        if st == 2 {
            return 2;
        }
        st | (1 << 4)
    }
    unsafe fn params_dealloc_lists(&mut self, _lower: u32) {}
    unsafe fn params_dealloc_lists_and_own(&mut self, _lower: u32) {}
    unsafe fn results_lift(&mut self, _src: *mut u8) -> u32 {
        7
    }
}

unsafe fn run(size: usize, events: usize) {
    let mut imp = Imp { size };
    let mut t1 = wasip3_task {
        version: 1,
        ptr: core::ptr::null_mut(),
        waitable_register: t_register,
        waitable_unregister: t_unregister,
    };
    CUR = &mut t1;
    let mut cx = Context::from_waker(Waker::noop());
    let mut result: Option<u32> = None;
    {
        let mut fut = pin!(imp.call(5));
        match fut.as_mut().poll(&mut cx) {
            Poll::Ready(r) => result = Some(r),
            Poll::Pending => {}
        }
        let mut i = 0;
        while i < events {
            if result.is_some() {
                break;
            }
            if kani::any() && REG_SET {
                REG_SET = false;
                let code: u32 = kani::any();
                kani::assume(code == 2);
                (REG_CB.unwrap())(REG_PTR, code);
            }
            if kani::any() {
                match fut.as_mut().poll(&mut cx) {
                    Poll::Ready(r) => result = Some(r),
                    Poll::Pending => {}
                }
            }
            i += 1;
        }
    }
    assert!(!REG_SET);
    kani::cover!(result.is_some());
    kani::cover!(CANCELS == 1);
}

macro_rules! xh {
    ($name:ident, $s:expr, $e:expr) => {
        #[kani::proof]
        #[kani::unwind(10)]
        #[kani::stub(wit_bindgen::rt::async_support::cabi::wasip3_task_set, stub_task_set)]
        #[kani::stub(wit_bindgen::rt::async_support::subtask::cancel, stub_cancel)]
        #[kani::stub(wit_bindgen::rt::async_support::subtask::drop, stub_drop)]
        fn $name() {
            unsafe { run($s, $e) }
        }
    };
}
xh!(xp_s0_e0, 0, 0);
xh!(xp_s8_e0, 8, 0);
xh!(xp_s8_e1, 8, 1);

// ---- variant: minimal Imp, mock_task task --------------------------------
use crate::mock_task as mt;
unsafe fn run_mt(size: usize) {
    let mut imp = Imp { size };
    let mut t1 = mt::new_v1(0);
    mt::CUR = &mut t1;
    let mut cx = Context::from_waker(Waker::noop());
    let mut result: Option<u32> = None;
    {
        let mut fut = pin!(imp.call(5));
        match fut.as_mut().poll(&mut cx) {
            Poll::Ready(r) => result = Some(r),
            Poll::Pending => {}
        }
    }
    mt::assert_quiescent();
    kani::cover!(result.is_some());
    kani::cover!(CANCELS == 1);
}
#[kani::proof]
#[kani::unwind(10)]
#[kani::stub(wit_bindgen::rt::async_support::cabi::wasip3_task_set, crate::mock_task::stub_task_set)]
#[kani::stub(wit_bindgen::rt::async_support::subtask::cancel, stub_cancel)]
#[kani::stub(wit_bindgen::rt::async_support::subtask::drop, stub_drop)]
fn xp_mt() {
    unsafe { run_mt(8) }
}

// ---- variant: c21 Imp + host, minimal task -----------------------------------
unsafe fn run_imp(size: usize) {
    let mut imp = crate::c21::Imp { size, roff: if size > 0 { 4 } else { 0 } };
    crate::c21::H.area_size = size;
    let mut t1 = wasip3_task {
        version: 1,
        ptr: core::ptr::null_mut(),
        waitable_register: t_register,
        waitable_unregister: t_unregister,
    };
    CUR = &mut t1;
    let mut cx = Context::from_waker(Waker::noop());
    let mut result = None;
    {
        let mut fut = pin!(imp.call(crate::c21::Params { token: crate::c21::TOKEN }));
        match fut.as_mut().poll(&mut cx) {
            Poll::Ready(r) => result = Some(r),
            Poll::Pending => {}
        }
    }
    assert!(!REG_SET);
    kani::cover!(result.is_some());
    core::mem::forget(result);
}
#[kani::proof]
#[kani::unwind(10)]
#[kani::stub(wit_bindgen::rt::async_support::cabi::wasip3_task_set, stub_task_set)]
#[kani::stub(wit_bindgen::rt::async_support::subtask::cancel, crate::c21::stub_subtask_cancel)]
#[kani::stub(wit_bindgen::rt::async_support::subtask::drop, crate::c21::stub_subtask_drop)]
fn xp_imp8() {
    unsafe { run_imp(8) }
}
#[kani::proof]
#[kani::unwind(10)]
#[kani::stub(wit_bindgen::rt::async_support::cabi::wasip3_task_set, stub_task_set)]
#[kani::stub(wit_bindgen::rt::async_support::subtask::cancel, crate::c21::stub_subtask_cancel)]
#[kani::stub(wit_bindgen::rt::async_support::subtask::drop, crate::c21::stub_subtask_drop)]
fn xp_imp0() {
    unsafe { run_imp(0) }
}
