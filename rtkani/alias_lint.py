#!/usr/bin/env python3
"""Lint for a Kani 0.68 code-generation quirk: a constant of the code under
test whose bytes equal the initializer of one of the harness crate's
`static mut`s is compiled as a read of that static (see mock_task::Globals).

    alias_lint.py <harness .out goto binary> ...

Prints every function that is NOT part of the harness crate but references a
static of the harness crate (other than through a stubbed function), exit 1 if
there is any."""
import re
import subprocess
import sys

ALLOWED = {"__CPROVER__start", "__CPROVER_initialize", "wit_bindgen::rt::async_support::cabi::wasip3_task_set",
           "wit_bindgen::rt::async_support::subtask::cancel", "wit_bindgen::rt::async_support::subtask::drop",
           "std::alloc::alloc", "std::alloc::realloc", "std::alloc::dealloc"}


def lint(path):
    out = subprocess.run(["goto-instrument", "--show-goto-functions", path], stdout=subprocess.PIPE, stderr=subprocess.DEVNULL,
                         text=True, errors="replace").stdout
    # the harness crate's statics = left-hand sides in __CPROVER_initialize
    statics, in_init = set(), False
    for line in out.split("\n"):
        m = re.match(r"^(\S.*) /\* (\S+) \*/$", line)
        if m:
            in_init = m.group(1) == "__CPROVER_initialize"
            continue
        if in_init:
            m = re.search(r"ASSIGN (_RNvNtCs\w+?_6rtkani\w+)", line)
            if m:
                statics.add(m.group(1))
    cur, mine, hits = None, False, {}
    for line in out.split("\n"):
        m = re.match(r"^(\S.*) /\* (\S+) \*/$", line)
        if m:
            cur = m.group(1)
            # harness functions, and library functions the harness replaces by kani::stub (they keep their name)
            mine = re.match(r"^<?(c\d\d|mock_task|xp)::", cur) is not None or cur.endswith("::write_and_forget")
            continue
        if cur and not mine and cur not in ALLOWED:
            for s in re.findall(r"_RNvNtCs\w+?_6rtkani\w+", line):
                if s in statics:
                    hits[(cur, s)] = hits.get((cur, s), 0) + 1
    return hits


if __name__ == "__main__":
    bad = 0
    for p in sys.argv[1:]:
        h = lint(p)
        for (fn, sym), n in sorted(h.items()):
            print("ALIAS %s: %s reads/writes %s (%d)" % (p.split("__")[-1], fn, sym, n))
            bad += 1
    sys.exit(1 if bad else 0)
