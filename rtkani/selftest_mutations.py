#!/usr/bin/env python3
"""Self-test of the rtkani harnesses by hand-made breaking mutations.

Each mutation is applied to a SCRATCH worktree of the repository (never to
/repo), `/verif/check <ID>` is run against it (VERIF_REPO=<worktree>,
evidence redirected to /verif/work/mut_evidence), and the worktree is
reverted.  A mutation is CAUGHT when the check exits 1 (a replayed violation);
exit 0 = MISSED; exit 2 = INCONCLUSIVE.

    git -C /repo worktree add --detach /tmp/wt_rtkani HEAD
    /verif/rtkani/selftest_mutations.py [--only REGEX] [--harness REGEX]
    git -C /repo worktree remove --force /tmp/wt_rtkani
"""
import argparse
import json
import os
import re
import subprocess
import sys
import time

WT = os.environ.get("RTKANI_WT", "/tmp/wt_rtkani")
RT = "crates/guest-rust/src/rt/"
AS = RT + "async_support/"

# (id, property, file, old, new, what)
MUTATIONS = [
    ("c21_m1_skip_subtask_drop", "C21", AS + "subtask.rs",
     "            drop(self.handle.get());\n", "            let _ = self.handle.get();\n",
     "SubtaskHandle::drop no longer calls subtask.drop", "c21_(ind_(pd|ped|pepd|pepepd)|flat_pd)$"),
    ("c21_m2_dealloc_lists_twice", "C21", AS + "subtask.rs",
     "            op.params_dealloc_lists(self.params_lower);\n",
     "            op.params_dealloc_lists(self.params_lower);\n            op.params_dealloc_lists(self.params_lower);\n",
     "flag_started releases the parameter lists twice", "c21_(ind_(pd|ped|pepd|pepepd)|flat_pd)$"),
    ("c21_m3_returned_cancelled_no_dealloc", "C21", AS + "subtask.rs",
     "            STATUS_RETURNED_CANCELLED => {\n                if !state.started {\n                    state.flag_started(self.0);\n                }\n",
     "            STATUS_RETURNED_CANCELLED => {\n",
     "RETURNED_CANCELLED before STARTED was seen: parameter lists never released", "c21_(ind_(pd|ped|pepd|pepepd)|flat_pd)$"),
    ("c21_m4_started_cancelled_lists_only", "C21", AS + "subtask.rs",
     "                    self.0.params_dealloc_lists_and_own(state.params_lower);\n",
     "                    self.0.params_dealloc_lists(state.params_lower);\n",
     "STARTED_CANCELLED releases lists only (owned handles leak)", "c21_(ind_(pd|ped|pepd|pepepd)|flat_pd)$"),
    ("c21_m5_area_leak", "C21", AS + "subtask.rs",
     "                    params_and_results: cleanup,\n",
     "                    params_and_results: { if let Some(c) = cleanup { c.forget(); } None },\n",
     "the parameter/result area is forgotten (leak; results then lifted from a null base)", "c21_(ind_(pd|ped|pepd|pepepd)|flat_pd)$"),
    ("c21_m6_cancel_without_unregister", "C21", AS + "waitable.rs",
     "                self.as_mut().unregister_waker(waitable);\n", "                let _ = waitable;\n",
     "WaitableOperation::cancel does not unregister the waker before cancelling", "c21_(ind_(pd|ped|pepd|pepepd)|flat_pd)$"),
    ("c21_m7_lift_on_cancel", "C21", AS + "subtask.rs",
     "            STATUS_RETURNED_CANCELLED => {\n                if !state.started {\n                    state.flag_started(self.0);\n                }\n                Ok(Err(()))\n",
     "            STATUS_RETURNED_CANCELLED => {\n                if !state.started {\n                    state.flag_started(self.0);\n                }\n                let ptr = state.ptr_results(self.0);\n                unsafe { core::mem::drop(self.0.results_lift(ptr)); }\n                Ok(Err(()))\n",
     "results lifted although the call was cancelled", "c21_(ind_pd|flat_pd)$"),
    # ---- C24
    ("c24_m1_zero_size_returns_null", "C24", RT + "mod.rs", "                return align as *mut u8;\n", "                return core::ptr::null_mut();\n",
     "cabi_realloc returns null for a zero-sized request"),
    ("c24_m2_alloc_wrong_align", "C24", RT + "mod.rs", "            layout = Layout::from_size_align_unchecked(new_len, align);\n",
     "            layout = Layout::from_size_align_unchecked(new_len, 1);\n", "cabi_realloc allocates with alignment 1"),
    ("c24_m3_realloc_wrong_old_layout", "C24", RT + "mod.rs", "            layout = Layout::from_size_align_unchecked(old_len, align);\n",
     "            layout = Layout::from_size_align_unchecked(new_len, align);\n", "cabi_realloc describes the old block with the new size"),
    ("c24_m4_cleanup_zero_size_allocates", "C24", RT + "mod.rs", "        if layout.size() == 0 {\n            return (ptr::null_mut(), None);\n        }\n", "",
     "Cleanup::new allocates for a zero-sized layout"),
    ("c24_m5_cleanup_double_free", "C24", RT + "mod.rs", "            alloc::alloc::dealloc(self.ptr.as_ptr(), self.layout);\n",
     "            alloc::alloc::dealloc(self.ptr.as_ptr(), self.layout);\n            alloc::alloc::dealloc(self.ptr.as_ptr(), self.layout);\n",
     "Cleanup::drop frees twice"),
    ("c24_m6_cabi_dealloc_frees_zero_size", "C24", "crates/rust/src/lib.rs", "    if size == 0 {\n        return;\n    }\n    unsafe {\n        let layout = alloc::Layout",
     "    unsafe {\n        let layout = alloc::Layout", "generated cabi_dealloc frees the dangling zero-size pointer"),
    # ---- C18
    ("c18_m1_cancel_without_unregister", "C18", AS + "waitable.rs",
     "                self.as_mut().unregister_waker(waitable);\n", "                let _ = waitable;\n",
     "WaitableOperation::cancel does not unregister the waker before cancelling", "c18_one_(pd|pc|ppd)$"),
    ("c18_m2_task_move_keeps_old_registration", "C18", AS + "waitable.rs",
     "                last_task.registered = Some(waitable);\n", "                let _ = &last_task;\n",
     "v2: the stored task no longer remembers the registration, so moving to another task does not unregister from the first", "c18_two_v2v2_(pa_pb_d|pa_pb_da)$"),
    ("c18_m3_clone_never_dropped", "C18", AS + "waitable.rs",
     "            (self.vtable.drop)(self.ptr);\n", "            let _ = self.ptr;\n",
     "CabiTask::drop never releases the task clone", "c18_one_(pd|ppd)$"),
    ("c18_m4_cancel_ignores_queued_code", "C18", AS + "waitable.rs",
     "        match completion_status.as_mut().code_mut().take() {\n", "        match completion_status.as_mut().code_mut().take().and(None::<u32>) {\n",
     "cancel() throws away a completion code that is already queued", "c18_one_(ped|pec)$"),
    # ---- C20
    ("c20_m1_no_default_on_drop", "C20", AS + "future_support.rs",
     "        if self.should_write_default_value {\n            let raw = unsafe { ManuallyDrop::take(&mut self.raw) };\n            let value = (self.default)();", "        if false {\n            let raw = unsafe { ManuallyDrop::take(&mut self.raw) };\n            let value = (self.default)();",
     "FutureWriter::drop never writes the default value", "c20_typed_(writer_dropped_unwritten|write_dropped_unpolled)$"),
    ("c20_m2_no_dealloc_after_write", "C20", AS + "future_support.rs",
     "                    writer.ops.dealloc_lists(ptr);\n", "                    let _ = ptr;\n",
     "completed future write never releases the lists of the written value", "c20_rawwrite_(pc|pep)$"),
    ("c20_m3_dropped_cancelled_swapped", "C20", AS + "future_support.rs",
     "                let status = if code == super::DROPPED {\n", "                let status = if code != super::DROPPED {\n",
     "future write reports 'reader dropped' for 'cancelled' and vice versa", "c20_(rawwrite_pc|typed_cancel)$"),
    ("c20_m4_read_cancel_arms_swapped", "C20", AS + "future_support.rs",
     "            ReturnCode::Cancelled(0) => Ok((ReadComplete::Cancelled, reader)),\n", "            ReturnCode::Completed(0) if false => unreachable!(),\n            ReturnCode::Cancelled(0) | ReturnCode::Completed(0) => Ok((ReadComplete::Cancelled, reader)),\n",
     "future read treats a completed read as cancelled (value never lifted)", "c20_read_(pd|pc|pepd)$"),
    # ---- C19
    ("c19_m1_advance_wrong_amount", "C19", AS + "stream_support.rs",
     "                let amt = amt.try_into().unwrap();\n                buf.advance(amt);\n", "                let amt: usize = amt.try_into().unwrap();\n                buf.advance(amt.saturating_sub(1));\n",
     "stream write advances its buffer by one item less than the host transferred", "c19_write_u8_(pc|pep)$"),
    ("c19_m2_ptr_ignores_cursor", "C19", AS + "abi_buffer.rs",
     "            let ptr = unsafe { self.rust_storage.as_ptr().add(self.cursor).cast() };\n", "            let ptr = unsafe { self.rust_storage.as_ptr().add(0).cast() };\n",
     "AbiBuffer::abi_ptr_and_len ignores the cursor (items would be sent again)", "c19_abibuf_u8_len3$"),
    ("c19_m3_into_vec_keeps_sent_items", "C19", AS + "abi_buffer.rs",
     "        storage.drain(..self.cursor);\n", "        storage.drain(..0);\n",
     "AbiBuffer::into_vec hands back items that were already transferred", "c19_(abibuf_u8_len3|write_u8_pc)$"),
    ("c19_m4_read_short_len", "C19", AS + "stream_support.rs",
     "                        buf.set_len(cur_len + amt);\n", "                        buf.set_len(cur_len + amt.min(1));\n",
     "stream read reports the host's count but exposes at most one item", "c19_read_u8_(pc|pep)$"),
    ("c19_m5_decode_dropped_as_completed", "C19", RT + "async_support.rs",
     "            DROPPED => ReturnCode::Dropped(amt),\n", "            DROPPED => ReturnCode::Completed(amt),\n",
     "ReturnCode::decode maps DROPPED to Completed", "c19_(return_code_valid|write_u8_pc)$"),
    ("c19_m6_lifted_double_dealloc", "C19", AS + "abi_buffer.rs",
     "                self.ops.dealloc_lists(ptr.cast_mut());\n", "                self.ops.dealloc_lists(ptr.cast_mut());\n                self.ops.dealloc_lists(ptr.cast_mut());\n",
     "AbiBuffer::advance releases the lists of a transferred item twice", "c19_abibuf_val_len(1|3)$"),
    # ---- changes seeded by independent agents (/verif/seeded/<id>/patch.diff), applied with `git apply`
    ("seeded_C18-1", "C18", "PATCH", "/verif/seeded/C18-1/patch.diff", "", "registered flag not cleared when cancel() consumes a queued code", "c18_one_"),
    ("seeded_C18-3", "C18", "PATCH", "/verif/seeded/C18-3/patch.diff", "", "registered flag not set on re-registration with the same task", "c18_two_v2"),
    ("seeded_C19-1", "C19", "PATCH", "/verif/seeded/C19-1/patch.diff", "", "AbiBuffer cursor advances the ABI pointer by bytes instead of elements", "c19_(abibuf|write2)"),
    ("seeded_C19-2", "C19", "PATCH", "/verif/seeded/C19-2/patch.diff", "", "writer.done not set for DROPPED with a non-zero count", "c19_(write2|read2|write_u8_pc)"),
    ("seeded_C19-3", "C19", "PATCH", "/verif/seeded/C19-3/patch.diff", "", "MAX_LENGTH is 2^28 instead of 2^28 - 1", "c19_maxlen"),
]


def sh(cmd, **kw):
    return subprocess.run(cmd, stdout=subprocess.PIPE, stderr=subprocess.STDOUT, text=True, **kw)


def main():
    ap = argparse.ArgumentParser()
    ap.add_argument("--only", default=".")
    ap.add_argument("--harness", default=None, help="restrict the check to harnesses matching this regex (VERIF_RTKANI_ONLY)")
    ap.add_argument("--tier", default="quick")
    a = ap.parse_args()
    if not os.path.isdir(WT):
        sys.exit("worktree %s missing: git -C /repo worktree add --detach %s HEAD" % (WT, WT))
    results = []
    for mut in MUTATIONS:
        mid, prop, file, old, new, what = mut[:6]
        only_h = mut[6] if len(mut) > 6 else None
        if not re.search(a.only, mid):
            continue
        sh(["git", "-C", WT, "checkout", "--", "."])
        if file == "PATCH":
            r = sh(["git", "-C", WT, "apply", old])
            if r.returncode != 0:
                results.append((mid, prop, "NOT-APPLIED (git apply failed)", "", what))
                continue
        else:
            path = os.path.join(WT, file)
            src = open(path).read()
            if src.count(old) != 1:
                results.append((mid, prop, "NOT-APPLIED (%d matches)" % src.count(old), "", what))
                continue
            open(path, "w").write(src.replace(old, new))
        env = dict(os.environ, VERIF_REPO=WT, VERIF_EVIDENCE_DIR="/verif/work/mut_evidence", VERIF_TIER=a.tier)
        if a.harness or only_h:
            env["VERIF_RTKANI_ONLY"] = a.harness or only_h
        t0 = time.time()
        r = sh(["/verif/check", prop], env=env)
        dt = time.time() - t0
        log = "/verif/work/rtkani/logs/mut_%s.log" % mid
        os.makedirs(os.path.dirname(log), exist_ok=True)
        open(log, "w").write(r.stdout)
        verdict = {0: "MISSED", 1: "CAUGHT", 2: "INCONCLUSIVE"}.get(r.returncode, "rc=%d" % r.returncode)
        roles = sorted(set(re.findall(r"role=(\S+)", r.stdout)))
        results.append((mid, prop, verdict, "%.0fs; %d roles e.g. %s" % (dt, len(roles), "; ".join(roles[:3])), what))
        print("%-40s %-12s %s" % (mid, verdict, results[-1][3]), flush=True)
        sh(["git", "-C", WT, "checkout", "--", "."])
    out = "/verif/work/rtkani/selftest_results.json"
    prev = []
    if os.path.exists(out):
        prev = [r for r in json.load(open(out)) if r[0] not in {x[0] for x in results}]
    json.dump(prev + [list(r) for r in results], open(out, "w"), indent=1)
    print("\nsummary:")
    for r in results:
        print("  %-40s %-8s %-14s %s" % (r[0], r[1], r[2], r[4]))


if __name__ == "__main__":
    main()
