#!/usr/bin/env python3
"""Self-test of the rtkani harnesses by hand-made breaking mutations.

Each mutation is applied to a SCRATCH worktree of the repository (never to
/repo), `/verif/check <ID>` is run against it (VERIF_REPO=<worktree>,
evidence redirected to /verif/work/mut_evidence), and the worktree is
reverted.  A mutation is CAUGHT when the check exits 1 (a replayed violation);
exit 0 = MISSED; exit 2 = INCONCLUSIVE.

    git -C /repo worktree add --detach /tmp/wt_rtkani HEAD
    /verif/rtkani/selftest_mutations.py [--only REGEX] [--harness REGEX]
    git -C /repo worktree remove --force /tmp/wt_rtkani
"""
import argparse
import json
import os
import re
import subprocess
import sys
import time

WT = os.environ.get("RTKANI_WT", "/tmp/wt_rtkani")
RT = "crates/guest-rust/src/rt/"
AS = RT + "async_support/"

# (id, property, file, old, new, what)
MUTATIONS = [
    ("c21_m1_skip_subtask_drop", "C21", AS + "subtask.rs",
     "            drop(self.handle.get());\n", "            let _ = self.handle.get();\n",
     "SubtaskHandle::drop no longer calls subtask.drop"),
    ("c21_m2_dealloc_lists_twice", "C21", AS + "subtask.rs",
     "            op.params_dealloc_lists(self.params_lower);\n",
     "            op.params_dealloc_lists(self.params_lower);\n            op.params_dealloc_lists(self.params_lower);\n",
     "flag_started releases the parameter lists twice"),
    ("c21_m3_returned_cancelled_no_dealloc", "C21", AS + "subtask.rs",
     "            STATUS_RETURNED_CANCELLED => {\n                if !state.started {\n                    state.flag_started(self.0);\n                }\n",
     "            STATUS_RETURNED_CANCELLED => {\n",
     "RETURNED_CANCELLED before STARTED was seen: parameter lists never released"),
    ("c21_m4_started_cancelled_lists_only", "C21", AS + "subtask.rs",
     "                    self.0.params_dealloc_lists_and_own(state.params_lower);\n",
     "                    self.0.params_dealloc_lists(state.params_lower);\n",
     "STARTED_CANCELLED releases lists only (owned handles leak)"),
    ("c21_m5_area_leak", "C21", AS + "subtask.rs",
     "                    params_and_results: cleanup,\n",
     "                    params_and_results: { if let Some(c) = cleanup { c.forget(); } None },\n",
     "the parameter/result area is forgotten (leak; results then lifted from a null base)"),
    ("c21_m6_cancel_without_unregister", "C21", AS + "waitable.rs",
     "                self.as_mut().unregister_waker(waitable);\n", "                let _ = waitable;\n",
     "WaitableOperation::cancel does not unregister the waker before cancelling"),
    ("c21_m7_lift_on_cancel", "C21", AS + "subtask.rs",
     "            STATUS_RETURNED_CANCELLED => {\n                if !state.started {\n                    state.flag_started(self.0);\n                }\n                Ok(Err(()))\n",
     "            STATUS_RETURNED_CANCELLED => {\n                if !state.started {\n                    state.flag_started(self.0);\n                }\n                let ptr = state.ptr_results(self.0);\n                unsafe { drop(self.0.results_lift(ptr)); }\n                Ok(Err(()))\n",
     "results lifted although the call was cancelled"),
]


def sh(cmd, **kw):
    return subprocess.run(cmd, stdout=subprocess.PIPE, stderr=subprocess.STDOUT, text=True, **kw)


def main():
    ap = argparse.ArgumentParser()
    ap.add_argument("--only", default=".")
    ap.add_argument("--harness", default=None, help="restrict the check to harnesses matching this regex (VERIF_RTKANI_ONLY)")
    ap.add_argument("--tier", default="quick")
    a = ap.parse_args()
    if not os.path.isdir(WT):
        sys.exit("worktree %s missing: git -C /repo worktree add --detach %s HEAD" % (WT, WT))
    results = []
    for mid, prop, file, old, new, what in MUTATIONS:
        if not re.search(a.only, mid):
            continue
        sh(["git", "-C", WT, "checkout", "--", "."])
        path = os.path.join(WT, file)
        src = open(path).read()
        if src.count(old) != 1:
            results.append((mid, prop, "NOT-APPLIED (%d matches)" % src.count(old), "", what))
            continue
        open(path, "w").write(src.replace(old, new))
        env = dict(os.environ, VERIF_REPO=WT, VERIF_EVIDENCE_DIR="/verif/work/mut_evidence", VERIF_TIER=a.tier)
        if a.harness:
            env["VERIF_RTKANI_ONLY"] = a.harness
        t0 = time.time()
        r = sh(["/verif/check", prop], env=env)
        dt = time.time() - t0
        log = "/verif/work/rtkani/logs/mut_%s.log" % mid
        os.makedirs(os.path.dirname(log), exist_ok=True)
        open(log, "w").write(r.stdout)
        verdict = {0: "MISSED", 1: "CAUGHT", 2: "INCONCLUSIVE"}.get(r.returncode, "rc=%d" % r.returncode)
        roles = sorted(set(re.findall(r"role=(\S+)", r.stdout)))
        results.append((mid, prop, verdict, "%.0fs; %d roles e.g. %s" % (dt, len(roles), "; ".join(roles[:3])), what))
        print("%-40s %-12s %s" % (mid, verdict, results[-1][3]), flush=True)
        sh(["git", "-C", WT, "checkout", "--", "."])
    out = "/verif/work/rtkani/selftest_results.json"
    prev = []
    if os.path.exists(out):
        prev = [r for r in json.load(open(out)) if r[0] not in {x[0] for x in results}]
    json.dump(prev + [list(r) for r in results], open(out, "w"), indent=1)
    print("\nsummary:")
    for r in results:
        print("  %-40s %-8s %-14s %s" % (r[0], r[1], r[2], r[4]))


if __name__ == "__main__":
    main()
