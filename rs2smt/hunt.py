"""The decide / classify / replay / exclude loop shared by all properties."""
import json
from smtlib import TRUE, FALSE, And, Or, Not, is_t, is_f
from core import eval_bool, eval_bv, write_replay, known_roles
from smtlib import bv
import z3


def minimise(dec, name, assumptions, goal, inputs, vals, extra, rounds=4):
    """shrink a witness: re-query with `total input size < current` (same
    assumptions, same violated goal, same shape `extra`) a few times with a short
    cap; returns the smallest witness found"""
    size = inputs.size_term()
    best = vals
    if dec.tier == "quick":
        rounds = min(rounds, 2)
    for r in range(rounds):
        cur = eval_bv(size, inputs.subst_pairs(best))
        if cur <= 3:
            break
        v, model, _ = dec.decide("%s#min%d" % (name, r), list(assumptions) + list(extra) + [z3.ULT(size, bv(cur, 16))],
                                 goal, second="minimise", timeout=20)
        if v != "sat":
            break
        best = inputs.decode(model)
    return best


def hunt(dec, res, prop, name, assumptions, goal, shapes, inputs, replay_fn, role_prefix,
         what_fn=None, max_shapes=10, sample=None):
    """Decide `assumptions => goal`.

    On `sat` the witness is decoded, classified by the first matching shape
    predicate (role = role_prefix/shape), replayed natively by `replay_fn`
    (-> {"reproduced": bool, ...}); a reproduced witness is recorded as a
    violation with a replay file, the shape is excluded (its negation becomes an
    extra assumption) and the query is re-issued, so other shapes are still
    searched after one is known.  Returns the list of roles found.
    """
    res.obligations += 1
    if sample and len(res.samples) < 24:
        res.samples.append(sample)
    v, _, note = dec.decide(name + "#vacuity", assumptions, FALSE, second=name.split("#")[0] + "#vacuity")
    if v != "sat":
        res.inconclusive.append("%s: vacuity twin is %s (assumptions unsatisfiable or undecided) %s" % (name, v, note))
        return []
    excl = []
    roles = []
    k = 0
    while True:
        v, model, note = dec.decide("%s#%d" % (name, k), list(assumptions) + excl, goal, second=name.split("#")[0])
        k += 1
        if v == "unsat":
            res.discharged += 1
            break
        if v != "sat":
            res.inconclusive.append("%s: solver verdict %s %s" % (name, v, note))
            break
        vals = inputs.decode(model)
        pairs = inputs.subst_pairs(vals)
        shape = None
        for sn, pred in shapes:
            try:
                if eval_bool(pred, pairs):
                    shape = (sn, pred)
                    break
            except ValueError:
                continue
        if shape is not None and "%s/%s" % (role_prefix, shape[0]) not in roles \
                and "%s/%s" % (role_prefix, shape[0]) not in known_roles(prop):     # known roles: no need for a small witness
            higher = [Not(p2) for sn2, p2 in shapes[:[x[0] for x in shapes].index(shape[0])]]
            vals = minimise(dec, "%s#%d" % (name, k - 1), list(assumptions) + excl, goal, inputs, vals, [shape[1]] + higher)
            pairs = inputs.subst_pairs(vals)
        rep = replay_fn(vals)
        if not rep.get("reproduced"):
            res.inconclusive.append("%s: solver model does not reproduce natively (encoder wrong?): inputs=%s native=%s"
                                    % (name, json.dumps(vals, sort_keys=True), json.dumps(rep.get("native"))[:300]))
            break
        role = "%s/%s" % (role_prefix, shape[0] if shape else "other")
        what = (what_fn(vals, rep) if what_fn else "") or rep.get("what", "")
        payload = dict(rep.get("replay", {}))
        payload.update({"property": prop, "role": role, "obligation": name, "inputs": vals})
        path = write_replay(prop, role.split("/", 2)[-1] if "/" in role else role, payload)
        if role not in roles:
            roles.append(role)
            res.violations.append({"role": role, "what": what, "replay": path, "witness": vals})
        if shape is None:
            # no shape predicate matched: block exactly this witness
            excl.append(Not(And(*[v == val for v, val in pairs])))
        else:
            excl.append(Not(shape[1]))
        if k > max_shapes:
            res.inconclusive.append("%s: more than %d distinct violation shapes; search stopped" % (name, max_shapes))
            break
    return roles


def self_test(dec, res, name, assumptions, mutated_goal):
    """mutated-oracle self-test: a deliberately wrong oracle must be refuted (sat)"""
    v, _, note = dec.decide(name + "#mutated-oracle", assumptions, mutated_goal, second=name.split("#")[0] + "#mutated")
    res.extra.setdefault("self_tests", []).append({"name": name, "verdict": v})
    if v != "sat":
        res.inconclusive.append("%s: mutated-oracle self-test returned %s (expected sat) %s" % (name, v, note))


def decide_cubed(dec, qname, assumptions, goal, cubes, second=None, closed=None):
    """decide `assumptions => goal` by case split: one query per cube (the cubes
    must cover the assumptions -- checked by the caller's `cover` obligation);
    sat as soon as one cube is sat, unsat iff every cube is unsat.
    `closed`: indices of cubes already proven unsat for a STRONGER goal (the goal of a later
    round only adds disjuncts, so those cubes stay unsat and are not re-queried)."""
    if not cubes:
        return dec.decide(qname, assumptions, goal, second=second)
    for i, cube in enumerate(cubes):
        if closed is not None and i in closed:
            continue
        v, model, note = dec.decide("%s.c%d" % (qname, i), list(assumptions) + [cube], goal, second=second)
        if v != "unsat":
            return v, model, note
        if closed is not None:
            closed.add(i)
    return "unsat", {}, ""


def hunt_multi(dec, res, prop, name, assumptions, clauses, shapes, inputs, replay_fn, role_of, max_rounds=12, sample=None,
               cubes=None):
    """Like `hunt`, for several oracle clauses decided by ONE query per round.

    clauses: list of (clause name, goal term) in priority order (a later clause
    may be stated under the hypothesis of an earlier one).  The goal of a round
    is  /\\_c (clause_c \\/ \\/ excluded shapes of c);  a model is attributed to the
    first clause it falsifies, classified by shape, replayed natively
    (replay_fn(vals) -> {"violated": [clause names], ...}) and then that
    (clause, shape) pair is excluded and the query re-issued.
    role_of(clause, shape) -> role key."""
    res.obligations += len(clauses)
    if sample and len(res.samples) < 24:
        res.samples.append(sample)
    v, _, note = dec.decide(name + "#vacuity", assumptions, FALSE, second=name.split("@")[0] + "#vacuity")
    if v != "sat":
        res.inconclusive.append("%s: vacuity twin is %s %s" % (name, v, note))
        return []
    excl = {c: [] for c, _ in clauses}
    roles = []
    k = 0
    n_other = 0
    closed = set()
    while True:
        goal = And(*[Or(t, *excl[c]) for c, t in clauses])
        v, model, note = decide_cubed(dec, "%s#%d" % (name, k), list(assumptions), goal, cubes, second=name.split("@")[0],
                                      closed=closed)
        k += 1
        if v == "unsat":
            res.discharged += len(clauses)
            break
        if v != "sat":
            res.inconclusive.append("%s: solver verdict %s %s (after excluding %d (clause, shape) pairs)"
                                    % (name, v, note, sum(len(x) for x in excl.values())))
            break
        vals = inputs.decode(model)
        pairs = inputs.subst_pairs(vals)
        failing = None
        for c, t in clauses:
            if not eval_bool(Or(t, *excl[c]), pairs):
                failing = c
                break
        if failing is None:
            res.inconclusive.append("%s: solver model falsifies no clause after substitution (encoder wrong?) %s"
                                    % (name, json.dumps(vals, sort_keys=True)))
            break
        shape = None
        for sn, pred in shapes:
            try:
                if eval_bool(pred, pairs):
                    shape = (sn, pred)
                    break
            except ValueError:
                continue
        if shape is not None and role_of(failing, shape[0]) not in roles and role_of(failing, shape[0]) not in known_roles(prop):
            fgoal = dict(clauses)[failing]
            earlier = []
            for c, t in clauses:
                if c == failing:
                    break
                earlier.append(Or(t, *excl[c]))
            higher = [Not(p2) for sn2, p2 in shapes[:[x[0] for x in shapes].index(shape[0])]]
            vals = minimise(dec, "%s#%d" % (name, k - 1), list(assumptions) + earlier, Or(fgoal, *excl[failing]), inputs, vals,
                            [shape[1]] + higher)
            pairs = inputs.subst_pairs(vals)
        rep = replay_fn(vals)
        if failing not in rep.get("violated", []):
            res.inconclusive.append("%s: solver model for clause %s does not reproduce natively (encoder or concrete oracle wrong?): "
                                    "inputs=%s native=%s violated=%s"
                                    % (name, failing, json.dumps(vals, sort_keys=True), json.dumps(rep.get("native"))[:300],
                                       rep.get("violated")))
            break
        role = role_of(failing, shape[0] if shape else "other")
        payload = dict(rep.get("replay", {}))
        payload.update({"property": prop, "role": role, "obligation": name, "clause": failing, "inputs": vals})
        if role not in roles:
            roles.append(role)
            path = write_replay(prop, role.split("/", 2)[-1], payload)
            res.violations.append({"role": role, "what": rep.get("what", ""), "replay": path, "witness": vals})
        if shape is None:
            excl[failing].append(And(*[v == val for v, val in pairs]))
            n_other += 1
            if n_other >= 3:
                res.inconclusive.append("%s: clause %s is violated by several witnesses outside every predefined shape class "
                                        "(role .../other); search stopped after 3" % (name, failing))
                break
        else:
            excl[failing].append(shape[1])
        if k > max_rounds:
            res.inconclusive.append("%s: more than %d (clause, shape) violation classes; search stopped" % (name, max_rounds))
            break
    return roles
