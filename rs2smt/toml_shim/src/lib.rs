//! Stand-in for the `toml` crate used when compiling /repo/crates/test/src/config.rs
//! unchanged inside the native replay harness: everything is re-exported from the
//! real crate, except that `from_str` first records the exact text it was given
//! (the observable of property C34) and then delegates.
pub use real_toml::*;

use std::cell::RefCell;
thread_local! {
    pub static LAST_TEXT: RefCell<Option<String>> = RefCell::new(None);
}

pub fn from_str<T>(s: &str) -> Result<T, real_toml::de::Error>
where
    T: serde::de::DeserializeOwned,
{
    LAST_TEXT.with(|l| *l.borrow_mut() = Some(s.to_string()));
    real_toml::from_str(s)
}

pub fn take_last_text() -> Option<String> {
    LAST_TEXT.with(|l| l.borrow_mut().take())
}
