"""Shared driver pieces of rs2smt: AST loading, symbolic inputs, SMT-LIB2
emission + external solver runs, native harness runs, result record."""
import json
import os
import re
import subprocess
import sys
import time
import z3

import bstr
from bstr import BStr, L, LB
from smtlib import TRUE, FALSE, And, Or, Not, Ite, Eq, Ult, Ule, bv, bvval, ZeroExt, is_t, is_f
from interp import IntV, BoolV, StrV, IW

VERIF = "/verif"
REPO = os.environ.get("VERIF_REPO", "/repo")
TARGET = os.path.join(VERIF, "target")
AST_BIN = os.path.join(TARGET, "release", "rs2smt-ast")
NATIVE_BIN = os.environ.get("RS2SMT_NATIVE_BIN") or os.path.join(TARGET, "debug", "rs2smt-native")
# a run against another tree (VERIF_REPO) gets its own scratch directory, so that it can run next to a run on /repo
WORK = os.path.join(VERIF, "work", "rs2smt") if os.path.realpath(REPO) == "/repo" else os.path.join(VERIF, "work", "alt", "rs2smt")

# The per-query cap is CPU time (ulimit -t), so that a verdict does not depend on how loaded the box is;
# the wall-clock cap is 8x that.
WALL_FACTOR = 8


def _cmd(argv, t):
    import shlex
    return ["bash", "-c", "ulimit -t %d; exec %s" % (t, " ".join(shlex.quote(a) for a in argv))]


SOLVERS = {
    "z3-new": lambda f, t: _cmd(["z3-new", "-T:%d" % (t * WALL_FACTOR), f], t),
    "z3-old": lambda f, t: _cmd(["/usr/bin/z3", "-T:%d" % (t * WALL_FACTOR), f], t),
    "cvc5": lambda f, t: _cmd(["cvc5", "--tlimit=%d" % (t * WALL_FACTOR * 1000), "--produce-models", f], t),
}


def load_asts(files):
    full = [f if os.path.isabs(f) else os.path.join(REPO, f) for f in files]
    p = subprocess.run([AST_BIN] + full, capture_output=True, text=True)
    if p.returncode != 0:
        raise RuntimeError("rs2smt-ast failed: " + p.stderr.strip())
    d = json.loads(p.stdout)
    return {os.path.relpath(k, REPO): v for k, v in d.items()}


class Inputs:
    """symbolic inputs: every input is a bit-vector constant, so a model is a
    plain name -> int map"""

    def __init__(self):
        self.cons = []
        self.strs = {}      # name -> BStr
        self.ints = {}      # name -> (var, width)
        self.order = []

    def str(self, name, cap, alphabet, minlen=0):
        b, wf = BStr.var(name, cap, alphabet, minlen)
        self.cons.append(wf)
        self.strs[name] = b
        self.order.append(name)
        return StrV(b)

    def small(self, name, bits, hi=None, lo=0):
        v = z3.BitVec(name, bits)
        if hi is not None:
            self.cons.append(z3.ULE(v, bv(hi, bits)))
        if lo:
            self.cons.append(z3.UGE(v, bv(lo, bits)))
        self.ints[name] = (v, bits)
        self.order.append(name)
        return v

    def usize(self, name, hi, lo=0):
        bits = max(1, hi.bit_length())
        v = self.small(name, bits, hi, lo)
        return IntV(z3.ZeroExt(IW - bits, v), hi)

    def flag(self, name):
        v = self.small(name, 1)
        return Eq(v, bv(1, 1))

    def wf(self):
        return And(*self.cons)

    def size_term(self):
        """total size of an input assignment (sum of string lengths and integers), 16 bits"""
        tot = bv(0, 16)
        for b in self.strs.values():
            tot = tot + z3.ZeroExt(16 - LB, b.n)
        for v, bits in self.ints.values():
            if bits > 1:
                tot = tot + z3.ZeroExt(16 - bits, v)
        return tot

    def all_vars(self):
        vs = []
        for b in self.strs.values():
            vs += [b.n] + list(b.chars)
        vs += [v for v, _ in self.ints.values()]
        return vs

    def decode(self, model):
        """model: {smt name: int} -> {input name: python value}"""
        out = {}
        for name, b in self.strs.items():
            n = model.get(str(b.n), 0)
            out[name] = "".join(chr(model.get(str(c), 0)) for c in b.chars[:n])
        for name, (v, _) in self.ints.items():
            out[name] = model.get(str(v), 0)
        return out

    def subst_pairs(self, values):
        """concrete values {input name: python value} -> z3 substitution pairs"""
        pairs = []
        for name, b in self.strs.items():
            s = values[name]
            if len(s) > b.cap:
                raise ValueError("value too long for %s" % name)
            pairs.append((b.n, L(len(s))))
            for k, c in enumerate(b.chars):
                pairs.append((c, bv(ord(s[k]) if k < len(s) else 0, 8)))
        for name, (v, bits) in self.ints.items():
            pairs.append((v, bv(int(values[name]), bits)))
        return pairs


def concretize(term, pairs):
    t = z3.simplify(z3.substitute(term, *pairs))
    return t


def eval_bool(term, pairs):
    if is_t(term):
        return True
    if is_f(term):
        return False
    t = concretize(term, pairs)
    if is_t(t):
        return True
    if is_f(t):
        return False
    raise ValueError("term did not fold to a Boolean constant: %s" % str(t)[:200])


def eval_bv(term, pairs):
    v = bvval(term)
    if v is not None:
        return v
    t = concretize(term, pairs)
    v = bvval(t)
    if v is None:
        raise ValueError("term did not fold to a numeral: %s" % str(t)[:200])
    return v


def eval_str(b, pairs):
    n = eval_bv(b.n, pairs)
    cs = [eval_bv(c, pairs) for c in b.chars]
    if any(c != 0 for c in cs[n:]) or any(c == 0 for c in cs[:n]):
        raise ValueError("string padding invariant broken")
    return "".join(chr(c) for c in cs[:n])


MODEL_RE = re.compile(r"\(define-fun\s+(\|[^|]*\||\S+)\s+\(\)\s+\(_ BitVec (\d+)\)\s+(#x[0-9a-fA-F]+|#b[01]+)\)")


def parse_model(text):
    m = {}
    for name, w, val in MODEL_RE.findall(text):
        name = name.strip("|")
        m[name] = int(val[2:], 16) if val.startswith("#x") else int(val[2:], 2)
    return m


class Stats:
    def __init__(self):
        self.queries = 0
        self.solver_s = 0.0
        self.by_solver = {}
        self.diffs = 0


class Query:
    """one SMT-LIB2 script = assumptions /\\ not(goal), decided by an external solver"""

    def __init__(self, name, assumptions, goal):
        self.name = name
        self.assumptions = list(assumptions)
        self.goal = goal

    def smt2(self, with_model=True):
        s = z3.Solver()
        for a in self.assumptions:
            s.add(a)
        s.add(Not(self.goal) if not is_f(self.goal) else TRUE)
        txt = s.to_smt2()
        txt = txt.replace("(check-sat)", "")
        head = "; rs2smt obligation %s\n(set-logic QF_BV)\n(set-option :produce-models true)\n" % self.name
        tail = "(check-sat)\n" + ("(get-model)\n" if with_model else "")
        return head + txt + tail


def run_solver(solver, path, timeout):
    cmd = SOLVERS[solver](path, timeout)
    t0 = time.time()
    try:
        p = subprocess.run(cmd, capture_output=True, text=True, timeout=timeout * WALL_FACTOR + 15)
        out = p.stdout + p.stderr
    except subprocess.TimeoutExpired:
        out = "timeout"
    dt = time.time() - t0
    first = ""
    for l in out.splitlines():
        l = l.strip()
        if l:
            first = l
            break
    if first not in ("sat", "unsat"):
        return "unknown", {}, dt, out[:300]
    errs = [l for l in out.splitlines() if "(error" in l]
    if first == "unsat":
        errs = [l for l in errs if "model is not available" not in l and "cannot get model" not in l.lower()
                and "Cannot get model" not in l]
    if errs:
        return "unknown", {}, dt, "; ".join(errs)[:300]
    model = parse_model(out) if first == "sat" else {}
    return first, model, dt, ""


def _parse_solver_output(out):
    first = ""
    for l in out.splitlines():
        l = l.strip()
        if l:
            first = l
            break
    if first not in ("sat", "unsat"):
        return "unknown", {}, out[:300]
    errs = [l for l in out.splitlines() if "(error" in l]
    if first == "unsat":
        errs = [l for l in errs if "model is not available" not in l and "cannot get model" not in l.lower()]
    if errs:
        return "unknown", {}, "; ".join(errs)[:300]
    return first, (parse_model(out) if first == "sat" else {}), ""


def race(path, timeout, solvers, wait_all=False):
    """run several solvers on the same script concurrently; returns
    {solver: (verdict, model, seconds, note)} for those that finished.  Without
    wait_all the losers are killed as soon as one solver gives sat/unsat."""
    import tempfile
    procs = {}
    t0 = time.time()
    for sname in solvers:
        of = tempfile.TemporaryFile(mode="w+")
        procs[sname] = (subprocess.Popen(SOLVERS[sname](path, timeout), stdout=of, stderr=subprocess.STDOUT,
                                         start_new_session=True), of)
    results = {}
    while procs and time.time() - t0 < timeout * WALL_FACTOR + 15:
        for sname in list(procs):
            p, of = procs[sname]
            if p.poll() is not None:
                of.seek(0)
                v, model, note = _parse_solver_output(of.read())
                of.close()
                results[sname] = (v, model, time.time() - t0, note or ("timeout" if v == "unknown" else ""))
                del procs[sname]
        done = [r for r in results.values() if r[0] in ("sat", "unsat")]
        if done and not wait_all:
            break
        if done and wait_all:
            # a second opinion gets at most 10 s + twice the time of the first answer
            t1 = min(r[2] for r in done)
            if time.time() - t0 > t1 + max(10.0, 2 * t1):
                break
        time.sleep(0.05)
    for sname, (p, of) in procs.items():
        try:
            os.killpg(p.pid, 9)
        except ProcessLookupError:
            pass
        p.wait()
        of.close()
        results.setdefault(sname, ("unknown", {}, time.time() - t0, "stopped"))
    return results


class Decider:
    """Each obligation is an SMT-LIB2 script; z3 5.1 (`z3-new`) and z3 4.8.12 race on it (they differ a lot
    on these bit-blasted scripts) and the first sat/unsat answer decides.  Once per obligation class (always
    in the thorough tier) all solvers incl. cvc5 are run to completion/timeout and their answers compared;
    a disagreement makes the obligation inconclusive."""

    def __init__(self, prop, tier, stats):
        self.prop, self.tier, self.stats = prop, tier, stats
        self.dir = os.path.join(WORK, prop)
        os.makedirs(self.dir, exist_ok=True)
        self.timeout = 300 if tier == "thorough" else 60
        self.n = 0
        self.second_opinions = set()
        self.racers = ("z3-new", "z3-old")
        self.extra_second = ("cvc5",)
        self.no_second = False      # set for all but one worker of a property in the quick tier
        self.log = []

    def decide(self, name, assumptions, goal, second=None, timeout=None):
        """returns (verdict, model, note).  verdict 'unsat' = goal holds for all
        values satisfying the assumptions; 'sat' = counter-model; else 'unknown'."""
        q = Query(name, assumptions, goal)
        self.n += 1
        safe = re.sub(r"[^A-Za-z0-9_.-]", "_", name)[:80]
        path = os.path.join(self.dir, "%03d_%s.smt2" % (self.n, safe))
        with open(path, "w") as f:
            f.write(q.smt2())
        t = timeout or self.timeout
        cls = second or name.split("#")[0]
        want = ((self.tier == "thorough") or (cls not in self.second_opinions)) and not self.no_second
        solvers = list(self.racers) + (list(self.extra_second) if want else [])
        if want:
            self.second_opinions.add(cls)
        results = race(path, t, solvers, wait_all=want)
        verdicts = {}
        for sname, (v, model, dt, note) in results.items():
            self.stats.queries += 1
            self.stats.solver_s += dt
            self.stats.by_solver[sname] = self.stats.by_solver.get(sname, 0) + 1
            self.log.append({"query": name, "solver": sname, "verdict": v, "s": round(dt, 2), "file": path})
            if v in ("sat", "unsat"):
                verdicts[sname] = (v, model)
        if not verdicts:
            return "unknown", {}, "; ".join("%s: %s" % (k, r[3]) for k, r in results.items())
        vs = {v for v, _ in verdicts.values()}
        if len(vs) > 1:
            return "unknown", {}, "SOLVER DISAGREEMENT %s on %s" % ({k: v for k, (v, _) in verdicts.items()}, path)
        if len(verdicts) > 1:
            self.stats.diffs += len(verdicts) - 1
        first = sorted(verdicts.items(), key=lambda kv: results[kv[0]][2])[0]
        return first[1][0], first[1][1], ""


def native_run(cases):
    """run the native harness on a list of JSON cases; returns list of results"""
    inp = "\n".join(json.dumps(c) for c in cases) + "\n"
    try:
        p = subprocess.run([NATIVE_BIN], input=inp, capture_output=True, text=True, timeout=90)
    except subprocess.TimeoutExpired:
        from interp import Inconclusive
        raise Inconclusive("the native harness did not finish %d case(s) within 90 s (non-termination of the real code?)" % len(cases))
    if p.returncode != 0:
        raise RuntimeError("native harness failed: rc=%s %s" % (p.returncode, p.stderr[:300]))
    outs = [json.loads(l) for l in p.stdout.splitlines() if l.strip()]
    if len(outs) != len(cases):
        raise RuntimeError("native harness returned %d results for %d cases" % (len(outs), len(cases)))
    return outs


class Result:
    """what a property module returns; converted to vlib.Outcome by engines/rs2smt.py"""

    def __init__(self):
        self.obligations = 0
        self.discharged = 0
        self.violations = []        # dicts role, what, replay, witness
        self.inconclusive = []
        self.samples = []
        self.bounds = {}
        self.outside_claim = []
        self.assumptions = []
        self.trusted_base = []
        self.functions = []         # (file, start pattern)
        self.extra = {}

    def to_json(self, stats):
        return {
            "obligations": self.obligations, "discharged": self.discharged,
            "violations": self.violations, "inconclusive": self.inconclusive,
            "samples": self.samples, "bounds": self.bounds, "outside_claim": self.outside_claim,
            "assumptions": self.assumptions, "trusted_base": self.trusted_base,
            "functions": self.functions, "extra": self.extra,
            "queries": stats.queries, "solver_s": stats.solver_s,
            "by_solver": stats.by_solver, "diffs": stats.diffs,
        }


def known_roles(prop):
    try:
        d = json.load(open(os.path.join(VERIF, "known_findings.json")))
    except (OSError, ValueError):
        return set()
    return {k["role"] for k in d.get("open", []) if k.get("property") == prop}


def write_replay(prop, name, payload):
    d = os.path.join(VERIF, "replays")
    os.makedirs(d, exist_ok=True)
    safe = "".join(c if c.isalnum() or c in "-_." else "_" for c in name)[:120]
    path = os.path.join(d, "%s_%s.json" % (prop, safe))
    with open(path, "w") as f:
        json.dump(payload, f, indent=1, sort_keys=True)
    return path
