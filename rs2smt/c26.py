"""C26  Fresh temporary names never collide with defined names  (crates/core/src/ns.rs)

Symbolic: N interleaved insert(n)/tmp(n) calls; the kind of each call and each
name are symbolic.  Real code: Ns::insert, Ns::tmp interpreted from source,
starting from Ns::default().

Oracle (from the property statement, independent of the code): keep the ghost
list H of every name defined (insert) or handed out (tmp) so far;
  tmp-fresh        the name returned by tmp is not in H
  insert-conflict  insert(n) is Err  <=>  n is in H
plus: no panic, and the `while` loop terminates within the unrolling bound.
"""
import random
import z3
import bstr
from bstr import BStr, L
from smtlib import TRUE, FALSE, And, Or, Not, Ite, Eq, Implies, bv, is_t, is_f
from interp import Interp, StrV, EnumV, Unsupported, Inconclusive
from core import Inputs, load_asts, native_run, Result, eval_bool, eval_str
from hunt import hunt, self_test
import models

FILES = ["crates/core/src/ns.rs"]
ALPHABET = "ab01"


def bounds(tier):
    return dict(calls=4 if tier == "quick" else 6, name_len=3, alphabet=ALPHABET,
                while_unroll=6 if tier == "quick" else 8)


def execute(it, kinds, names):
    """run the call sequence through the interpreter.
    kinds[i]: Bool term (True = insert, False = tmp); names[i]: StrV.
    returns per call (insert_is_err term, tmp_result BStr)"""
    it.new_session()
    it.set_var("ns", it.default_of("Ns"))
    outs = []
    for kind, name in zip(kinds, names):
        cell = {}

        def do_insert():
            r = it.call("Ns", "insert", "ns", [name])
            if not isinstance(r, EnumV) or r.ty != "Result":
                raise Unsupported("Ns::insert does not return a Result")
            cell["err"] = r.is_variant("Err")
            return None

        def do_tmp():
            r = it.deref(it.call("Ns", "tmp", "ns", [name]))
            if not isinstance(r, StrV):
                raise Unsupported("Ns::tmp does not return a String")
            cell["tmp"] = r.b
            return None
        it.branch(kind, do_insert, do_tmp, "call kind")
        outs.append((cell.get("err", FALSE), cell.get("tmp", bstr.EMPTY)))
        it.tighten_state()
    return outs


def concrete_oracle(ops, native):
    """independent concrete oracle used for the native replay; returns violated clauses"""
    H = []
    bad = []
    for i, ((kind, name), r) in enumerate(zip(ops, native["res"])):
        if kind == "insert":
            is_err = r.get("insert") == "err"
            if is_err != (name in H):
                bad.append(("insert-conflict", i, "missed" if name in H else "spurious"))
            H.append(name)
        else:
            t = r.get("tmp")
            if t in H:
                bad.append(("tmp-fresh", i, t))
            H.append(t)
    return bad


def ops_of(vals, n):
    return [["insert" if vals["k%d" % i] else "tmp", vals["n%d" % i]] for i in range(n)]


def validate_translator(it, res, seed, n_random=200):
    """native vs interpreter (concrete mode) on seeded call sequences"""
    rnd = random.Random(seed * 7919 + 26)
    cases = []
    fixed = [[["tmp", "a"], ["tmp", "a"], ["tmp", "a0"], ["insert", "a1"]],
             [["insert", "a"], ["insert", "a"], ["tmp", "a"], ["tmp", "a"], ["tmp", "a1"], ["insert", "a2"]],
             [["insert", "a0"], ["insert", "a1"], ["tmp", "a"], ["tmp", "a"], ["tmp", "a"]],
             [["tmp", ""], ["tmp", ""], ["insert", "0"], ["tmp", ""]]]
    for ops in fixed:
        cases.append(ops)
    for _ in range(n_random):
        n = rnd.randint(1, 6)
        ops = []
        for _ in range(n):
            nm = "".join(rnd.choice("ab01") for _ in range(rnd.randint(0, 3)))
            ops.append([rnd.choice(["insert", "tmp"]), nm])
        cases.append(ops)
    nat = native_run([{"prop": "C26", "ops": ops} for ops in cases])
    mism = 0
    for ops, nr in zip(cases, nat):
        outs = execute(it, [TRUE if k == "insert" else FALSE for k, _ in ops],
                       [StrV(BStr.lit(nm)) for _, nm in ops])
        if it.panics or it.unwind:
            live = [p for p in it.panics if not is_f(p[0])] + [u for u in it.unwind if not is_f(u[0])]
            if live and "panic" not in nr:
                mism += 1
                res.inconclusive.append("translator validation: interpreter panics/unwinds on %s, native does not" % ops)
                it.panics, it.unwind = [], []
                continue
        for (kind, nm), (e, t), r in zip(ops, outs, nr.get("res", [])):
            if kind == "insert":
                got = {"insert": "err" if is_t(e) else "ok"}
                exp = {"insert": r.get("insert")}
            else:
                got = {"tmp": t.concrete()}
                exp = {"tmp": r.get("tmp")}
            if got != exp:
                mism += 1
                res.inconclusive.append("translator validation mismatch on %s: interpreter %s native %s" % (ops, got, exp))
                break
        if mism > 3:
            break
    res.extra["translator_validation"] = {"cases": len(cases), "mismatches": mism}
    return mism == 0


def run(ctx):
    tier, seed, dec = ctx["tier"], ctx["seed"], ctx["decider"]
    res = Result()
    B = bounds(tier)
    res.bounds = {"calls": "<= %d interleaved insert/tmp calls (kind symbolic)" % B["calls"],
                  "names": "every string of length <= %d over {%s}" % (B["name_len"], ",".join(B["alphabet"])),
                  "while_unroll": "Ns::tmp loop unrolled %d times with an unwinding obligation" % B["while_unroll"],
                  "start_state": "Ns::default()"}
    res.outside_claim = ["more calls / longer names / other characters than the bound",
                         "non-ASCII names", "usize overflow of the counter (needs 2^64 calls)"]
    res.trusted_base = list(models.MODELS_DOC)
    res.functions = [(FILES[0], "pub fn insert"), (FILES[0], "pub fn tmp"), (FILES[0], "pub struct Ns")]
    asts = load_asts(FILES)
    it = Interp(asts, dict(while_unroll=B["while_unroll"]))
    if not validate_translator(it, res, seed):
        return res

    # ---- symbolic run
    it = Interp(asts, dict(while_unroll=B["while_unroll"]))
    inp = Inputs()
    N = B["calls"]
    kinds = [inp.flag("k%d" % i) for i in range(N)]
    names = [inp.str("n%d" % i, B["name_len"], B["alphabet"]) for i in range(N)]
    it.assume(inp.wf())
    outs = execute(it, kinds, names)
    res.extra["lemma_queries"] = it.lemma_queries
    res.extra["lemma_s"] = round(it.lemma_s, 2)
    res.extra["functions_interpreted"] = sorted("%s:%s" % k for k in it.encoded)

    base = [inp.wf()]
    # oracle
    H = []          # ghost history: (guard, BStr, "def" | "tmp")
    fresh_goals, conflict_goals = [], []
    shapes_fresh, shapes_conf = [], []
    for i, (kind, name, (e, t)) in enumerate(zip(kinds, names, outs)):
        in_h = Or(*[And(g, bstr.eq(x, name.b)) for g, x, _ in H])
        coll_def = Or(*[And(g, bstr.eq(x, t)) for g, x, s in H if s == "def"])
        coll_tmp = Or(*[And(g, bstr.eq(x, t)) for g, x, s in H if s == "tmp"])
        fresh_goals.append(Implies(Not(kind), Not(Or(coll_def, coll_tmp))))
        shapes_fresh.append((Not(kind), coll_def, coll_tmp))
        conflict_goals.append(Implies(kind, Eq(e, in_h)))
        shapes_conf.append((kind, e, in_h))
        H.append((kind, name.b, "def"))
        H.append((Not(kind), t, "tmp"))

    def replay_fn(vals):
        ops = ops_of(vals, N)
        nat = native_run([{"prop": "C26", "ops": ops}])[0]
        bad = concrete_oracle(ops, nat) if "res" in nat else [("panic", 0, nat.get("panic"))]
        return {"reproduced": bool(bad), "native": nat, "replay": {"native_case": {"prop": "C26", "ops": ops},
                "violated": bad}, "what": "ops=%s native=%s violated=%s" % (ops, nat.get("res"), bad)}

    nopanic = it.no_panic()
    nounwind = it.no_unwind()
    pre = base + [nopanic, nounwind]
    hunt(dec, res, "C26", "tmp-fresh", pre, And(*fresh_goals),
         [("collides-with-defined-name", Or(*[And(a, b) for a, b, c in shapes_fresh])),
          ("collides-with-earlier-tmp", Or(*[And(a, c) for a, b, c in shapes_fresh]))],
         inp, replay_fn, "C26/rs2smt/Ns::tmp/fresh",
         sample="tmp-fresh: for each of %d calls, tmp result not in ghost history (names <=%d over %s)" % (N, B["name_len"], ALPHABET))
    hunt(dec, res, "C26", "insert-conflict", pre, And(*conflict_goals),
         [("missed-conflict", Or(*[And(k, Not(e), h) for k, e, h in shapes_conf])),
          ("spurious-conflict", Or(*[And(k, e, Not(h)) for k, e, h in shapes_conf]))],
         inp, replay_fn, "C26/rs2smt/Ns::insert/conflict",
         sample="insert-conflict: insert(n) is Err <=> n in ghost history, %d calls" % N)

    def replay_panic(vals):
        ops = ops_of(vals, N)
        nat = native_run([{"prop": "C26", "ops": ops}])[0]
        return {"reproduced": "panic" in nat, "native": nat, "replay": {"native_case": {"prop": "C26", "ops": ops}},
                "what": "ops=%s native=%s" % (ops, nat)}
    hunt(dec, res, "C26", "no-panic", base, nopanic, [], inp, replay_panic, "C26/rs2smt/Ns/panic",
         sample="no-panic: %d panic sites reachable in the interpreted code" % len(it.panics))
    # unwinding obligation: a witness means the loop can iterate more often than the
    # bound -> not a violation of the property, but the bounded claim is incomplete
    res.obligations += 1
    v, model, note = dec.decide("unwind", base + [nopanic], nounwind)
    if v == "unsat":
        res.discharged += 1
    else:
        w = inp.decode(model) if v == "sat" else {}
        res.inconclusive.append("unwinding obligation of the while loop in Ns::tmp not discharged (%s %s) %s"
                                % (v, note, ops_of(w, N) if w else ""))
    if tier == "thorough":
        # mutated oracle: claim that tmp always returns the requested name itself
        mut = And(*[Implies(Not(k), bstr.eq(t, n.b)) for k, n, (e, t) in zip(kinds, names, outs)])
        self_test(dec, res, "tmp-fresh", pre, mut)
        mut2 = And(*[Implies(k, Not(e)) for k, (e, t) in zip(kinds, outs)])
        self_test(dec, res, "insert-conflict", pre, mut2)
    return res


def replay(path):
    import json
    d = json.load(open(path))
    case = d["native_case"]
    nat = native_run([case])[0]
    bad = concrete_oracle(case["ops"], nat) if "res" in nat else [("panic", 0, nat.get("panic"))]
    print("replay %s: ops=%s" % (path, case["ops"]))
    print("  native results: %s" % json.dumps(nat))
    print("  violated clauses: %s" % bad)
    print("  REPRODUCED" if bad else "  NOT REPRODUCED")
    return 0 if bad else 1
