"""C17  Async selection directives select exactly the documented functions
(crates/core/src/async_.rs) -- the selection function; that every backend uses
its answer for the ABI it emits is outside this engine.

Symbolic: a list of up to 3 directives (each present or absent; any string of
length <= DLEN over {-, a, l, i, m, p, o, r, t, e, x, :, f, g, #}), and a
history of up to 3 is_async queries, each with an optional interface name
(<= 2 chars over {f,g,x}), a function name (<= 3 chars over {f,g,#}... see
bounds), a direction and the WIT async-ness.  Real code: AsyncFilterSet::
{default, push, is_async, ensure_all_used, debug_opts}, Async::parse and the two
Display impls, interpreted from source.  An interface key is WorldKey::Name(n) (n symbolic; both wit-parser naming
functions return n) or one fixed WorldKey::Interface of a versioned package for
which `name_world_key` = "a:b/i@1.2.3" and `name_canonicalized_world_key` =
"a:b/i@1" differ (the two functions are modelled separately, so swapping them
changes the encoding); the function kind ranges over all 7 FunctionKind variants
and the WIT async-ness is derived from the kind.

Oracle (from the statement and the option's documentation):
  selection   is_async == the `enabled` flag of the first directive (in the order
              given) whose filter matches the function's name and direction, else
              the WIT async-ness; `all`/`-all` match everything, `import:N` /
              `export:N` match name N in that direction, anything else matches
              by name in both directions; a leading `-` disables
  all-used    ensure_all_used is Err  <=>  some directive other than all/-all
              decided none of the queries of the history
  round-trip  Display(parse(s)) == s, so parse(Display(d)) == d for every parsed d
"""
import json
import random
import z3
import bstr
from bstr import BStr, L, LB, Z8
from smtlib import (TRUE, FALSE, And, Or, Not, Ite, Eq, Ult, Ule, Add, Sub, Implies, bv, bvval, b2bv, is_t, is_f, ZeroExt)
from interp import (Interp, StrV, IntV, BoolV, EnumV, StructV, VecV, OpaqueV, Unsupported, Inconclusive, some, none, option, IW)
from core import Inputs, load_asts, native_run, Result, eval_bool, eval_str, eval_bv
from hunt import hunt, self_test
import models

FILES = ["crates/core/src/async_.rs"]
AL_DIR = "-alimportex:fg#b/@.123"
R_NWK = "a:b/i@1.2.3"      # Resolve::name_world_key of the versioned interface key the native harness builds
R_NCWK = "a:b/i@1"         # Resolve::name_canonicalized_world_key of the same key
ASYNC_KINDS = (1, 3, 5)
AL_NAME = "fg"
AL_IFACE = "fgx"
FK = ["Freestanding", "AsyncFreestanding", "Method", "AsyncMethod", "Static", "AsyncStatic", "Constructor"]


def bounds(tier):
    if tier == "quick":
        return dict(ndir=3, dlen=21, ncalls=3, flen=2, ilen=2)
    return dict(ndir=4, dlen=22, ncalls=3, flen=3, ilen=2)


def mk_func(name, kind):
    """kind: BV8 index into FK; the tuple variants carry an opaque TypeId"""
    pl = {k: ([] if k in ("Freestanding", "AsyncFreestanding") else [OpaqueV("TypeId")]) for k in FK}
    return StructV("Function", {"name": name, "kind": EnumV("FunctionKind", FK, kind, pl)})


def mk_key(ik, iface):
    """Option<&WorldKey>: ik 0 = None, 1 = WorldKey::Name(iface), 2 = the versioned WorldKey::Interface.
    A key is modelled by the two names wit-parser gives it (two distinct uninterpreted functions of the key)."""
    ver = Eq(ik, bv(2, 2))
    nwk = StrV(bstr.ite(ver, BStr.lit(R_NWK), iface.b))
    ncwk = StrV(bstr.ite(ver, BStr.lit(R_NCWK), iface.b))
    return option(Not(Eq(ik, bv(0, 2))), StructV("WorldKey", {"nwk": nwk, "ncwk": ncwk})), nwk


def execute(it, directives, calls):
    """directives: [(present Bool, StrV)], calls: [(ik BV2, iface StrV, func StrV, is_import Bool, kind BV8)]
    returns (results [Bool terms], ensure_err Bool, displays VecV)"""
    it.new_session()
    it.set_var("set", it.default_of("AsyncFilterSet"))
    resolve = OpaqueV("Resolve", {"name_world_key": lambda key: it.deref(key).fields["nwk"],
                                  "name_canonicalized_world_key": lambda key: it.deref(key).fields["ncwk"]})
    for present, d in directives:
        it.branch(present, lambda d=d: it.call("AsyncFilterSet", "push", "set", [d]), lambda: None, "directive present")
    disp = it.deref(it.call("AsyncFilterSet", "debug_opts", "set", []))
    if not isinstance(disp, VecV):
        raise Unsupported("debug_opts does not yield a sequence")
    results = []
    for ik, iface, func, is_import, kind in calls:
        key, _ = mk_key(ik, iface)
        r = it.deref(it.call("AsyncFilterSet", "is_async", "set", [resolve, key, mk_func(func, kind), BoolV(is_import)]))
        if not isinstance(r, BoolV):
            raise Unsupported("is_async does not return bool")
        results.append(r.term)
    e = it.deref(it.call("AsyncFilterSet", "ensure_all_used", "set", []))
    if not isinstance(e, EnumV) or e.ty != "Result":
        raise Unsupported("ensure_all_used does not return a Result")
    return results, e.is_variant("Err"), disp


# ------------------------------------------------------------------ oracle
def parse_directive(d):
    """documented meaning of a directive string: (enabled, is_all, dir in {any, import, export}, name BStr)"""
    neg = bstr.prefixof(BStr.lit("-"), d)
    rest = bstr.ite(neg, bstr.substr_from(d, L(1)), d)
    is_all = bstr.eq(rest, BStr.lit("all"))
    is_imp = bstr.prefixof(BStr.lit("import:"), rest)
    is_exp = And(Not(is_imp), bstr.prefixof(BStr.lit("export:"), rest))
    name = bstr.ite(Or(is_imp, is_exp), bstr.substr_from(rest, L(7)), rest)
    return Not(neg), is_all, is_imp, is_exp, name


def oracle(directives, calls):
    parsed = [parse_directive(d.b) for _, d in directives]
    decided = [[] for _ in directives]
    expected = []
    for ik, iface, func, is_import, kind in calls:
        _, nwk = mk_key(ik, iface)
        full = bstr.ite(Not(Eq(ik, bv(0, 2))), bstr.concat(bstr.concat(nwk.b, BStr.lit("#")), func.b), func.b)
        wit_async = Or(*[Eq(kind, bv(k, 8)) for k in ASYNC_KINDS])     # the WIT declares it `async`
        ans = wit_async
        taken = FALSE
        per = []
        for i in range(len(directives)):
            present = directives[i][0]
            en, is_all, is_imp, is_exp, name = parsed[i]
            dir_ok = And(Implies(is_imp, is_import), Implies(is_exp, Not(is_import)))
            matches = And(present, Or(is_all, And(dir_ok, bstr.eq(name, full))))
            decides = And(matches, Not(taken))
            per.append((decides, en))
            decided[i].append(decides)
            taken = Or(taken, matches)
        for decides, en in reversed(per):
            ans = Ite(decides, en, ans)
        expected.append(ans)
    unused = Or(*[And(directives[i][0], Not(parsed[i][1]), Not(Or(*decided[i]))) for i in range(len(directives))])
    return expected, unused, parsed


def py_oracle(dirs, calls):
    exp = []
    used = [False] * len(dirs)
    for c in calls:
        iface = R_NWK if c.get("iface_versioned") else c["iface"]
        full = (iface + "#" if iface is not None else "") + c["func"]
        ans = c["kind"].startswith("Async")
        for i, d in enumerate(dirs):
            en = not d.startswith("-")
            rest = d[1:] if d.startswith("-") else d
            if rest == "all":
                m = True
            elif rest.startswith("import:"):
                m = c["import"] and rest[7:] == full
            elif rest.startswith("export:"):
                m = (not c["import"]) and rest[7:] == full
            else:
                m = rest == full
            if m:
                ans = en
                used[i] = True
                break
        exp.append(ans)
    unused = any((not used[i]) and d not in ("all", "-all") for i, d in enumerate(dirs))
    return exp, unused


def case_of(vals, B):
    dirs = [vals["d%d" % i] for i in range(B["ndir"]) if vals["p%d" % i]]
    calls = []
    for j in range(B["ncalls"]):
        calls.append({"iface": vals["if%d" % j] if vals["ik%d" % j] == 1 else None, "iface_versioned": vals["ik%d" % j] == 2,
                      "func": vals["fn%d" % j], "import": bool(vals["im%d" % j]), "kind": FK[vals["kd%d" % j]]})
    return {"prop": "C17", "directives": dirs, "calls": calls}


def check_native(case, nat):
    bad = []
    if "panic" in nat:
        return ["panic"]
    exp, unused = py_oracle(case["directives"], case["calls"])
    if nat["results"] != exp:
        bad.append("selection")
    if nat["ensure_err"] != unused:
        bad.append("all-used")
    if nat["display"] != case["directives"]:
        bad.append("round-trip")
    return bad


def concrete_run(it, case):
    dirs = [(TRUE, StrV(BStr.lit(d))) for d in case["directives"]]
    calls = [(bv(2 if c.get("iface_versioned") else (1 if c["iface"] is not None else 0), 2), StrV(BStr.lit(c["iface"] or "")),
              StrV(BStr.lit(c["func"])), TRUE if c["import"] else FALSE, bv(FK.index(c["kind"]), 8)) for c in case["calls"]]
    results, e, disp = execute(it, dirs, calls)
    n = bvval(disp.n)
    return {"results": [is_t(r) for r in results], "ensure_err": is_t(e),
            "display": [disp.elems[i].b.concrete() for i in range(n)]}


def validate_translator(asts, res, seed):
    it = Interp(asts, dict(tighten="off"))
    rnd = random.Random(seed * 7919 + 17)
    dpool = ["all", "-all", "f", "-f", "g", "import:f", "export:f", "-import:f", "-export:g", "x#f", "import:x#f", "-export:x#f",
             "import:", "alll", "-", "", "--f", "import:import:f", "export:all", "fg#f",
             R_NWK + "#f", "import:" + R_NWK + "#f", R_NCWK + "#f", "-export:" + R_NCWK + "#g"]
    cases = []
    for _ in range(200):
        dirs = [rnd.choice(dpool) for _ in range(rnd.randint(0, 4))]
        calls = []
        for _ in range(rnd.randint(0, 3)):
            ifc = rnd.choice([None, None, "x", "fg", "VER"])
            calls.append({"iface": None if ifc == "VER" else ifc, "iface_versioned": ifc == "VER",
                          "func": rnd.choice(["f", "g", "all", "import:f"]), "import": rnd.random() < 0.5, "kind": rnd.choice(FK)})
        cases.append({"prop": "C17", "directives": dirs, "calls": calls})
    nat = native_run(cases)
    mism = 0
    for case, nr in zip(cases, nat):
        it.panics = []
        got = concrete_run(it, case)
        exp = {k: nr.get(k) for k in ("results", "ensure_err", "display")}
        if got != exp:
            mism += 1
            if mism <= 3:
                res.inconclusive.append("translator validation mismatch on %s: interpreter %s native %s" % (case, got, exp))
        pe, pu = py_oracle(case["directives"], case["calls"])
        if "results" in nr and (pe != nr["results"] or pu != nr["ensure_err"]) :
            res.extra.setdefault("concrete_oracle_disagreements_on_seeded_cases", []).append(
                {"case": case, "oracle": [pe, pu], "native": [nr["results"], nr["ensure_err"]]})
    res.extra["translator_validation"] = {"seeded_cases": len(cases), "mismatches": mism}
    return mism == 0


def run(ctx):
    tier, seed, dec = ctx["tier"], ctx["seed"], ctx["decider"]
    res = Result()
    B = bounds(tier)
    res.bounds = {"directives": "<= %d directives (each present or absent), every string of length <= %d over {%s}"
                                % (B["ndir"], B["dlen"], " ".join(AL_DIR)),
                  "history": "%d is_async queries: interface key none | Name(<= %d chars over {f,g,x}) | the versioned interface a:b/i@1.2.3, "
                             "function name (1..%d chars over {f,g}), direction and function kind (all 7 FunctionKind variants) symbolic"
                             % (B["ncalls"], B["ilen"], B["flen"]),
                  "start_state": "AsyncFilterSet::default()"}
    res.outside_claim = ["that each backend uses the answer for the ABI it emits (needs whole-generator runs)",
                         "the clap / serde front ends (comma splitting, deserialisation)",
                         "longer directive lists / histories / names, other characters"]
    res.assumptions = ["the documented name of an interface function is Resolve::name_world_key(key) + '#' + function name",
                       "Resolve::name_world_key / name_canonicalized_world_key are modelled on two kinds of keys only: WorldKey::Name(n) "
                       "(both = n) and one versioned WorldKey::Interface (a:b/i@1.2.3 vs a:b/i@1), as built by the native harness",
                       "a function is declared async in WIT iff its FunctionKind is AsyncFreestanding / AsyncMethod / AsyncStatic"]
    res.trusted_base = list(models.MODELS_DOC)
    res.functions = [(FILES[0], "pub fn is_async"), (FILES[0], "pub fn ensure_all_used"), (FILES[0], "pub fn push"),
                     (FILES[0], "fn parse(s: &str) -> Async"), (FILES[0], "impl fmt::Display for Async "),
                     (FILES[0], "impl fmt::Display for AsyncFilter"), (FILES[0], "pub fn debug_opts")]
    asts = load_asts(FILES)
    if not validate_translator(asts, res, seed):
        return res
    it = Interp(asts, dict(tighten="off"))
    inp = Inputs()
    directives, calls = [], []
    for i in range(B["ndir"]):
        p = inp.flag("p%d" % i)
        d = inp.str("d%d" % i, B["dlen"], AL_DIR)
        directives.append((p, d))
    for j in range(B["ncalls"]):
        ik = inp.small("ik%d" % j, 2, hi=2)
        iface = inp.str("if%d" % j, B["ilen"], AL_IFACE, minlen=1)
        fn = inp.str("fn%d" % j, B["flen"], AL_NAME, minlen=1)
        im = inp.flag("im%d" % j)
        kd = inp.small("kd%d" % j, 3, hi=6)
        calls.append((ik, iface, fn, im, z3.ZeroExt(5, kd)))
    it.assume(inp.wf())
    results, ens_err, disp = execute(it, directives, calls)
    res.extra["functions_interpreted"] = sorted("%s:%s" % k for k in it.encoded)
    nopanic = it.no_panic()
    expected, unused, parsed = oracle(directives, calls)

    # encoding with inputs fixed vs native
    rnd = random.Random(seed * 104729 + 17)
    dpool = ["all", "-all", "f", "-f", "g", "import:f", "export:f", "-import:f", "-export:g", "x#f", "import:x#f", "import:", "alll", "-", "",
             R_NWK + "#f", R_NCWK + "#f", "import:" + R_NWK + "#g"]
    vl = []
    for _ in range(40):
        vals = {}
        for i in range(B["ndir"]):
            vals["p%d" % i] = rnd.randint(0, 1)
            vals["d%d" % i] = rnd.choice(dpool)
        for j in range(B["ncalls"]):
            vals["ik%d" % j] = rnd.randint(0, 2)
            vals["if%d" % j] = rnd.choice(["x", "f", "fg"][:2 + (B["ilen"] >= 2)])
            vals["fn%d" % j] = rnd.choice(["f", "g", "fg"][:2 + (B["flen"] >= 2)])
            vals["im%d" % j] = rnd.randint(0, 1)
            vals["kd%d" % j] = rnd.randint(0, 6)
        vl.append(vals)
    nat = native_run([case_of(v, B) for v in vl])
    mism = 0
    for vals, nr in zip(vl, nat):
        pairs = inp.subst_pairs(vals)
        got = [eval_bool(r, pairs) for r in results]
        ge = eval_bool(ens_err, pairs)
        if got != nr.get("results") or ge != nr.get("ensure_err"):
            mism += 1
            res.inconclusive.append("encoding validation mismatch on %s: encoding %s/%s native %s" % (case_of(vals, B), got, ge, nr))
    res.extra["encoding_validation"] = {"cases": len(vl), "mismatches": mism}
    if mism:
        return res

    base = [inp.wf(), nopanic]

    def replay_for(clause):
        def f(vals):
            case = case_of(vals, B)
            nat = native_run([case])[0]
            bad = check_native(case, nat)
            exp, unused_ = py_oracle(case["directives"], case["calls"])
            return {"reproduced": clause in bad, "native": nat,
                    "replay": {"native_case": case, "violated": bad, "expected_results": exp, "expected_ensure_err": unused_},
                    "what": "directives=%s calls=%s: is_async=%s (documented rule: %s), ensure_all_used err=%s (rule: %s), display=%s"
                            % (case["directives"], json.dumps(case["calls"]), nat.get("results"), exp, nat.get("ensure_err"), unused_,
                               nat.get("display"))}
        return f
    sel_goal = And(*[Eq(r, e) for r, e in zip(results, expected)])
    n_dec = [Or(*[Eq(r, e) for r, e in zip(results, expected)])]
    any_all = Or(*[And(p, parsed[i][1]) for i, (p, _) in enumerate(directives)])
    any_dir = Or(*[And(p, Or(parsed[i][2], parsed[i][3])) for i, (p, _) in enumerate(directives)])
    shapes_sel = [("with-all-directive", any_all), ("with-import-export-directive", any_dir), ("name-directives-only", TRUE)]
    hunt(dec, res, "C17", "selection", base, sel_goal, shapes_sel, inp, replay_for("selection"),
         "C17/rs2smt/AsyncFilterSet::is_async/first-match-decides",
         sample="is_async == first matching directive's flag else WIT async-ness; %d directives<=%d chars, %d queries"
                % (B["ndir"], B["dlen"], B["ncalls"]))
    hunt(dec, res, "C17", "all-used", base + [sel_goal], Eq(ens_err, unused),
         [("accepts-unused-directive", And(unused, Not(ens_err))), ("rejects-used-directive", And(Not(unused), ens_err))],
         inp, replay_for("all-used"), "C17/rs2smt/AsyncFilterSet::ensure_all_used/unused-iff-never-decided",
         sample="ensure_all_used is Err <=> some non-all directive decided no query of the history")
    # round trip: debug_opts() yields exactly the pushed strings
    npres = L(0)
    conj = []
    for i, (p, d) in enumerate(directives):
        # the index of directive i in the pushed list = number of present directives before it
        for k, el in enumerate(disp.elems):
            conj.append(Implies(And(p, Eq(npres, L(k))), bstr.eq(el.b, d.b)))
        npres = Add(npres, b2bv(p, LB))
    conj.append(Eq(disp.n, npres))
    hunt(dec, res, "C17", "round-trip", base, And(*conj), [("display-differs-from-directive", TRUE)], inp, replay_for("round-trip"),
         "C17/rs2smt/Async::parse+Display/round-trip",
         sample="Display(parse(s)) == s for every directive string s (<= %d chars)" % B["dlen"])

    def replay_p(vals):
        case = case_of(vals, B)
        nat = native_run([case])[0]
        return {"reproduced": "panic" in nat, "native": nat, "replay": {"native_case": case}, "what": "%s -> %s" % (case, nat)}
    hunt(dec, res, "C17", "no-panic", [inp.wf()], nopanic, [], inp, replay_p, "C17/rs2smt/AsyncFilterSet/panic",
         sample="no panic in push / is_async / ensure_all_used / Display")
    if tier == "thorough":
        # mutated oracle: last matching directive decides
        self_test(dec, res, "selection", base, And(*[Eq(r, Or(*[Eq(kd, bv(k, 8)) for k in ASYNC_KINDS]))
                                                     for r, (_, _, _, _, kd) in zip(results, calls)]))
    return res


def replay(path):
    d = json.load(open(path))
    case = d["native_case"]
    nat = native_run([case])[0]
    bad = check_native(case, nat)
    exp, unused = py_oracle(case["directives"], case["calls"])
    print("replay %s: directives=%s calls=%s" % (path, case["directives"], json.dumps(case["calls"])))
    print("  native: %s" % json.dumps(nat))
    print("  documented rule: results=%s ensure_err=%s" % (exp, unused))
    print("  violated clauses: %s" % bad)
    print("  REPRODUCED" if bad else "  NOT REPRODUCED")
    return 0 if bad else 1
