"""rs2smt entry point (run under python3-vt): main.py run <PROP> <tier> <seed> | replay <PROP> <path>
Prints one JSON object (the Result) on the last line of stdout."""
import importlib
import json
import os
import sys
import time
import traceback

sys.path.insert(0, os.path.dirname(os.path.abspath(__file__)))
sys.setrecursionlimit(20000)
import core  # noqa: E402
from interp import Unsupported, Inconclusive  # noqa: E402
import bstr  # noqa: E402

MODS = {"C26": "c26", "C25": "c25", "C27": "c27", "C34": "c34", "C17": "c17"}


def main():
    cmd = sys.argv[1]
    prop = sys.argv[2]
    mod = importlib.import_module(MODS[prop])
    if cmd == "replay":
        sys.exit(mod.replay(sys.argv[3]))
    tier, seed = sys.argv[3], int(sys.argv[4])
    stats = core.Stats()
    dec = core.Decider(prop, tier, stats)
    ctx = {"tier": tier, "seed": seed, "decider": dec, "stats": stats}
    t0 = time.time()
    try:
        res = mod.run(ctx)
    except Unsupported as u:
        res = core.Result()
        res.inconclusive.append(str(u))
    except (Inconclusive, bstr.BoundExceeded) as u:
        res = core.Result()
        res.inconclusive.append("inconclusive: %s" % u)
    except Exception:
        res = core.Result()
        res.inconclusive.append("engine error: " + traceback.format_exc()[-1500:])
    out = res.to_json(stats)
    out["wall_s"] = round(time.time() - t0, 2)
    out["query_log"] = dec.log
    with open(os.path.join(dec.dir, "result.json"), "w") as f:
        json.dump(out, f, indent=1, default=str)
    print("RS2SMT-RESULT " + json.dumps(out, default=str))


if __name__ == "__main__":
    main()
