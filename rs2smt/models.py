"""Library models: the meaning rs2smt gives to std / heck / semver items the
interpreted code calls.  This file (with bstr.py) is the trusted base; each
model is validated on every run against the natively compiled code on concrete
inputs (translator validation), and the list MODELS_DOC is copied into the
evidence."""
import re
import z3
import bstr
from bstr import BStr, L, LB
from smtlib import (TRUE, FALSE, And, Or, Not, Ite, Eq, Ult, Ule, Add, Sub, bv, bvval, ZeroExt,
                    b2bv, is_t, is_f, Implies)
import interp as I
from interp import (IntV, BoolV, CharV, StrV, TupleV, StructV, EnumV, VecV, SetV, RefV, ClosureV,
                    RangeV, OpaqueV, UNIT, some, none, option, ok, err, mkstr, merge, val_eq, IW)

MODELS_DOC = [
    "strings: bounded ASCII strings as bit-vector sequences (bstr.py); non-ASCII text is outside the model",
    "str::lines (terminator \\n or \\r\\n, final unterminated line kept iff non-empty)",
    "str::trim / trim_start / trim_end (ASCII part of char::is_whitespace: \\t \\n \\x0b \\x0c \\r space)",
    "str::starts_with / ends_with / strip_prefix (&str or char pattern)",
    "str::split_whitespace, str::replace(char, &str), str::is_empty, str::len, &s[a..] (a symbolic; a > len = panic), to_string/to_owned/clone",
    "str::find(char) / str::rfind(char) -> Option<usize> (first / last byte index), str::bytes() / str::chars() as a sequence of 8-bit codes (ASCII only), byte literals b'x'",
    "Option::map_or(default, closure) (default evaluated eagerly, closure inlined under the Some guard)",
    "Option::unwrap_or / unwrap_or_default (String, usize, bool payloads) / unwrap_or_else / map / and_then / is_some_and (closures inlined under the Some / None guard)",
    "str::split(char | &str literal): pieces between leftmost non-overlapping matches, empty pieces kept, at least one piece",
    "str::split_once(char), str::to_lowercase / to_ascii_lowercase (ASCII), str::replace with a char-array pattern, String::into_bytes / as_bytes, String::from_utf8 / from_utf8_lossy (ASCII: always valid)",
    "sequence adaptors next / last / nth(k) / take(n) / skip(k) / rev, Vec::dedup; a &mut method called on a temporary drops its mutation",
    "char::is_ascii_digit / is_alphanumeric / is_alphabetic / is_lowercase / is_uppercase / is_whitespace (ASCII ranges)",
    "String::push_str / push / pop, [&str]::join(&str)",
    "format!/write!/bail! with `{}` and inline `{name}` of strings, chars, usize (decimal) and Display impls interpreted from source",
    "usize: + - (overflow = panic), saturating_sub, comparisons; 64-bit bit-vectors",
    "HashSet::insert / contains as a guarded association list with structural key equality",
    "Vec / slice iterators: iter, into_iter, enumerate, map, filter_map, take_while, any, all, collect, len, push, index",
    "Option / Result: Some/None/Ok/Err, `?`, is_some/is_none, unwrap (None = panic), anyhow::Context::context = identity on Ok",
    "derive(Default) = field-wise defaults",
    "heck::ToSnakeCase restricted to [a-z0-9_-] (and any other non-alphanumeric ASCII separator): words = maximal alphanumeric runs joined by `_`; upper case and digit/letter boundaries are outside the model",
    "semver::Version Display = MAJOR.MINOR.PATCH[-PRE][+BUILD]",
    "id_arena::Arena: index by id, iter() yields (id, &item) in id order",
]


def is_alnum_lower(c):
    lo = And(z3.UGE(c, bv(ord('a'), 8)), z3.ULE(c, bv(ord('z'), 8)))
    dg = And(z3.UGE(c, bv(ord('0'), 8)), z3.ULE(c, bv(ord('9'), 8)))
    v = bvval(c)
    if v is not None:
        ch = chr(v)
        return TRUE if (ch.islower() and ch.isalpha() and v < 128) or ch.isdigit() else FALSE
    return Or(lo, dg)


def is_upper(c):
    v = bvval(c)
    if v is not None:
        return TRUE if 65 <= v <= 90 else FALSE
    return And(z3.UGE(c, bv(65, 8)), z3.ULE(c, bv(90, 8)))


class Models:
    def __init__(self, it):
        self.it = it

    def uns(self, what, node):
        self.it.unsupported(what, node)

    # ---------------------------------------------------------------- display / format
    def display(self, v, node):
        it = self.it
        v = it.deref(v)
        if isinstance(v, StrV):
            return v.b
        if isinstance(v, CharV):
            return BStr(b2bv(Not(Eq(v.term, bstr.Z8)), LB), [v.term])
        if isinstance(v, IntV):
            v = it.tighten_int(v)
            if v.hi is None:
                self.uns("Display of an integer without a static bound", node)
            return bstr.from_uint(v.term, v.hi)
        if isinstance(v, (StructV, EnumV)):
            ty = v.ty
            if ty == "Version":
                return self.version_display(v, node)
            for (t2, m2), (file, fn) in it.methods.items():
                if t2 == ty and m2.endswith("Display>::fmt"):
                    it.fresh_n += 1
                    nm = "$fmt%d" % it.fresh_n
                    it.bind(nm, StructV("Formatter", {"buf": mkstr("")}))
                    ref = RefV(len(it.frames) - 1, len(it.frame.scopes) - 1, nm)
                    it.call_fn(file, fn, [ref], self_val=v, name="%s::fmt" % ty)
                    out = it.read_ref(ref).fields["buf"].b
                    del it.frames[ref.frame].scopes[ref.scope][nm]
                    return out
        self.uns("Display of %s" % type(v).__name__, node)

    def version_display(self, v, node):
        f = v.fields
        parts = [self.display(f["major"], node), BStr.lit("."), self.display(f["minor"], node),
                 BStr.lit("."), self.display(f["patch"], node)]
        s = bstr.concat_all(parts)
        pre, build = f["pre"].b, f["build"].b
        s = bstr.ite(bstr.is_empty(pre), s, bstr.concat(bstr.concat(s, BStr.lit("-")), pre))
        s = bstr.ite(bstr.is_empty(build), s, bstr.concat(bstr.concat(s, BStr.lit("+")), build))
        return s

    def format(self, args, node):
        """args: AST nodes of a format-like macro (format string first)"""
        it = self.it
        if not args or args[0]["k"] != "Lit" or args[0]["t"] != "str":
            self.uns("format string that is not a literal", node)
        fmt = args[0]["v"]
        rest = list(args[1:])
        out = bstr.EMPTY
        pos = 0
        i = 0
        lit = ""
        while i < len(fmt):
            ch = fmt[i]
            if ch == "{":
                if i + 1 < len(fmt) and fmt[i + 1] == "{":
                    lit += "{"
                    i += 2
                    continue
                j = fmt.index("}", i)
                spec = fmt[i + 1:j]
                if lit:
                    out = bstr.concat(out, self.lit(lit, node))
                    lit = ""
                if spec == "":
                    if pos >= len(rest):
                        self.uns("format argument count", node)
                    v = it.eval(rest[pos])
                    pos += 1
                elif re.fullmatch(r"[A-Za-z_][A-Za-z0-9_]*", spec):
                    r = it.lookup(spec)
                    if r is None:
                        self.uns("format argument `%s`" % spec, node)
                    v = r[2]
                else:
                    self.uns("format spec `{%s}`" % spec, node)
                out = bstr.concat(out, self.display(v, node))
                i = j + 1
                continue
            if ch == "}":
                if i + 1 < len(fmt) and fmt[i + 1] == "}":
                    lit += "}"
                    i += 2
                    continue
                self.uns("stray } in format string", node)
            lit += ch
            i += 1
        if lit:
            out = bstr.concat(out, self.lit(lit, node))
        return out

    def lit(self, s, node):
        try:
            return BStr.lit(s)
        except bstr.BoundExceeded as x:
            self.uns(str(x), node)

    # ---------------------------------------------------------------- macros
    def macro(self, e):
        it = self.it
        name = e["name"]
        if name == "format":
            return StrV(self.format(e["args"], e))
        if name in ("write", "writeln"):
            dst = e["args"][0]
            place = it.eval_place(dst)
            if place is None:
                dv = it.eval(dst)
                if isinstance(dv, RefV):
                    place = dv
            if place is None:
                self.uns("write! to a non-place", e)
            cur = it.deref(it.read_ref(place))
            text = self.format(e["args"][1:], e)
            if name == "writeln":
                text = bstr.concat(text, BStr.lit("\n"))
            if isinstance(cur, StructV) and cur.ty == "Formatter":
                it.write_ref(RefV(place.frame, place.scope, place.var, place.path + ("buf",)),
                             StrV(bstr.concat(cur.fields["buf"].b, text)))
                return ok(UNIT)
            if isinstance(cur, StrV):
                it.write_ref(place, StrV(bstr.concat(cur.b, text)))
                return ok(UNIT)
            if isinstance(cur, StructV) and (cur.ty, "<Write>::write_str") in it.methods:
                return it.call_method_user(cur.ty, "<Write>::write_str", place, cur, [StrV(text)])
            self.uns("write! to %s" % type(cur).__name__, e)
        if name == "bail":
            msg = StrV(self.format(e["args"], e))
            it.frame.retval = err(msg)
            it.frame.ret = TRUE
            return None
        if name == "matches":
            v = it.eval(e["expr"])
            cond, binds = it.match_pat(e["pat"], v)
            if e.get("guard") is not None:
                self.uns("matches! with guard", e)
            return BoolV(cond)
        if name == "vec":
            el = [it.eval(a) for a in e["args"]]
            return VecV(L(len(el)), el)
        if name == "assert_eq":
            a = it.deref(it.eval(e["args"][0]))
            b = it.deref(it.eval(e["args"][1]))
            it.panic(Not(val_eq(a, b)), "assert_eq! failed", e)
            return UNIT
        if name == "assert":
            a = it.deref(it.eval(e["args"][0]))
            it.panic(Not(a.term), "assert! failed", e)
            return UNIT
        if name in ("panic", "unreachable", "todo", "unimplemented"):
            it.panic(TRUE, name + "!", e)
            it.frame.ret = TRUE
            return None
        self.uns("macro `%s!`" % name, e)

    # ---------------------------------------------------------------- free functions / associated fns
    def call_path(self, p, args, node):
        it = self.it
        name = p[-1]
        ty = p[-2] if len(p) >= 2 else None
        if ty == "String" and name == "new":
            return mkstr("")
        if ty == "String" and name == "from":
            return it.deref(args[0])
        if ty == "String" and name in ("from_utf8", "from_utf8_lossy"):
            v = it.deref(args[0])
            if isinstance(v, StrV):
                sv = v
            elif isinstance(v, VecV) and all(isinstance(x, CharV) for x in v.elems):
                sv = StrV(BStr(v.n, bstr.truncate([x.term for x in v.elems], v.n)))
            else:
                self.uns("String::%s of %s" % (name, type(v).__name__), node)
            # ASCII only (the string model): always valid UTF-8
            return ok(sv) if name == "from_utf8" else sv
        if ty == "HashSet" and name == "new":
            return SetV()
        if ty == "Vec" and name == "new":
            return VecV(L(0), [])
        if name == "default" and ty in ("String",):
            return mkstr("")
        if name == "from" and ty in ("Vec", "String"):
            return self.convert_from(it.deref(args[0]), ty, node)
        return NotImplemented

    def convert_from(self, v, target, node):
        it = self.it
        ty = getattr(v, "ty", None)
        for (tr, selfty, m), (file, fn) in it.trait_impls.items():
            if m == "from" and tr == "From<%s>" % ty and (target is None or selfty.startswith(target)):
                return it.call_fn(file, fn, [v], name="<%s as %s>::from" % (selfty, tr))
        self.uns("conversion From<%s>" % ty, node)

    # ---------------------------------------------------------------- indexing
    def index(self, base, idx, node):
        it = self.it
        if isinstance(base, StrV) and isinstance(idx, RangeV):
            b = base.b
            lo = idx.lo.term if idx.lo is not None else bv(0, IW)
            if idx.hi is not None:
                self.uns("string slice with an upper bound", node)
            # panics when lo > len (char boundaries: ASCII only)
            it.panic(Ult(ZeroExt(b.n, IW), lo), "byte index out of bounds of string slice", node)
            return StrV(bstr.substr_from(b, ZeroExt(lo, LB)).tight())
        if isinstance(base, StructV) and base.ty == "Arena":
            base = base.fields["items"]
        if isinstance(base, VecV) and isinstance(idx, IntV):
            i = bvval(idx.term)
            it.panic(Not(Ult(idx.term, ZeroExt(base.n, IW))), "index out of bounds", node)
            if i is not None:
                if i >= len(base.elems):
                    return base.elems[0] if base.elems else UNIT
                return base.elems[i]
            r = None
            for k, el in enumerate(base.elems):
                r = el if r is None else merge(Eq(idx.term, bv(k, IW)), el, r, "index")
            return r
        self.uns("indexing %s by %s" % (type(base).__name__, type(idx).__name__), node)

    # ---------------------------------------------------------------- methods
    def method(self, recv, m, args, node):
        """returns (new receiver value or None, result) or NotImplemented"""
        it = self.it
        args = [it.deref(a) if not isinstance(a, ClosureV) else a for a in args]
        if isinstance(recv, StrV):
            return self.m_str(recv, m, args, node)
        if isinstance(recv, IntV):
            if m == "saturating_sub":
                a, b = recv.term, args[0].term
                return None, IntV(Ite(Ult(a, b), bv(0, IW), Sub(a, b)), recv.hi)
            if m == "to_string":
                return None, StrV(self.display(recv, node))
            if m in ("clone",):
                return None, recv
            return NotImplemented
        if isinstance(recv, CharV):
            c = recv.term
            rng = lambda lo, hi: And(z3.UGE(c, bv(ord(lo), 8)), z3.ULE(c, bv(ord(hi), 8)))
            preds = {"is_ascii_digit": lambda: rng("0", "9"), "is_numeric": lambda: rng("0", "9"),
                     "is_ascii_lowercase": lambda: rng("a", "z"), "is_lowercase": lambda: rng("a", "z"),
                     "is_ascii_uppercase": lambda: rng("A", "Z"), "is_uppercase": lambda: rng("A", "Z"),
                     "is_ascii_alphabetic": lambda: Or(rng("a", "z"), rng("A", "Z")),
                     "is_alphabetic": lambda: Or(rng("a", "z"), rng("A", "Z")),
                     "is_ascii_alphanumeric": lambda: Or(rng("a", "z"), rng("A", "Z"), rng("0", "9")),
                     "is_alphanumeric": lambda: Or(rng("a", "z"), rng("A", "Z"), rng("0", "9")),
                     "is_whitespace": lambda: bstr.is_ws(c), "is_ascii_whitespace": lambda: bstr.is_ws(c)}
            if m in preds:
                return None, BoolV(z3.simplify(preds[m]()) if bvval(c) is not None else preds[m]())
        if isinstance(recv, (BoolV, CharV)):
            if m in ("clone",):
                return None, recv
            if m == "to_string" and isinstance(recv, CharV):
                return None, StrV(self.display(recv, node))
            return NotImplemented
        if isinstance(recv, VecV):
            return self.m_vec(recv, m, args, node)
        if isinstance(recv, SetV):
            return self.m_set(recv, m, args, node)
        if isinstance(recv, EnumV):
            return self.m_enum(recv, m, args, node)
        if isinstance(recv, StructV):
            if recv.ty == "Arena":
                items = recv.fields["items"]
                if m == "iter":
                    el = [TupleV([IntV.const(i), x]) for i, x in enumerate(items.elems)]
                    return None, VecV(items.n, el)
                if m == "len":
                    return None, IntV(ZeroExt(items.n, IW), len(items.elems))
            if m == "to_string":
                return None, StrV(self.display(recv, node))
            if m == "clone":
                return None, recv
            if m == "into":
                return None, self.convert_from(recv, None, node)
            return NotImplemented
        if isinstance(recv, OpaqueV):
            f = (recv.data or {}).get(m)
            if f is not None:
                return None, f(*args)
            return NotImplemented
        if isinstance(recv, TupleV) and m == "clone":
            return None, recv
        return NotImplemented

    def pattern_arg(self, a, node):
        """&str or char pattern -> BStr"""
        if isinstance(a, StrV):
            return a.b
        if isinstance(a, CharV):
            return BStr(L(1), [a.term])
        self.uns("pattern argument of kind %s" % type(a).__name__, node)

    def m_str(self, recv, m, args, node):
        it = self.it
        b = recv.b
        if m in ("to_string", "to_owned", "clone", "as_str", "into", "as_ref", "to_str", "borrow", "deref"):
            return None, recv
        if m == "len":
            return None, IntV(ZeroExt(b.n, IW), b.cap)
        if m == "is_empty":
            return None, BoolV(bstr.is_empty(b))
        if m == "push_str":
            return StrV(self.cat(b, args[0].b, node)), UNIT
        if m == "push":
            if not isinstance(args[0], CharV):
                self.uns("String::push of non-char", node)
            return StrV(self.cat(b, self.pattern_arg(args[0], node), node)), UNIT
        if m == "pop":
            sm, ch, rest = bstr.pop(b)
            return StrV(rest), option(sm, CharV(ch))
        if m == "lines":
            ls, n = bstr.lines(b)
            return None, VecV(n, [StrV(x) for x in ls])
        if m == "split_whitespace":
            ws, n = bstr.split_whitespace(b)
            return None, VecV(n, [StrV(x) for x in ws])
        if m == "trim":
            return None, StrV(bstr.trim(b))
        if m == "trim_start":
            return None, StrV(bstr.trim_start(b))
        if m == "trim_end":
            return None, StrV(bstr.trim_end(b))
        if m == "starts_with":
            return None, BoolV(bstr.prefixof(self.pattern_arg(args[0], node), b))
        if m == "ends_with":
            return None, BoolV(bstr.suffixof(self.pattern_arg(args[0], node), b))
        if m == "strip_prefix":
            p = self.pattern_arg(args[0], node)
            c = bstr.prefixof(p, b)
            return None, option(c, StrV(bstr.substr_from(b, p.n).tight()))
        if m == "split":
            a = args[0]
            if isinstance(a, CharV) and bvval(a.term) is not None:
                pat = chr(bvval(a.term))
            elif isinstance(a, StrV) and a.b.concrete() is not None:
                pat = a.b.concrete()
            else:
                self.uns("str::split with a symbolic pattern", node)
            if pat == "":
                self.uns("str::split with an empty pattern", node)
            ps, n = bstr.split(b, pat)
            return None, VecV(n, [StrV(x) for x in ps])
        if m in ("rfind", "find"):
            if not isinstance(args[0], CharV):
                self.uns("str::%s with a non-char pattern" % m, node)
            pat = args[0].term
            fn = bstr.rfind_char if m == "rfind" else bstr.find_char
            found, idx = fn(b, lambda c: Eq(c, pat))
            return None, option(found, IntV(ZeroExt(idx, IW), max(b.cap - 1, 0)))
        if m in ("bytes", "chars"):
            # ASCII only: bytes and chars coincide (u8 and char are both modelled as 8-bit codes)
            return None, VecV(b.n, [CharV(c) for c in b.chars])
        if m == "replace":
            a0 = args[0]
            if isinstance(a0, CharV) and bvval(a0.term) is not None:
                pat = chr(bvval(a0.term))
            elif isinstance(a0, VecV) and bvval(a0.n) is not None and all(
                    isinstance(x, CharV) and bvval(x.term) is not None for x in a0.elems[:bvval(a0.n)]):
                pat = "".join(chr(bvval(x.term)) for x in a0.elems[:bvval(a0.n)])      # [c1, c2, ..] / &[..] pattern
            elif isinstance(a0, StrV) and a0.b.concrete() is not None and len(a0.b.concrete()) == 1:
                pat = a0.b.concrete()
            else:
                self.uns("str::replace with a pattern that is not a literal char / char array / 1-char &str", node)
            rep = args[1].b.concrete() if isinstance(args[1], StrV) else None
            if rep is None:
                self.uns("str::replace with a symbolic replacement", node)
            return None, StrV(bstr.replace_char(b, pat, rep))
        if m in ("to_lowercase", "to_ascii_lowercase"):
            return None, StrV(bstr.to_ascii_lowercase(b))
        if m in ("into_bytes", "as_bytes", "to_vec"):
            return None, VecV(b.n, [CharV(c) for c in b.chars])
        if m == "split_once":
            if not isinstance(args[0], CharV):
                self.uns("str::split_once with a non-char pattern", node)
            pat = args[0].term
            found, idx = bstr.find_char(b, lambda c: Eq(c, pat))
            left = bstr.prefix(b, idx)
            right = bstr.substr_from(b, Add(idx, L(1))).tight()
            return None, option(found, TupleV([StrV(left), StrV(right)]))
        if m == "to_snake_case":
            return None, StrV(self.snake(b, node))
        if m == "contains" and isinstance(args[0], CharV) and bvval(args[0].term) is not None:
            return None, BoolV(bstr.contains_char(b, chr(bvval(args[0].term))))
        return NotImplemented

    def cat(self, a, b, node):
        try:
            return bstr.concat(a, b)
        except bstr.BoundExceeded as x:
            raise I.Inconclusive("bound exceeded: %s at %s:%s" % (x, self.it.cur_file, node.get("line")))

    def snake(self, b, node):
        """heck::ToSnakeCase on lower-case alphanumerics + separators.
        Upper-case letters are outside the model: recorded as a panic-like bound
        condition `snake_case_outside_model` that harnesses must exclude."""
        it = self.it
        outside = Or(*[is_upper(c) for c in b.chars])
        it.panic(outside, "MODEL-BOUND to_snake_case on upper-case input", node)
        keep = []
        chars = []
        pend = FALSE     # a separator was seen since the last emitted word char
        started = FALSE  # some word char has been emitted
        out = bstr.EMPTY
        pieces = []
        for c in b.chars:
            valid = Not(Eq(c, bstr.Z8))
            al = And(valid, is_alnum_lower(c))
            sep = And(valid, Not(al))
            # emit "_" + c when a separator is pending and a word was started
            need_us = And(al, pend, started)
            pieces.append((need_us, al, c))
            started = Or(started, al)
            pend = Ite(al, FALSE, Or(pend, sep))
        # build by compaction over a doubled char list: [maybe '_', maybe c] per input char
        dbl = []
        kp = []
        for need_us, al, c in pieces:
            dbl.append(bv(ord("_"), 8))
            kp.append(need_us)
            dbl.append(c)
            kp.append(al)
        return bstr.compact(dbl, kp)

    def m_vec(self, recv, m, args, node):
        it = self.it
        if m in ("iter", "into_iter", "clone", "to_vec", "as_slice", "iter_mut") and m != "iter_mut":
            return None, recv
        if m == "len":
            return None, IntV(ZeroExt(recv.n, IW), len(recv.elems))
        if m == "is_empty":
            return None, BoolV(Eq(recv.n, L(0)))
        if m == "enumerate":
            return None, VecV(recv.n, [TupleV([IntV.const(i), x]) for i, x in enumerate(recv.elems)])
        if m == "collect":
            return None, recv
        if m == "next":
            some = Not(Eq(recv.n, L(0)))
            first = recv.elems[0] if recv.elems else None
            rest = VecV(Ite(some, Sub(recv.n, L(1)), recv.n), recv.elems[1:])
            return rest, (option(some, first) if first is not None else none())
        if m == "last":
            if not recv.elems:
                return None, none()
            acc = recv.elems[0]
            for k in range(1, len(recv.elems)):
                acc = merge(Eq(recv.n, L(k + 1)), recv.elems[k], acc, "last")
            return None, option(Not(Eq(recv.n, L(0))), acc)
        if m in ("nth", "take", "skip"):
            if not isinstance(args[0], IntV):
                self.uns("%s with a non-integer argument" % m, node)
            k = bvval(args[0].term)
            if m == "take":
                kk = ZeroExt(args[0].term, LB)
                big = z3.UGE(args[0].term, ZeroExt(recv.n, IW)) if k is None else (TRUE if k >= len(recv.elems) else Ule(recv.n, L(k)))
                n2 = Ite(big, recv.n, kk)
                return None, VecV(n2, recv.elems if k is None else recv.elems[:k])
            if k is None:
                self.uns("%s with a symbolic count" % m, node)
            if m == "skip":
                return None, VecV(Ite(Ult(L(min(k, 255)), recv.n), Sub(recv.n, L(min(k, 255))), L(0)), recv.elems[k:])
            el = recv.elems[k] if k < len(recv.elems) else None
            rest = VecV(Ite(Ult(L(min(k, 255)), recv.n), Sub(recv.n, L(min(k + 1, 255))), L(0)), recv.elems[k + 1:])
            return rest, (option(Ult(L(k), recv.n), el) if el is not None else none())
        if m == "dedup":
            keeps = []
            for i, x in enumerate(recv.elems):
                g = Ult(L(i), recv.n)
                keeps.append(g if i == 0 else And(g, Not(val_eq(x, recv.elems[i - 1]))))
            if all(isinstance(x, CharV) for x in recv.elems):
                cb = bstr.compact([x.term for x in recv.elems], keeps)
                return VecV(cb.n, [CharV(c) for c in cb.chars]), UNIT
            n2, out = self.compact_vals(recv.elems, keeps)
            return VecV(n2, out), UNIT
        if m == "rev":
            n = bvval(recv.n)
            if n is not None:
                return None, VecV(recv.n, list(reversed(recv.elems[:n])))
            out = []
            for j in range(len(recv.elems)):
                acc = None
                for k in range(len(recv.elems)):
                    # out[j] = elems[n-1-j]  <=>  k + j + 1 == n
                    acc = recv.elems[k] if acc is None else merge(Eq(recv.n, L(k + j + 1)), recv.elems[k], acc, "rev")
                out.append(acc)
            return None, VecV(recv.n, out)
        if m == "push":
            n = bvval(recv.n)
            if n is not None:
                return VecV(L(n + 1), recv.elems[:n] + [args[0]]), UNIT
            el = []
            for i in range(len(recv.elems) + 1):
                old = recv.elems[i] if i < len(recv.elems) else None
                el.append(merge(Eq(recv.n, L(i)), args[0], old, "Vec::push"))
            return VecV(Add(recv.n, L(1)), el), UNIT
        if m == "map":
            clo = args[0]
            out = []
            for i, x in enumerate(recv.elems):
                out.append(self.guarded_call(Ult(L(i), recv.n), clo, [x], node))
            return None, VecV(recv.n, out)
        if m in ("any", "all"):
            clo = args[0]
            acc = FALSE if m == "any" else TRUE
            for i in range(len(recv.elems) - 1, -1, -1):
                g = Ult(L(i), recv.n)
                r = self.guarded_call(g, clo, [recv.elems[i]], node)
                if r is None:       # slot beyond the sequence's length
                    continue
                if not isinstance(r, BoolV):
                    self.uns("%s closure not returning bool" % m, node)
                if m == "any":
                    acc = Ite(g, Or(r.term, acc), FALSE)
                else:
                    acc = Ite(g, And(r.term, acc), TRUE)
            return None, BoolV(acc)
        if m == "take_while":
            clo = args[0]
            run = TRUE
            n = L(0)
            for i, x in enumerate(recv.elems):
                g = And(run, Ult(L(i), recv.n))
                if is_f(g):
                    break
                r = self.guarded_call(g, clo, [x], node)
                run = And(g, r.term)
                n = Add(n, b2bv(run, LB))
            return None, VecV(n, recv.elems)
        if m in ("filter_map", "filter"):
            clo = args[0]
            keeps, vals = [], []
            for i, x in enumerate(recv.elems):
                g = Ult(L(i), recv.n)
                r = self.guarded_call(g, clo, [x], node)
                if m == "filter":
                    keeps.append(And(g, r.term))
                    vals.append(x)
                else:
                    if not isinstance(r, EnumV) or r.ty != "Option":
                        self.uns("filter_map closure not returning Option", node)
                    keeps.append(And(g, r.is_variant("Some")))
                    vals.append(r.payload["Some"][0] if r.payload.get("Some") else None)
            cnt, out = self.compact_vals(vals, keeps)
            return None, VecV(cnt, out)
        if m == "join":
            if not isinstance(args[0], StrV):
                self.uns("join with non-string separator", node)
            if not all(isinstance(x, StrV) or x is None for x in recv.elems):
                self.uns("join of non-strings", node)
            # None = an element slot beyond the vector's length (never selected)
            return None, StrV(bstr.join([x.b if x is not None else bstr.EMPTY for x in recv.elems], recv.n, args[0].b))
        if m == "contains":
            return None, BoolV(Or(*[And(Ult(L(i), recv.n), val_eq(x, args[0])) for i, x in enumerate(recv.elems)]))
        return NotImplemented

    def compact_vals(self, vals, keeps):
        """stable filter of a list of values by symbolic keep flags -> (count, values)"""
        cnt = L(0)
        pos = []
        for kp in keeps:
            pos.append(cnt)
            cnt = Add(cnt, b2bv(kp, LB))
        out = []
        for j in range(len(vals)):
            acc = None
            for k in range(len(vals) - 1, j - 1, -1):
                if vals[k] is None:
                    continue
                acc = vals[k] if acc is None else merge(And(keeps[k], Eq(pos[k], L(j))), vals[k], acc, "filter")
            if acc is not None:
                out.append(acc)
        return cnt, out

    def guarded_call(self, g, clo, cargs, node):
        it = self.it
        if not isinstance(clo, ClosureV):
            self.uns("iterator adaptor argument that is not a closure", node)
        return it.branch(g, lambda: it.deref(it.call_closure(clo, cargs)), lambda: None, "closure")

    def m_set(self, recv, m, args, node):
        if m == "contains":
            return None, BoolV(Or(*[And(g, val_eq(k, args[0])) for g, k in recv.entries]))
        if m == "insert":
            present = Or(*[And(g, val_eq(k, args[0])) for g, k in recv.entries])
            new = SetV(recv.entries + [(Not(present), args[0])])
            return new, BoolV(Not(present))
        if m == "len":
            self.uns("HashSet::len", node)
        if m == "clone":
            return None, recv
        return NotImplemented

    def option_combinator(self, recv, m, args, node):
        it = self.it
        is_some = recv.is_variant("Some")
        p = recv.payload.get("Some")
        val = p[0] if p else None

        def clo(v):
            if len(args) != 1 or not isinstance(args[0], ClosureV):
                self.uns("Option::%s with a non-closure argument" % m, node)
            return it.branch(is_some, lambda: it.deref(it.call_closure(args[0], [v])), lambda: None, "Option::" + m)
        if m == "unwrap_or":
            return args[0] if val is None else merge(is_some, val, args[0], "Option::unwrap_or")
        if m == "unwrap_or_else":
            if not isinstance(args[0], ClosureV):
                self.uns("Option::unwrap_or_else with a non-closure", node)
            d = it.branch(Not(is_some), lambda: it.deref(it.call_closure(args[0], [])), lambda: None, "Option::unwrap_or_else")
            return d if val is None else merge(is_some, val, d, "Option::unwrap_or_else")
        if m == "unwrap_or_default":
            if isinstance(val, StrV):
                d = mkstr("")
            elif isinstance(val, IntV):
                d = IntV.const(0)
            elif isinstance(val, BoolV):
                d = BoolV(FALSE)
            else:
                self.uns("Option::unwrap_or_default for this payload type", node)
            return merge(is_some, val, d, "Option::unwrap_or_default")
        if m == "map":
            if val is None:
                return none()
            return option(is_some, clo(val))
        if m == "and_then":
            if val is None:
                return none()
            r = clo(val)
            if not isinstance(r, EnumV) or r.ty != "Option":
                self.uns("Option::and_then closure not returning Option", node)
            return merge(is_some, r, none(), "Option::and_then")
        if m == "is_some_and":
            if val is None:
                return BoolV(FALSE)
            r = clo(val)
            return BoolV(And(is_some, r.term))
        self.uns("Option::" + m, node)

    def m_enum(self, recv, m, args, node):
        it = self.it
        if m == "clone":
            return None, recv
        if recv.ty == "Option":
            if m == "is_some":
                return None, BoolV(recv.is_variant("Some"))
            if m == "is_none":
                return None, BoolV(recv.is_variant("None"))
            if m in ("unwrap", "expect"):
                it.panic(recv.is_variant("None"), "unwrap on None", node)
                p = recv.payload.get("Some")
                return None, (p[0] if p else UNIT)
            if m in ("as_ref", "as_deref"):
                return None, recv
            if m in ("unwrap_or", "unwrap_or_default", "unwrap_or_else", "map", "and_then", "is_some_and"):
                return None, self.option_combinator(recv, m, args, node)
            if m == "map_or":
                if len(args) != 2 or not isinstance(args[1], ClosureV):
                    self.uns("Option::map_or with a non-closure", node)
                p = recv.payload.get("Some")
                dflt = args[0]
                if p is None:
                    return None, dflt
                r = it.branch(recv.is_variant("Some"), lambda: it.deref(it.call_closure(args[1], [p[0]])),
                              lambda: dflt, "Option::map_or")
                return None, r
        if recv.ty == "Result":
            if m == "is_ok":
                return None, BoolV(recv.is_variant("Ok"))
            if m == "is_err":
                return None, BoolV(recv.is_variant("Err"))
            if m in ("unwrap", "expect"):
                it.panic(recv.is_variant("Err"), "unwrap on Err", node)
                p = recv.payload.get("Ok")
                return None, (p[0] if p else UNIT)
            if m in ("context", "with_context"):
                return None, recv
        if m == "to_string":
            return None, StrV(self.display(recv, node))
        if m == "into":
            return None, self.convert_from(recv, None, node)
        return NotImplemented
