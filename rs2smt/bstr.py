"""Bounded strings as bit-vector sequences (the library models of rs2smt).

A BStr is (n, chars): n is a bit-vector of LB bits (the length), chars a python
list of `cap` 8-bit terms.  Invariant (established for inputs by a
well-formedness constraint and preserved by every operation):
    chars[i] == 0 for i >= n, chars[i] != 0 for i < n, n <= cap.
Only ASCII (1..127) is modelled; anything else is outside the bound and is
reported as such by the interpreter.

Every operation here is a *functional* definition by bounded unrolling, so a
term with concrete inputs folds to a concrete value (translator validation)
and a term with symbolic inputs is a QF_BV formula.
"""
import z3
from smtlib import (TRUE, FALSE, And, Or, Not, Ite, Eq, Ult, Ule, Add, Sub, BvOr, bv, bvval,
                    ZeroExt, Sum, b2bv, is_t, is_f, Implies)

LB = 8          # bits of a length
MAXCAP = 240
Z8 = bv(0, 8)

# Rust char::is_whitespace restricted to ASCII: \t \n \x0b \x0c \r and space
ASCII_WS = (9, 10, 11, 12, 13, 32)


class BoundExceeded(Exception):
    pass


def L(v):
    return bv(v, LB)


def is_ws(c):
    v = bvval(c)
    if v is not None:
        return TRUE if v in ASCII_WS else FALSE
    return Or(*[Eq(c, bv(w, 8)) for w in ASCII_WS])


def ceq(c, ch):
    return Eq(c, bv(ord(ch), 8))


class BStr:
    __slots__ = ("n", "chars")

    def __init__(self, n, chars):
        if len(chars) > MAXCAP:
            raise BoundExceeded("string capacity %d > %d" % (len(chars), MAXCAP))
        self.n = n
        self.chars = chars

    @property
    def cap(self):
        return len(self.chars)

    # ---- construction -------------------------------------------------
    @staticmethod
    def lit(s):
        for ch in s:
            if not (0 < ord(ch) < 128):
                raise BoundExceeded("non-ASCII literal %r" % s)
        return BStr(L(len(s)), [bv(ord(ch), 8) for ch in s])

    @staticmethod
    def var(name, cap, alphabet, minlen=0):
        """fresh symbolic string of length <= cap over `alphabet`;
        returns (BStr, well-formedness constraint)"""
        n = z3.BitVec(name + "#n", LB)
        chars = [z3.BitVec("%s#%d" % (name, i), 8) for i in range(cap)]
        cons = [Ule(n, L(cap))]
        if minlen:
            cons.append(Ule(L(minlen), n))
        for i, c in enumerate(chars):
            inalpha = Or(*[ceq(c, a) for a in alphabet])
            cons.append(Ite(Ult(L(i), n), inalpha, Eq(c, Z8)))
        return BStr(n, chars), And(*cons)

    def concrete(self):
        """python str if fully concrete else None"""
        n = bvval(self.n)
        if n is None:
            return None
        out = []
        for c in self.chars[:n]:
            v = bvval(c)
            if v is None:
                return None
            out.append(chr(v))
        return "".join(out)

    def at(self, i):
        return self.chars[i] if i < len(self.chars) else Z8

    def padded(self, cap):
        if cap <= self.cap:
            return self.chars[:cap]
        return self.chars + [Z8] * (cap - self.cap)

    def tight(self):
        """drop trailing capacity that is statically zero"""
        k = self.cap
        while k > 0 and bvval(self.chars[k - 1]) == 0:
            k -= 1
        if k == self.cap:
            return self
        return BStr(self.n, self.chars[:k])

    def terms(self):
        return [self.n] + list(self.chars)


EMPTY = BStr.lit("")


def ite(c, a, b):
    if is_t(c):
        return a
    if is_f(c):
        return b
    if a is b:
        return a
    cap = max(a.cap, b.cap)
    ac, bc = a.padded(cap), b.padded(cap)
    return BStr(Ite(c, a.n, b.n), [Ite(c, x, y) for x, y in zip(ac, bc)])


def eq(a, b):
    m = min(a.cap, b.cap)
    conj = [Eq(a.n, b.n)]
    for i in range(m):
        conj.append(Eq(a.chars[i], b.chars[i]))
    # by the padding invariant, n equal and <= m means the rest is zero on both sides
    if a.cap > m:
        conj.append(Ule(a.n, L(m)))
    if b.cap > m:
        conj.append(Ule(b.n, L(m)))
    return And(*conj)


def _bits_for(maxv):
    k = 0
    while (1 << k) <= maxv:
        k += 1
    return k


def shift_right(chars, amt, maxamt, outcap):
    """out[k] = chars[k - amt] (0 if out of range); amt <= maxamt"""
    a = bvval(amt)
    if a is not None:
        return [(chars[k - a] if 0 <= k - a < len(chars) else Z8) for k in range(outcap)]
    cur = list(chars) + [Z8] * max(0, outcap - len(chars))
    cur = cur[:outcap] if len(cur) > outcap else cur
    for j in range(_bits_for(maxamt)):
        bit = Eq(z3.Extract(j, j, amt), bv(1, 1))
        sh = 1 << j
        cur = [Ite(bit, cur[k - sh] if k - sh >= 0 else Z8, cur[k]) for k in range(len(cur))]
    return cur


def shift_left(chars, amt, maxamt):
    """out[k] = chars[k + amt] (0 past the end); amt <= maxamt"""
    a = bvval(amt)
    if a is not None:
        return [(chars[k + a] if k + a < len(chars) else Z8) for k in range(len(chars))]
    cur = list(chars)
    for j in range(_bits_for(maxamt)):
        bit = Eq(z3.Extract(j, j, amt), bv(1, 1))
        sh = 1 << j
        cur = [Ite(bit, cur[k + sh] if k + sh < len(cur) else Z8, cur[k]) for k in range(len(cur))]
    return cur


def truncate(chars, n):
    """zero everything at positions >= n"""
    v = bvval(n)
    if v is not None:
        return [c if k < v else Z8 for k, c in enumerate(chars)]
    return [Ite(Ult(L(k), n), c, Z8) for k, c in enumerate(chars)]


def concat(a, b):
    if a.cap == 0:
        return b
    if b.cap == 0:
        return a
    an = bvval(a.n)
    cap = a.cap + b.cap
    if cap > MAXCAP:
        raise BoundExceeded("string capacity %d > %d" % (cap, MAXCAP))
    if an is not None:
        chars = a.chars[:an] + b.chars
        return BStr(Add(a.n, b.n), chars)
    sb = shift_right(b.chars, a.n, a.cap, cap)
    ac = a.padded(cap)
    return BStr(Add(a.n, b.n), [BvOr(x, y) for x, y in zip(ac, sb)])


def concat_all(parts):
    r = EMPTY
    for p in parts:
        r = concat(r, p)
    return r


def substr_from(s, start):
    """s[start..] ; caller guarantees start <= s.n"""
    return BStr(Sub(s.n, start), shift_left(s.chars, start, s.cap))


def prefix(s, n):
    """s[..n] ; caller guarantees n <= s.n"""
    return BStr(n, truncate(s.chars, n)).tight()


def is_empty(s):
    return Eq(s.n, L(0))


def prefixof(p, s):
    pn = bvval(p.n)
    if pn is not None:
        if pn > s.cap:
            return FALSE
        return And(Ule(p.n, s.n), *[Eq(s.chars[k], p.chars[k]) for k in range(pn)])
    conj = [Ule(p.n, s.n)]
    for k in range(p.cap):
        conj.append(Implies(Ult(L(k), p.n), Eq(s.at(k), p.chars[k])))
    return And(*conj)


def suffixof(p, s):
    pn = bvval(p.n)
    if pn is not None:
        if pn == 0:
            return TRUE
        if pn > s.cap:
            return FALSE
        alts = []
        for e in range(pn, s.cap + 1):      # e = s.n
            alts.append(And(Eq(s.n, L(e)), *[Eq(s.chars[e - pn + j], p.chars[j]) for j in range(pn)]))
        return Or(*alts)
    tail = BStr(p.n, shift_left(s.chars, Sub(s.n, p.n), s.cap))
    return And(Ule(p.n, s.n), eq(tail, p))


def pop(s):
    """String::pop -> (some: Bool, char: BV8, new string)"""
    some = Not(is_empty(s))
    n1 = Sub(s.n, L(1))
    sv = bvval(s.n)
    if sv is not None:
        if sv == 0:
            return FALSE, Z8, s
        return TRUE, s.chars[sv - 1], BStr(n1, s.chars[:sv - 1])
    ch = Z8
    chars = []
    for k, c in enumerate(s.chars):
        last = Eq(s.n, L(k + 1))
        ch = Ite(last, c, ch)
        chars.append(Ite(last, Z8, c))
    return some, ch, BStr(Ite(some, n1, s.n), chars)


def count_leading(flags, w=LB):
    """number of leading TRUEs"""
    run = TRUE
    tot = bv(0, w)
    for f in flags:
        run = And(run, f)
        if is_f(run):
            break
        tot = Add(tot, b2bv(run, w))
    return tot


def trim_start(s):
    cnt = count_leading([is_ws(c) for c in s.chars])
    return BStr(Sub(s.n, cnt), shift_left(s.chars, cnt, s.cap)).tight()


def trim_end(s):
    # trailing whitespace: position k is in the trailing run iff it is ws and
    # every later position is ws or padding
    tail = TRUE
    cnt = bv(0, LB)
    for k in range(s.cap - 1, -1, -1):
        c = s.chars[k]
        pad = Eq(c, Z8)
        tail = And(tail, Or(pad, is_ws(c)))
        cnt = Add(cnt, b2bv(And(tail, Not(pad)), LB))
    n = Sub(s.n, cnt)
    return BStr(n, truncate(s.chars, n)).tight()


def trim(s):
    return trim_end(trim_start(s))


def find_char(s, pred):
    """(found, index) of the first char satisfying pred"""
    found = FALSE
    idx = L(0)
    for k in range(s.cap - 1, -1, -1):
        h = And(pred(s.chars[k]), Not(Eq(s.chars[k], Z8)))
        idx = Ite(h, L(k), idx)
        found = Or(h, found)
    return found, idx


def rfind_char(s, pred):
    """(found, index) of the last char satisfying pred"""
    found = FALSE
    idx = L(0)
    for k in range(s.cap):
        h = And(pred(s.chars[k]), Not(Eq(s.chars[k], Z8)))
        idx = Ite(h, L(k), idx)
        found = Or(h, found)
    return found, idx


def lines(s):
    """str::lines: list of BStr and the number of lines (BV LB).
    A line ends at '\\n'; a '\\r' directly before that '\\n' is dropped; a final
    line without terminator is a line iff it is non-empty."""
    out = []
    rest = s
    nlines = L(0)
    maxl = s.cap            # at most cap lines (each consumes >= 1 char)
    for j in range(maxl):
        if rest.cap == 0:
            break
        has = Not(is_empty(rest))
        found, idx = find_char(rest, lambda c: ceq(c, "\n"))
        end = Ite(found, idx, rest.n)
        line = prefix(rest, end)
        # strip '\r' before '\n'
        crs = FALSE
        for k in range(line.cap):
            crs = Or(crs, And(found, Eq(end, L(k + 1)), ceq(line.chars[k], "\r")))
        if not is_f(crs):
            _, _, popped = pop(line)
            line = ite(crs, popped, line)
        out.append(line)
        nlines = Add(nlines, b2bv(has, LB))
        nxt = Ite(found, Add(idx, L(1)), rest.n)
        rest = BStr(Sub(rest.n, nxt), shift_left(rest.chars, nxt, rest.cap)[:max(0, rest.cap - 1)])
        if bvval(rest.n) == 0:
            break
    return out, nlines


def find_sub(s, pat):
    """(found, index) of the first occurrence of the concrete non-empty string `pat`"""
    m = len(pat)
    found = FALSE
    idx = L(0)
    for k in range(s.cap - m, -1, -1):
        h = And(*[ceq(s.chars[k + j], pat[j]) for j in range(m)])
        idx = Ite(h, L(k), idx)
        found = Or(h, found)
    return found, idx


def split(s, pat):
    """str::split(pattern) for a concrete non-empty pattern: the pieces between the leftmost
    non-overlapping occurrences, empty pieces included; always at least one piece"""
    m = len(pat)
    out = []
    rest = s
    alive = TRUE
    n = L(0)
    for j in range(s.cap // m + 1):
        found, idx = find_sub(rest, pat)
        piece = ite(found, prefix(rest, idx), rest)
        out.append(piece)
        n = Add(n, b2bv(alive, LB))
        alive = And(alive, found)
        if is_f(alive) or rest.cap < m:
            break
        nxt = Add(idx, L(m))
        rest = ite(found, BStr(Sub(rest.n, nxt), shift_left(rest.chars, nxt, rest.cap)[:max(0, rest.cap - m)]), EMPTY)
    return out, n


def split_whitespace(s):
    out = []
    rest = trim_start(s)
    nw = L(0)
    for j in range((s.cap + 1) // 2):
        if rest.cap == 0:
            break
        has = Not(is_empty(rest))
        found, idx = find_char(rest, is_ws)
        end = Ite(found, idx, rest.n)
        out.append(prefix(rest, end))
        nw = Add(nw, b2bv(has, LB))
        rest = trim_start(BStr(Sub(rest.n, end), shift_left(rest.chars, end, rest.cap)))
        if bvval(rest.n) == 0:
            break
    return out, nw


def compact(chars, keep):
    """stable filter: the kept chars in order.  out[j] = OR_k [keep_k and #kept before k == j] * c_k
    (a flat two-level selection: at most one k is selected per j)"""
    cap = len(chars)
    pos = []
    cnt = L(0)
    for k in range(cap):
        pos.append(cnt)
        cnt = Add(cnt, b2bv(keep[k], LB))
    out = []
    for j in range(cap):
        acc = Z8
        for k in range(j, cap):
            sel = And(keep[k], Eq(pos[k], L(j)))
            acc = BvOr(acc, Ite(sel, chars[k], Z8))
        out.append(acc)
    return BStr(cnt, out).tight()


def replace_char(s, ch, repl):
    """str::replace(pattern, &str) with a concrete replacement string; pattern = one char or a set of chars"""
    def hit(c):
        return Or(*[ceq(c, x) for x in ch])
    if len(repl) == 1:
        r = bv(ord(repl), 8)
        return BStr(s.n, [Ite(hit(c), r, c) for c in s.chars])
    parts = []
    for k, c in enumerate(s.chars):
        one = BStr(b2bv(Not(Eq(c, Z8)), LB), [c])
        parts.append(ite(hit(c), BStr.lit(repl), one))
    return concat_all(parts).tight() if parts else s


def to_ascii_lowercase(s):
    out = []
    for c in s.chars:
        v = bvval(c)
        if v is not None:
            out.append(bv(v + 32, 8) if 65 <= v <= 90 else c)
        else:
            up = And(z3.UGE(c, bv(65, 8)), z3.ULE(c, bv(90, 8)))
            out.append(Ite(up, Add(c, bv(32, 8)), c))
    return BStr(s.n, out)


def contains_char(s, ch):
    return Or(*[ceq(c, ch) for c in s.chars])


def from_uint(t, hi):
    """decimal rendering of an unsigned bit-vector term whose value is <= hi (static bound)"""
    v = bvval(t)
    if v is not None:
        return BStr.lit(str(v))
    nd = len(str(hi))
    if hi <= 512:
        # small range: a table (one-hot selection of constant strings) instead of division circuits
        w0 = t.size()
        sel = [Eq(t, bv(val, w0)) for val in range(hi + 1)]
        chars = []
        for j in range(nd):
            acc = Z8
            for val in range(hi + 1):
                sv = str(val)
                if j < len(sv):
                    acc = BvOr(acc, Ite(sel[val], bv(ord(sv[j]), 8), Z8))
            chars.append(acc)
        n = L(0)
        for val in range(hi + 1):
            n = BvOr(n, Ite(sel[val], L(len(str(val))), L(0)))
        return BStr(n, chars)
    w = max(_bits_for(hi), 4) + 1
    x = ZeroExt(t, w)
    digs = []  # most significant first
    for k in range(nd - 1, -1, -1):
        p = 10 ** k
        d = z3.URem(z3.UDiv(x, bv(p, w)), bv(10, w)) if p > 1 else z3.URem(x, bv(10, w))
        digs.append((k, ZeroExt(d, 8)))
    # number of digits
    ndig = L(1)
    for k in range(1, nd):
        ndig = Ite(z3.UGE(x, bv(10 ** k, w)), L(k + 1), ndig)
    full = [Add(d, bv(48, 8)) for _, d in digs]     # nd chars, leading zeros possible
    sh = shift_left(full, Sub(L(nd), ndig), nd)
    return BStr(ndig, truncate(sh, ndig))


def join(elems, n, sep):
    """elems[0..n) joined by sep"""
    acc = EMPTY
    for i, e in enumerate(elems):
        piece = concat(sep, e) if i > 0 else e
        acc = ite(Ult(L(i), n), concat(acc, piece), acc)
    return acc


def pack(s, cap):
    """single bit-vector key of a string (for equality / set membership)"""
    return z3.Concat(*([s.n] + s.padded(cap))) if cap > 0 else s.n
