"""C25  Source buffer preserves text and tracks indentation by brace structure
(crates/core/src/source.rs)

Symbolic: a sequence of K calls; each call's kind (push_str | push_str_literal |
indent | deindent), its text fragment (any string up to CAP chars over
{a, space, '{', '}', '/', newline}) and its amount (0..2) are symbolic, followed
by a fixed probe call push_str("\\na\\n") that makes the final indentation
observable.  Real code: Source::{push_str, push_str_literal, push_str_impl,
newline, indent, deindent, as_str} interpreted from source, from
Source::default().

Oracle, written from the property statement over the concatenated input text I
(with a per-character mask "appended as literal") and the output buffer O by
character scans (no use of the interpreter's lines/trim models):
 (i)   text-preserved: deleting line-leading whitespace from O and from I gives
       the same string (so nothing but whitespace at line starts differs)
 (ii)  indent-follows-braces: a line with a body that has no leading whitespace of
       its own, or whose start and first non-blank character both lie in one
       multi-line fragment (a fragment in which a newline is followed by more
       text), is indented by exactly 2*depth spaces, where depth follows the
       property's nesting rule evaluated on the *lines of I*: a line whose first
       non-blank char is an interpreted `}` is one level shallower (saturating at
       0), a line whose last non-blank char is an interpreted `{` makes the
       following lines one level deeper, lines whose first non-blank chars are an
       interpreted `//` count for neither; indent(k)/deindent(k) shift the depth
       of every line that starts after the call.
       (ii-w) weak form for the remaining lines that bring their own leading
       whitespace (they start in a single-line fragment, which is kept verbatim):
       indentation >= 2*depth.
 (iii) literal-neutral: (i)+(ii) for call sequences containing push_str_literal
       (literal characters never open/close/comment in the rule above)
 (iv)  balanced-restores: if the brace events of I are balanced (never below
       the start, net zero) and every deindent is covered by earlier explicit
       indents, the probe line is indented by exactly the sum of the explicit
       indent/deindent amounts.
Precondition: deindent is only called when legal (its usize underflow panic is
assumed away); every other panic site must be unreachable.
"""
import json
import random
import z3
import bstr
from bstr import BStr, L, LB, Z8
from smtlib import (TRUE, FALSE, And, Or, Not, Ite, Eq, Ult, Ule, Add, Sub, Implies, bv, bvval, b2bv,
                    is_t, is_f, ZeroExt)
from interp import Interp, StrV, IntV, EnumV, Unsupported, Inconclusive, IW
from core import Inputs, load_asts, native_run, Result, eval_bool, eval_str, eval_bv
from hunt import hunt, hunt_multi, self_test
import models

FILES = ["crates/core/src/source.rs"]
ALPHABET = "a {}/\n"
KINDS = ["push_str", "push_str_literal", "indent", "deindent"]
PROBE = "\na\n"


def bounds(tier):
    """list of (calls, fragment cap) configurations; every kind sequence of each is checked"""
    # narrow job (for whole multi-line fragments): indent(0..2) followed by ONE fragment of <= 5 (quick) / <= 6
    # (thorough) chars over {a, space, '{', '}', newline}
    n = 5 if tier == "quick" else 6
    narrow = dict(calls=2, cap=n, caps=[0, n], amt=2, only=[(2, 0), (2, 1)], alphabet="a {}\n")
    if tier == "quick":
        return [dict(calls=2, cap=3, amt=2), narrow]
    # measured on the repaired source.rs (commit 717df73): 2 text calls x 4 chars each is NOT decided within the
    # 300 s cap as one query and needs ~23 min as 25 length cubes, so the thorough tier widens along other axes
    return [dict(calls=2, cap=3, amt=2),
            dict(calls=3, cap=2, amt=2, min_text=3),
            dict(calls=2, cap=4, caps=[3, 4], amt=2, only=[(0, 0)]), narrow]


# --------------------------------------------------------------------------- interpretation
def execute(it, calls):
    """calls: list of (kind BV2 term or int, StrV text, IntV amount); runs them on a
    Source::default() followed by the probe; returns (out BStr before probe, out BStr after probe)"""
    it.new_session()
    it.set_var("src", it.default_of("Source"))

    def text_of():
        r = it.deref(it.call("Source", "as_str", "src", []))
        if not isinstance(r, StrV):
            raise Unsupported("Source::as_str does not return a string")
        return r.b
    for kind, text, amt in calls:
        k = bv(kind, 2) if isinstance(kind, int) else kind

        def d0():
            it.call("Source", "push_str", "src", [text])

        def d1():
            it.call("Source", "push_str_literal", "src", [text])

        def d2():
            it.call("Source", "indent", "src", [amt])

        def d3():
            it.call("Source", "deindent", "src", [amt])
        it.branch(Eq(k, bv(0, 2)), d0,
                  lambda: it.branch(Eq(k, bv(1, 2)), d1,
                                    lambda: it.branch(Eq(k, bv(2, 2)), d2, d3, "kind"), "kind"), "kind")
        it.tighten_state()
    out = text_of()
    it.call("Source", "push_str", "src", [StrV(BStr.lit(PROBE))])
    it.tighten_state()
    out2 = text_of()
    return out, out2


# --------------------------------------------------------------------------- oracle (character scans)
class Scan:
    """per-position facts about a text X (BStr)"""

    def __init__(self, X):
        P = X.cap
        self.P = P
        c = X.chars
        self.valid = [Not(Eq(x, Z8)) for x in c]
        self.isnl = [bstr.ceq(x, "\n") for x in c]
        self.ws = [And(self.valid[p], Or(bstr.ceq(c[p], " "), bstr.ceq(c[p], "\t")), Not(self.isnl[p])) for p in range(P)]
        self.body = [And(self.valid[p], Not(self.ws[p]), Not(self.isnl[p])) for p in range(P)]
        self.linestart = [TRUE if p == 0 else self.isnl[p - 1] for p in range(P)]
        self.lead = []
        self.first = []
        for p in range(P):
            prev_lead = self.lead[p - 1] if p > 0 else FALSE
            at_front = Or(self.linestart[p], prev_lead)
            self.lead.append(And(self.ws[p], at_front))
            self.first.append(And(self.body[p], at_front))
        self.lineno = []
        cnt = L(0)
        for p in range(P):
            self.lineno.append(cnt)
            cnt = Add(cnt, b2bv(self.isnl[p], LB))
        self.nlines_nl = cnt
        # no body char after p on the same line
        self.nobody_after = [None] * P
        for p in range(P - 1, -1, -1):
            if p == P - 1:
                self.nobody_after[p] = TRUE
            else:
                q = p + 1
                self.nobody_after[p] = Or(Not(self.valid[q]), self.isnl[q],
                                          And(Not(self.body[q]), self.nobody_after[q]))
        self.last = [And(self.body[p], self.nobody_after[p]) for p in range(P)]

    def on_line(self, p, k):
        return Eq(self.lineno[p], L(k))


def norm(X):
    """X with the whitespace at the start of every line deleted"""
    sc = Scan(X)
    keep = [And(sc.valid[p], Not(sc.lead[p])) for p in range(sc.P)]
    return bstr.compact(X.chars, keep)


def norm_equal(X, Y):
    """norm(X) == norm(Y), stated without building the two normal forms: the
    kept characters (everything but line-leading whitespace) are ranked on each
    side; the sequences are equal iff the totals agree and characters of equal
    rank agree."""
    sx, sy = Scan(X), Scan(Y)
    kx = [And(sx.valid[p], Not(sx.lead[p])) for p in range(sx.P)]
    ky = [And(sy.valid[p], Not(sy.lead[p])) for p in range(sy.P)]

    def ranks(keep):
        r, cnt = [], L(0)
        for kp in keep:
            r.append(cnt)
            cnt = Add(cnt, b2bv(kp, LB))
        return r, cnt
    rx, nx = ranks(kx)
    ry, ny = ranks(ky)
    conj = [Eq(nx, ny)]
    for p in range(sx.P):
        for q in range(sy.P):
            conj.append(Implies(And(kx[p], ky[q], Eq(rx[p], ry[q])), Eq(X.chars[p], Y.chars[q])))
    return And(*conj)


def oracle(calls, out, out2):
    """returns dict of goal terms and auxiliary terms"""
    # the input text and its literal mask, including the probe
    parts, masks, events = [], [], []
    I = bstr.EMPTY
    Mk = bstr.EMPTY
    Mm = bstr.EMPTY
    Mf = bstr.EMPTY     # index of the call a character comes from
    any_literal = FALSE
    pre_text = []       # text before each call (for shape predicates)
    for kind, text, amt in calls:
        k = bv(kind, 2) if isinstance(kind, int) else kind
        is_text = Or(Eq(k, bv(0, 2)), Eq(k, bv(1, 2)))
        is_lit = Eq(k, bv(1, 2))
        any_literal = Or(any_literal, is_lit)
        pre_text.append(I)
        t = bstr.ite(is_text, text.b, bstr.EMPTY)
        m = BStr(t.n, [Ite(Eq(c, Z8), Z8, Ite(is_lit, bv(ord("L"), 8), bv(ord("S"), 8))) for c in t.chars])
        # is the fragment multi-line (some newline is followed by more text)?
        multi = Or(*[And(bstr.ceq(t.chars[j], "\n"), Not(Eq(t.chars[j + 1], Z8))) for j in range(t.cap - 1)])
        mm = BStr(t.n, [Ite(Eq(c, Z8), Z8, Ite(multi, bv(ord("M"), 8), bv(ord("U"), 8))) for c in t.chars])
        Mm = bstr.concat(Mm, mm)
        Mf = bstr.concat(Mf, BStr(t.n, [Ite(Eq(c, Z8), Z8, bv(ord("0") + len(pre_text), 8)) for c in t.chars]))
        # explicit indentation events: (position in I, +amount / -amount)
        events.append((I.n, And(Eq(k, bv(2, 2))), And(Eq(k, bv(3, 2))), ZeroExt(amt.term, 8)))
        I = bstr.concat(I, t)
        Mk = bstr.concat(Mk, m)
    I_user, Mk_user = I, Mk
    I = bstr.concat(I, BStr.lit(PROBE))
    Mk = bstr.concat(Mk, BStr.lit("S" * len(PROBE)))
    Mm = bstr.concat(Mm, BStr.lit("M" * len(PROBE)))
    Mf = bstr.concat(Mf, BStr.lit("z" * len(PROBE)))
    cap = I.cap
    Mfc = Mf.padded(cap)
    Mmc = Mm.padded(cap)
    in_multi = [Eq(Mmc[p], bv(ord("M"), 8)) for p in range(cap)]
    Mc = Mk.padded(cap)
    synt = [Eq(Mc[p], bv(ord("S"), 8)) for p in range(cap)]

    g = {}
    # (i)
    g["text"] = norm_equal(out2, I)

    # (ii)
    si = Scan(I)
    so = Scan(out2)
    KL = cap + 1        # line indices 0..cap (each newline starts a new line)
    nl_total = si.nlines_nl
    starts = [L(0)]
    for k in range(1, KL):
        st = L(0)
        for p in range(cap):
            st = Ite(And(si.isnl[p], Eq(si.lineno[p], L(k - 1))), L(p + 1), st)
        starts.append(st)
    D = bv(0, 8)
    goals_exact, goals_weak = [], []
    bal_ok = TRUE
    wellnested = TRUE   # no interpreted `}` line at nesting depth 0 (the statement does not define that case)
    C = bv(0, 8)        # brace counter for (iv)
    for k in range(KL):
        exists = Ule(L(k), nl_total)            # line k exists iff I has at least k newlines
        inl = [And(si.valid[p], si.on_line(p, k)) for p in range(cap)]
        # explicit indentation calls made after line k-1 started and not after line k started
        cur = D
        for pos, is_ind, is_de, amt8 in events:
            if k == 0:
                applies = And(exists, Eq(pos, L(0)))
            else:
                applies = And(exists, Ult(starts[k - 1], pos), Ule(pos, starts[k]))
            cur = Ite(And(applies, is_ind), Add(cur, amt8), cur)
            cur = Ite(And(applies, is_de), Ite(Ult(cur, amt8), bv(0, 8), Sub(cur, amt8)), cur)
        firstp = [And(inl[p], si.first[p]) for p in range(cap)]
        lastp = [And(inl[p], si.last[p]) for p in range(cap)]
        has_body = Or(*firstp)
        own_ws = Or(*[And(inl[p], si.lead[p]) for p in range(cap)])
        comment = Or(*[And(firstp[p], bstr.ceq(I.chars[p], "/"), bstr.ceq(I.at(p + 1), "/"),
                           synt[p], synt[p + 1] if p + 1 < cap else FALSE) for p in range(cap)])
        closes = And(Not(comment), Or(*[And(firstp[p], bstr.ceq(I.chars[p], "}"), synt[p]) for p in range(cap)]))
        opens = And(Not(comment), Or(*[And(lastp[p], bstr.ceq(I.chars[p], "{"), synt[p]) for p in range(cap)]))
        depth = Ite(closes, Ite(Eq(cur, bv(0, 8)), cur, Sub(cur, bv(1, 8))), cur)
        wellnested = And(wellnested, Implies(And(exists, closes), Not(Eq(cur, bv(0, 8)))))
        # (iv) bookkeeping (the probe has no braces)
        bal_ok = And(bal_ok, Implies(And(exists, closes), Not(Eq(C, bv(0, 8)))))
        C = Ite(And(exists, closes), Sub(C, bv(1, 8)), C)
        C = Ite(And(exists, opens), Add(C, bv(1, 8)), C)
        # indentation of line k in the output
        W = bv(0, 8)
        for p in range(so.P):
            W = Add(W, b2bv(And(so.lead[p], so.on_line(p, k)), 8))
        want = z3.Concat(z3.Extract(6, 0, depth), bv(0, 1))     # 2*depth
        # the line starts inside a multi-line fragment: such lines are re-indented, so their own blanks do not count
        # ... provided the line's first non-blank character comes from that same fragment (blanks and text that a
        # later fragment adds to the line are kept verbatim)
        f_start, f_first = Z8, Z8
        for p in range(cap):
            f_start = Ite(And(inl[p], si.linestart[p]), Mfc[p], f_start)
            f_first = Ite(firstp[p], Mfc[p], f_first)
        starts_multi = And(Or(*[And(inl[p], si.linestart[p], in_multi[p]) for p in range(cap)]), Eq(f_start, f_first))
        goals_exact.append(Implies(And(exists, has_body, Or(Not(own_ws), starts_multi)), Eq(W, want)))
        goals_weak.append(Implies(And(exists, has_body, own_ws, Not(starts_multi)), Ule(want, W)))
        D = Ite(exists, Ite(opens, Add(depth, bv(1, 8)), depth), D)
    g["wellnested"] = wellnested
    g["indent_exact"] = And(*goals_exact)
    g["indent_weak"] = And(*goals_weak)
    # (iv): the probe's "a" line is the second-to-last line of I: its index = nl_total - 1
    E = bv(0, 8)
    exp_ok = TRUE       # every deindent is covered by earlier explicit indents (the explicit sum never goes negative)
    for pos, is_ind, is_de, amt8 in events:
        exp_ok = And(exp_ok, Implies(is_de, Ule(amt8, E)))
        E = Ite(is_ind, Add(E, amt8), Ite(is_de, Sub(E, amt8), E))
    Wp = bv(0, 8)
    for p in range(so.P):
        Wp = Add(Wp, b2bv(And(so.lead[p], Eq(Add(so.lineno[p], L(1)), so.nlines_nl)), 8))
    balanced = And(bal_ok, Eq(C, bv(0, 8)), exp_ok)
    g["balanced"] = balanced
    g["restores"] = Implies(balanced, Eq(Wp, z3.Concat(z3.Extract(6, 0, E), bv(0, 1))))
    g["any_literal"] = any_literal
    g["I"] = I_user
    g["pre_text"] = pre_text
    return g


def shape_predicates(calls, pre_text):
    """shape classes of violations, as predicates over the inputs (priority order)"""
    s_pop, s_trim, s_trim_lit, s_close, s_open, s_comment, s_litmid, s_blank, s_blank_lit = [], [], [], [], [], [], [], [], []
    texts = []
    for i, (kind, text, amt) in enumerate(calls):
        k = bv(kind, 2) if isinstance(kind, int) else kind
        is_push = Eq(k, bv(0, 2))
        is_lit = Eq(k, bv(1, 2))
        is_text = Or(is_push, is_lit)
        b = text.b
        pre = pre_text[i]
        # the call continues a partial line
        mid = And(Not(bstr.is_empty(pre)), Not(bstr.suffixof(BStr.lit("\n"), pre)))
        # first line of the fragment
        sc = Scan(b)
        first_is = lambda ch, two=None: Or(*[And(sc.first[p], Eq(sc.lineno[p], L(0)), bstr.ceq(b.chars[p], ch),
                                                 (bstr.ceq(b.at(p + 1), two) if two else TRUE)) for p in range(b.cap)])
        lead0 = Or(*[And(sc.lead[p], Eq(sc.lineno[p], L(0))) for p in range(b.cap)])
        multi = Or(*[And(sc.isnl[p], sc.valid[p + 1] if p + 1 < b.cap else FALSE) for p in range(b.cap)])
        ends_open = Or(*[And(sc.last[p], bstr.ceq(b.chars[p], "{"), Eq(Add(sc.lineno[p], L(0)), sc.nlines_nl))
                         for p in range(b.cap)])
        no_trailing_nl = And(Not(bstr.is_empty(b)), Not(bstr.suffixof(BStr.lit("\n"), b)))
        s_pop.append(And(is_push, mid, first_is("}"), bstr.suffixof(BStr.lit("  "), pre)))
        s_trim.append(And(is_push, mid, multi, lead0))
        s_trim_lit.append(And(is_lit, mid, multi, lead0))
        s_close.append(And(is_push, mid, first_is("}")))
        s_comment.append(And(is_push, mid, Or(first_is("/", "/"), And(first_is("/"), bstr.suffixof(BStr.lit("/"), pre)))))
        s_open.append(And(is_push, no_trailing_nl, ends_open))
        s_litmid.append(And(is_lit, mid))
        # a multi-line fragment with a line that has leading blanks followed by text
        own = Or(*[And(sc.lead[p], sc.body[p + 1]) for p in range(b.cap - 1)])
        s_blank.append(And(is_push, multi, own))
        s_blank_lit.append(And(is_lit, multi, own))
    # (shape name, predicate); the name starts with the function whose call exhibits the shape
    return [("push_str/brace-pop-deletes-midline-spaces", Or(*s_pop)),
            ("push_str/multiline-fragment-first-line-trimmed-midline", Or(*s_trim)),
            ("push_str_literal/multiline-fragment-first-line-trimmed-midline", Or(*s_trim_lit)),
            ("push_str/close-brace-at-fragment-start-midline", Or(*s_close)),
            ("push_str/comment-marker-at-fragment-start-midline", Or(*s_comment)),
            ("push_str/open-brace-at-fragment-end-midline", Or(*s_open)),
            ("push_str_literal/literal-fragment-midline", Or(*s_litmid)),
            ("push_str/multiline-fragment-line-with-own-blanks", Or(*s_blank)),
            ("push_str_literal/multiline-fragment-line-with-own-blanks", Or(*s_blank_lit))]


# --------------------------------------------------------------------------- concrete oracle for the native replay
def py_norm(x):
    return "\n".join(l.lstrip(" \t") for l in x.split("\n"))


def concrete_oracle(ops, out2):
    """ops: [[kind, arg]] incl. probe; out2: native buffer; returns violated clauses"""
    I = ""
    mask = ""
    multi = ""
    frag = []
    id_counter = [0]
    events = []
    for kind, arg in ops:
        if kind in ("push_str", "push_str_literal"):
            I += arg
            mask += ("L" if kind == "push_str_literal" else "S") * len(arg)
            multi += ("M" if any(ch == "\n" and j + 1 < len(arg) for j, ch in enumerate(arg)) else "U") * len(arg)
            frag += [id_counter[0]] * len(arg)
            id_counter[0] += 1
        elif kind == "indent":
            events.append((len(I), arg))
        elif kind == "deindent":
            events.append((len(I), -arg))
    bad = []
    if py_norm(out2) != py_norm(I):
        bad.append("text-preserved")
    ilines = I.split("\n")
    olines = out2.split("\n")
    D = 0
    pos = 0
    C = 0
    balanced = True
    wellnested = True
    prev = None
    ind_bad = []
    for k, line in enumerate(ilines):
        cur = D
        for epos, d in events:
            if (epos <= pos) and (prev is None and epos == 0 or (prev is not None and epos > prev)):
                cur = max(cur + d, 0)
        body = line.lstrip(" \t")
        lead = len(line) - len(body)
        bpos = pos + lead
        S = lambda q: q < len(mask) and mask[q] == "S"
        comment = body.startswith("//") and S(bpos) and S(bpos + 1)
        closes = (not comment) and body.startswith("}") and S(bpos)
        tb = line.rstrip(" \t")
        opens = (not comment) and tb.endswith("{") and S(pos + len(tb) - 1)
        depth = max(cur - 1, 0) if closes else cur
        if closes and cur == 0:
            wellnested = False
        if closes:
            if C == 0:
                balanced = False
            C -= 1
        if opens:
            C += 1
        if k < len(olines):
            W = len(olines[k]) - len(olines[k].lstrip(" \t"))
            starts_multi = pos < len(multi) and multi[pos] == "M" and bpos < len(frag) and frag[pos] == frag[bpos]
            if body and (lead == 0 or starts_multi) and W != 2 * depth:
                ind_bad.append("indent-exact line %d: %d spaces, nesting depth %d" % (k, W, depth))
            if body and lead > 0 and not starts_multi and W < 2 * depth:
                ind_bad.append("indent-weak line %d: %d spaces, nesting depth %d" % (k, W, depth))
        D = depth + (1 if opens else 0)
        prev = pos
        pos += len(line) + 1
    if wellnested and not bad:
        bad += ind_bad
    E = 0
    exp_ok = True
    for _, d in events:
        E += d
        if E < 0:
            exp_ok = False
    if not bad and balanced and exp_ok and C == 0 and len(olines) >= 2:
        pl = olines[-2]
        Wp = len(pl) - len(pl.lstrip(" \t"))
        if Wp != 2 * E:
            bad.append("balanced-restores: probe line indented %d, explicit indentation %d" % (Wp, E))
    return bad


def ops_of(vals, K):
    ops = []
    for i in range(K):
        kind = KINDS[vals["k%d" % i]]
        ops.append([kind, vals["t%d" % i] if kind.startswith("push") else vals["a%d" % i]])
    return ops


def native_case(ops):
    return {"prop": "C25", "ops": ops + [["push_str", PROBE]]}


# --------------------------------------------------------------------------- translator validation
def validate_translator(asts, res, seed, B):
    it = Interp(asts, dict(tighten="off"))
    ok = True
    # (a) the repository's own unit tests, interpreted concretely: every assert_eq! must hold
    ran = []
    for name, (file, node) in sorted(it.tests.items()):
        it.new_session()
        it.panics = []
        it.call_fn(file, node, [])
        live = [p for p in it.panics if not is_f(p[0])]
        ran.append(name)
        if live:
            ok = False
            res.inconclusive.append("translator validation: unit test source::tests::%s fails in the interpreter: %s"
                                    % (name, [(r, w) for _, r, w in live][:3]))
    # (b) seeded concrete call sequences: native vs interpreter (concrete mode)
    rnd = random.Random(seed * 7919 + 25)
    cases = []
    pieces = ["a", " ", "{", "}", "/", "\n", "  ", "//", "a {", "} a", "\n  ", "}\n", "{\n", "\t", "\r\n", "x  "]
    for _ in range(200):
        ops = []
        ind = 0
        for _ in range(rnd.randint(1, 5)):
            r = rnd.random()
            if r < 0.6:
                ops.append(["push_str", "".join(rnd.choice(pieces) for _ in range(rnd.randint(0, 4)))])
            elif r < 0.75:
                ops.append(["push_str_literal", "".join(rnd.choice(pieces) for _ in range(rnd.randint(0, 4)))])
            elif r < 0.9:
                a = rnd.randint(0, 2)
                ops.append(["indent", a])
            else:
                ops.append(["deindent", rnd.randint(0, 2)])
        cases.append(ops)
    nat = native_run([native_case(ops) for ops in cases])
    mism = 0
    skipped = 0
    for ops, nr in zip(cases, nat):
        it.panics = []
        calls = [(KINDS.index(k), StrV(BStr.lit(a if isinstance(a, str) else "")),
                  IntV.const(a if isinstance(a, int) else 0)) for k, a in ops]
        try:
            out, out2 = execute(it, calls)
        except (bstr.BoundExceeded, Inconclusive):
            skipped += 1
            continue
        live = [p for p in it.panics if not is_f(p[0])]
        if live or "panic" in nr:
            if bool(live) != ("panic" in nr):
                mism += 1
                res.inconclusive.append("translator validation: panic mismatch on %s: interpreter %s native %s"
                                        % (ops, [r for _, r, _ in live], nr.get("panic")))
            continue
        got = out2.concrete()
        if got != nr.get("out"):
            mism += 1
            res.inconclusive.append("translator validation mismatch on %s: interpreter %r native %r" % (ops, got, nr.get("out")))
        if mism > 3:
            break
    res.extra["translator_validation"] = {"unit_tests_interpreted": ran, "seeded_cases": len(cases), "skipped_over_capacity": skipped, "mismatches": mism}
    return ok and mism == 0


def validate_encoding(inp, out2, it, res, seed, K, B):
    """the symbolic encoding with inputs fixed (substitute + fold) vs native"""
    rnd = random.Random(seed * 104729 + 25)
    vals_list = []
    for _ in range(60):
        vals = {}
        for i in range(K):
            vals["k%d" % i] = rnd.choice([0, 0, 0, 1, 2, 3])
            vals["t%d" % i] = "".join(rnd.choice(ALPHABET) for _ in range(rnd.randint(0, B["cap"])))
            vals["a%d" % i] = rnd.randint(0, B["amt"])
        vals_list.append(vals)
    nat = native_run([native_case(ops_of(v, K)) for v in vals_list])
    mism = 0
    nopanic = it.no_panic()
    for vals, nr in zip(vals_list, nat):
        pairs = inp.subst_pairs(vals)
        np_ = eval_bool(nopanic, pairs)
        if not np_ or "panic" in nr:
            if np_ == ("panic" in nr):
                mism += 1
                res.inconclusive.append("encoding validation: panic mismatch on %s" % ops_of(vals, K))
            continue
        got = eval_str(out2, pairs)
        if got != nr.get("out"):
            mism += 1
            res.inconclusive.append("encoding validation mismatch on %s: encoding %r native %r" % (ops_of(vals, K), got, nr.get("out")))
    res.extra["encoding_validation"] = {"cases": len(vals_list), "mismatches": mism}
    return mism == 0


# --------------------------------------------------------------------------- main
CLAUSE_TAG = {"text-preserved": "text", "indent-follows-braces": "indent-exact",
              "indent-at-least-nesting": "indent-weak", "balanced-restores": "balanced"}


def check_combo(args):
    """one worker = one concrete sequence of call kinds; texts and amounts symbolic"""
    import core
    kinds, tier, seed, B, second = args
    K = len(kinds)
    caps = B.get("caps") or [B["cap"]] * K
    name = "k%dc%s_" % (K, "".join(str(c) for c in caps) if B.get("caps") else B["cap"]) + "-".join(KINDS[k][0] + KINDS[k][-1] for k in kinds)   # pr = push_str, pl = literal, it, dt
    combo = ",".join(KINDS[k] for k in kinds)
    stats = core.Stats()
    dec = core.Decider("C25/" + name, tier, stats)
    # second opinions: z3 4.8.12 first (cvc5 1.0.3 does not finish these bit-blasted scripts within the cap);
    # in the quick tier only the first kind sequence is cross-checked
    dec.no_second = not second
    res = Result()
    try:
        _check_combo(kinds, tier, seed, B, name, combo, dec, res)
    except Unsupported as u:
        res.inconclusive.append("[%s] %s" % (combo, u))
    except (Inconclusive, bstr.BoundExceeded) as u:
        res.inconclusive.append("[%s] inconclusive: %s" % (combo, u))
    out = res.to_json(stats)
    out["query_log"] = dec.log
    return out


def _check_combo(kinds, tier, seed, B, name, combo, dec, res):
    K = len(kinds)
    asts = load_asts(FILES)
    has_lit = 1 in kinds
    n_text = sum(1 for k in kinds if k in (0, 1))
    caps = B.get("caps") or [B["cap"]] * K
    limits = dict(int_limit=2 * K, str_limit=(sum(caps[i] for i in range(K) if kinds[i] in (0, 1)) + len(PROBE)) * 2 + 4)
    for attempt in range(6):
        it = Interp(asts, dict(tighten="clamp", **limits))
        inp = Inputs()
        calls = []
        for i in range(K):
            # inputs a call kind does not use are fixed, so that models are canonical
            t = inp.str("t%d" % i, caps[i] if kinds[i] in (0, 1) else 0, B.get("alphabet", ALPHABET))
            a = inp.usize("a%d" % i, B["amt"] if kinds[i] in (2, 3) else 0)
            calls.append((kinds[i], t, a))
        it.assume(inp.wf())
        out, out2 = execute(it, calls)
        legal0 = And(*[Not(c) for c, r, w in it.panics if "subtract" in r and _in_fn(asts, w, "deindent")])
        if not it.capacity:
            break
        res.obligations += 1
        v, model, note = dec.decide("capacity@%s#%d" % (name, attempt), [inp.wf(), legal0], it.within_capacity(),
                                    second="capacity")
        if v == "unsat":
            res.discharged += 1
            break
        res.obligations -= 1
        if v != "sat":
            res.inconclusive.append("[%s] capacity obligation undecided: %s %s" % (combo, v, note))
            return
        limits = dict(int_limit=limits["int_limit"] + 2, str_limit=int(limits["str_limit"] * 1.4) + 1)
    else:
        res.inconclusive.append("[%s] capacity limits %s still exceeded after 6 attempts" % (combo, limits))
        return
    res.extra["capacities"] = [{"combo": combo, "buffer_len_max": limits["str_limit"], "indent_max": limits["int_limit"]}]
    res.extra["functions_interpreted"] = sorted("%s:%s" % k for k in it.encoded)

    def kind_vals(vals):
        v = dict(vals)
        for i, k in enumerate(kinds):
            v["k%d" % i] = k
        return v
    # the encoding with inputs fixed vs native
    rnd = random.Random(seed * 104729 + hash(name) % 1000)
    vl = []
    for _ in range(12):
        vals = {}
        for i in range(K):
            vals["t%d" % i] = "".join(rnd.choice(B.get("alphabet", ALPHABET)) for _ in range(rnd.randint(0, caps[i]))) if kinds[i] in (0, 1) else ""
            vals["a%d" % i] = rnd.randint(0, B["amt"]) if kinds[i] in (2, 3) else 0
        vl.append(vals)
    nat = native_run([native_case(ops_of(kind_vals(v), K)) for v in vl])
    nopanic = it.no_panic()
    mism = 0
    for vals, nr in zip(vl, nat):
        pairs = inp.subst_pairs(vals)
        np_ = eval_bool(nopanic, pairs)
        if not np_ or "panic" in nr:
            if np_ == ("panic" in nr):
                mism += 1
                res.inconclusive.append("[%s] encoding validation: panic mismatch on %s" % (combo, ops_of(kind_vals(vals), K)))
            continue
        got = eval_str(out2, pairs)
        if got != nr.get("out"):
            mism += 1
            res.inconclusive.append("[%s] encoding validation mismatch on %s: encoding %r native %r"
                                    % (combo, ops_of(kind_vals(vals), K), got, nr.get("out")))
    res.extra["encoding_validation_cases"] = len(vl)
    if mism:
        return

    legal, other = [], []
    for c, reason, where in it.panics:
        (legal if ("subtract" in reason and _in_fn(asts, where, "deindent")) else other).append((c, reason, where))
    pre_legal = And(*[Not(c) for c, _, _ in legal])
    no_other = And(*[Not(c) for c, _, _ in other])
    base = [inp.wf(), pre_legal, it.within_capacity()]
    g = oracle(calls, out, out2)
    shapes = shape_predicates(calls, g["pre_text"])
    fn = "push_str_literal" if has_lit else "push_str"

    def replay_fn(vals):
        ops = ops_of(kind_vals(vals), K)
        case = native_case(ops)
        nat = native_run([case])[0]
        if "panic" in nat:
            return {"violated": ["no-panic"], "native": nat, "replay": {"native_case": case},
                    "what": "calls=%s native panic: %s" % (json.dumps(ops), nat["panic"])}
        bad = concrete_oracle(case["ops"], nat["out"])
        names = [c for c, tag in CLAUSE_TAG.items() if any(b.startswith(tag) for b in bad)]
        return {"violated": names, "native": nat, "replay": {"native_case": case, "violated": bad},
                "what": "calls=%s buffer=%r violated=%s" % (json.dumps(ops), nat["out"], bad)}
    wn = g["wellnested"]
    clauses = [("no-panic", no_other),
               ("text-preserved", g["text"]),
               ("indent-follows-braces", Implies(And(g["text"], wn), g["indent_exact"])),
               ("indent-at-least-nesting", Implies(And(g["text"], wn), g["indent_weak"])),
               ("balanced-restores", Implies(And(g["text"], g["indent_exact"], g["indent_weak"]), g["restores"]))]

    def role_of(clause, shape):
        # role = property / engine / function whose call exhibits the shape / failing clause / shape class
        if "/" in shape:
            f, sh = shape.split("/", 1)
        else:
            f, sh = ("Source" if clause == "no-panic" else fn), shape
        return "C25/rs2smt/%s/%s/%s" % (f, clause, sh)
    # case split for the expensive configurations: one query per combination of fragment lengths; that the
    # cubes cover every input is itself an obligation (`cover`)
    cubes = None
    if n_text >= 2 and B["cap"] >= 4:
        import itertools
        tx = [calls[i][1].b for i in range(K) if kinds[i] in (0, 1)]
        cubes = [And(*[Eq(b.n, L(l)) for b, l in zip(tx, lens)]) for lens in itertools.product(*[range(b.cap + 1) for b in tx])]
        res.obligations += 1
        v, _, note = dec.decide("cover@" + name, [inp.wf()], Or(*cubes), second="cover")
        if v != "unsat":
            res.inconclusive.append("[%s] the case split does not cover the inputs (%s %s)" % (combo, v, note))
            return
        res.discharged += 1
    hunt_multi(dec, res, "C25", "clauses@" + name, base, clauses, shapes, inp, replay_fn, role_of, cubes=cubes,
               sample="[%s] (i) text-preserved, (ii) indent-follows-braces, (ii-w), (iv) balanced-restores%s, no-panic; "
                      "fragments <= %d chars, amounts <= %d" % (combo, ", (iii) literal-neutral" if has_lit else "", B["cap"], B["amt"]))
    if tier == "thorough" and n_text >= 1:
        self_test(dec, res, "clauses@" + name, base + [no_other], bstr.eq(out2, bstr.concat(g["I"], BStr.lit(PROBE))))


def run(ctx):
    import itertools
    import multiprocessing
    tier, seed, dec = ctx["tier"], ctx["seed"], ctx["decider"]
    stats = ctx["stats"]
    res = Result()
    BS = bounds(tier)
    res.bounds = {"calls": "; ".join("every sequence of %d calls over {push_str, push_str_literal, indent, deindent}%s (kind sequences "
                                     "enumerated; texts and amounts symbolic) with fragments = every string of length <= %d over "
                                     "{a, space, '{', '}', '/', newline}"
                                     % (B["calls"], (" containing at least %d text calls" % B["min_text"] if B.get("min_text") else "")
                                        + (" restricted to the kind sequences %s with per-call caps %s%s" % (
                                            [[KINDS[k] for k in c] for c in B["only"]], B.get("caps"),
                                            " and alphabet %r" % B["alphabet"] if B.get("alphabet") else "") if B.get("only") else ""),
                                        B["cap"]) for B in BS)
                           + "; each followed by the probe push_str(%r)" % PROBE,
                  "amounts": "0..%d" % BS[0]["amt"], "start_state": "Source::default()"}
    res.outside_claim = ["longer call sequences / fragments, other characters (tabs, \\r, non-ASCII)",
                         "append_src, set_indent, as_mut_string, the uwrite!/uwriteln! macros (they call push_str)",
                         "indentation of lines that start in a single-line fragment and carry their own leading whitespace is only "
                         "bounded from below (ii-w); lines that start inside a multi-line fragment must be indented exactly",
                         "texts in which an interpreted `}` line occurs at nesting depth 0 are outside clauses (ii)/(iv) "
                         "(the statement does not define nesting below zero; the code saturates)"]
    res.assumptions = ["deindent(k) is only called when k <= current indentation (its debug-mode underflow panic is assumed away)",
                       "a line is a comment line iff its first non-blank characters are `//` appended as interpreted text",
                       "an indent()/deindent() call affects the lines that start after it"]
    res.trusted_base = list(models.MODELS_DOC)
    res.functions = [(FILES[0], "fn push_str_impl"), (FILES[0], "pub fn push_str("), (FILES[0], "pub fn push_str_literal"),
                     (FILES[0], "fn newline"), (FILES[0], "pub fn indent"), (FILES[0], "pub fn deindent"),
                     (FILES[0], "pub fn as_str"), (FILES[0], "pub struct Source")]
    asts = load_asts(FILES)
    if not validate_translator(asts, res, seed, BS[0]):
        return res
    jobs = []
    for B in BS:
        for c in itertools.product(range(4), repeat=B["calls"]):
            if sum(1 for k in c if k in (0, 1)) >= B.get("min_text", 0) and (not B.get("only") or c in B["only"]):
                jobs.append((c, B))
    # hardest first (most symbolic text) so that the pool stays busy
    jobs.sort(key=lambda j: -sum((j[1].get("caps") or [j[1]["cap"]] * len(j[0]))[i] for i, k in enumerate(j[0]) if k in (0, 1)))
    combos = jobs
    with multiprocessing.get_context("fork").Pool(2) as pool:       # 2 workers x 2 racing solvers = 4 cores
        # second opinions (all three solvers run to completion/cap): one kind sequence in the quick tier,
        # two (not the most expensive ones) in the thorough tier
        sec = {3} if tier == "quick" else {2, 9}
        outs = pool.map(check_combo, [(c, tier, seed, B, i in sec) for i, (c, B) in enumerate(jobs)], chunksize=1)
    seen_roles = set()
    caps = []
    for o in outs:
        res.obligations += o["obligations"]
        res.discharged += o["discharged"]
        for v in o["violations"]:
            if v["role"] not in seen_roles:
                seen_roles.add(v["role"])
                res.violations.append(v)
        res.inconclusive += o["inconclusive"]
        for smp in o["samples"]:
            if len(res.samples) < 24:
                res.samples.append(smp)
        caps += o["extra"].get("capacities", [])
        for st in o["extra"].get("self_tests", []):
            res.extra.setdefault("self_tests", []).append(st)
        res.extra["functions_interpreted"] = sorted(set(res.extra.get("functions_interpreted", [])) |
                                                    set(o["extra"].get("functions_interpreted", [])))
        res.extra["encoding_validation_cases"] = res.extra.get("encoding_validation_cases", 0) + o["extra"].get("encoding_validation_cases", 0)
        stats.queries += o["queries"]
        stats.solver_s += o["solver_s"]
        stats.diffs += o["diffs"]
        for k2, n in o["by_solver"].items():
            stats.by_solver[k2] = stats.by_solver.get(k2, 0) + n
        dec.log += o["query_log"]
    if caps:
        res.bounds["capacities"] = ("per kind sequence the buffer length and indentation are clamped at limits that the `capacity` "
                                    "obligation proves are never exceeded (max buffer %d, max indent %d)"
                                    % (max(c["buffer_len_max"] for c in caps), max(c["indent_max"] for c in caps)))
    res.extra["kind_sequences"] = len(combos)
    return res


def _in_fn(asts, where, fname):
    file, line = where.rsplit(":", 1)
    line = int(line)
    for it in asts.get(file, []):
        if it["k"] == "Impl":
            for f in it["fns"]:
                if f["sig"]["name"] == fname and f["line"] <= line <= f.get("end_line", f["line"]):
                    return True
    return False


def replay(path):
    d = json.load(open(path))
    case = d["native_case"]
    nat = native_run([case])[0]
    print("replay %s: calls=%s" % (path, json.dumps(case["ops"])))
    print("  native buffer: %r" % nat.get("out", nat))
    bad = concrete_oracle(case["ops"], nat["out"]) if "out" in nat else ["panic"]
    print("  violated clauses: %s" % bad)
    print("  REPRODUCED" if bad else "  NOT REPRODUCED")
    return 0 if bad else 1
